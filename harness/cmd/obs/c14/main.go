// Observer for C14 "concurrent read-only queries on shared geometry are safe and give serial
// answers".
//
//  1. Controlled schedules: s2.VerifSched blocks every goroutine at the schedule points of
//     ShapeIndex.maybeApplyUpdates / makeIndexCell / Loop.ContainsPoint; the scheduler releases
//     one goroutine at a time, enumerating the interleavings systematically (depth-first over
//     the enabled sets) for N = 2 and N = 3 goroutines on a shared, not yet built index, plus
//     random schedules. Checked per schedule: answers = serial answers, all cell-map writes made
//     by one goroutine inside its critical section, written exactly once, nobody passes Lock
//     while another goroutine holds it, no deadlock (watchdog). [T]: Model/Conc.v replays the
//     observed schedule.
//  2. Free-running rounds with 8..32 goroutines (package stress).
//  3. The same rounds built with -race (cmd/obs/c14/racer), time-boxed; race reports are
//     violations.
package main

import (
	"bytes"
	"crypto/sha1"
	"encoding/json"
	"fmt"
	"math"
	"os"
	"os/exec"
	"path/filepath"
	"runtime"
	"strconv"
	"strings"
	"sync"
	"time"

	"github.com/golang/geo/s1"
	"github.com/golang/geo/s2"
	"verifharness/cmd/obs/c14/stress"
	"verifharness/internal/vkit"
)

func main() {
	if len(os.Args) > 4 && os.Args[1] == "-child" {
		childMain()
		return
	}
	vkit.Main("C14", []string{"Model.Conc", "Proofs.C14_Protocol"}, run)
}

// The in-process parts (controlled schedules, free-running rounds) run in a child process: a
// broken protocol can end in an unrecoverable Go runtime error ("concurrent map read and map
// write", "all goroutines are asleep"), which must become a reported violation, not the end
// of the observer. The child prints its collector as JSON; progress goes to a file so that the
// schedule being run when it died can be named.
type childOut struct {
	Cases      []vkit.Case
	Violations []vkit.Violation
	Classes    map[string]int
	NonTrivial []string
	Evals      int
	Samples    []interface{}
	Extra      map[string]interface{}
}

var progressFile *os.File

func progress(format string, args ...interface{}) {
	if progressFile != nil {
		progressFile.Seek(0, 0)
		progressFile.Truncate(0)
		fmt.Fprintf(progressFile, format, args...)
	}
}

func childMain() {
	seed, _ := strconv.ParseUint(os.Args[2], 10, 64)
	budget, _ := strconv.Atoi(os.Args[3])
	if p := os.Getenv("C14_PROGRESS"); p != "" {
		progressFile, _ = os.Create(p)
	}
	c := vkit.NewCollector("C14", seed, "child")
	if os.Args[4] == "controlled" {
		runControlled(c, vkit.NewRng(seed), budget)
	} else if os.Args[4] == "shared-options" {
		runSharedOptions(c, vkit.NewRng(seed), budget)
	} else {
		runFree(c, vkit.NewRng(seed), budget)
	}
	out := childOut{Cases: c.Cases, Violations: c.Violations, Classes: c.Classes, Evals: c.Evals, Samples: c.Samples, Extra: c.Extra}
	for k := range c.NonTrivial {
		out.NonTrivial = append(out.NonTrivial, k)
	}
	json.NewEncoder(os.Stdout).Encode(out)
}

func run(c *vkit.Collector, rng *vkit.Rng, budget int) {
	for _, phase := range []string{"controlled", "shared-options", "free-running"} {
		runChild(c, rng, budget, phase)
	}
	// the same rounds under the race detector
	raceRun(c, rng, budget)
}

func runChild(c *vkit.Collector, rng *vkit.Rng, budget int, phase string) {
	prog, _ := filepath.Abs(filepath.Join("..", "build", "C14_progress.txt"))
	cmd := exec.Command(os.Args[0], "-child", fmt.Sprint(rng.U64()>>1), fmt.Sprint(budget), phase)
	cmd.Env = append(os.Environ(), "C14_PROGRESS="+prog)
	var so, se bytes.Buffer
	cmd.Stdout, cmd.Stderr = &so, &se
	err := runTimeout(cmd, time.Duration(120+60*budget)*time.Second)
	var out childOut
	if err == nil {
		err = json.Unmarshal(bytes.TrimSpace(so.Bytes()), &out)
	}
	if err != nil {
		last, _ := os.ReadFile(prog)
		c.Violate(phase+".crash", "the process running the "+phase+" schedules died: "+err.Error()+": "+firstN(strings.ReplaceAll(se.String(), "\n", " | "), 700),
			map[string]interface{}{"running": string(last), "stderr": firstN(se.String(), 3000)})
		c.Check(phase+" schedules ran to completion", "false")
	} else {
		c.Cases = append(c.Cases, out.Cases...)
		for _, v := range out.Violations {
			c.Violate(v.Kind, v.Desc, v.Replay)
		}
		for k, v := range out.Classes {
			c.Classes[k] += v
		}
		for _, k := range out.NonTrivial {
			c.NonTrivial[k] = true
		}
		c.Evals += out.Evals
		for _, s := range out.Samples {
			c.Sample(s)
		}
		for k, v := range out.Extra {
			c.Extra[k] = v
		}
	}
}

func ll(lat, lng float64) s2.Point { return s2.PointFromLatLng(s2.LatLngFromDegrees(lat, lng)) }

func goid() uint64 {
	var buf [64]byte
	n := runtime.Stack(buf[:], false)
	f := strings.Fields(string(buf[:n]))
	id, _ := strconv.ParseUint(f[1], 10, 64)
	return id
}

// ---- the controlled scheduler -------------------------------------------------------------

type arrival struct {
	tid   int
	point int // 0 = the goroutine finished its operation
}

type sched struct {
	mu      sync.Mutex
	shared  *s2.ShapeIndex
	tids    map[uint64]int
	arrive  chan arrival
	release []chan struct{}
	writes  []int  // cell-map writes per goroutine
	inApply []bool // between its release at point 3 and its arrival at point 4
	stopped []bool // blocked once at its first cell-map write of this apply
	badW    []string
}

func (sc *sched) hook(point int, ix *s2.ShapeIndex) {
	if ix != sc.shared {
		return
	}
	sc.mu.Lock()
	tid, ok := sc.tids[goid()]
	sc.mu.Unlock()
	if !ok {
		return
	}
	if point == s2.VerifPtCellMapWrite {
		sc.mu.Lock()
		sc.writes[tid]++
		if !sc.inApply[tid] {
			sc.badW = append(sc.badW, fmt.Sprintf("goroutine %d wrote a cell outside its critical section", tid))
		}
		first := !sc.stopped[tid]
		sc.stopped[tid] = true
		sc.mu.Unlock()
		if !first {
			return
		}
	}
	sc.arrive <- arrival{tid, point}
	<-sc.release[tid]
}

// one workload of a goroutine on the shared loop / its index
type work struct {
	name  string
	entry int // first schedule point it stops at: 7 (Loop.ContainsPoint) or 1
	early bool
	run   func(l *s2.Loop) string
}

func workloads(sp stress.Spec) []work {
	in, out := ll(sp.Lat+0.3*sp.R, sp.Lng), ll(-sp.Lat, sp.Lng+170)
	return []work{
		{"Loop.ContainsPoint(inside)", 7, false, func(l *s2.Loop) string { return fmt.Sprint(l.ContainsPoint(in)) }},
		{"ContainsPointQuery", 1, false, func(l *s2.Loop) string {
			q := s2.NewContainsPointQuery(s2.VerifC13LoopIndex(l), s2.VertexModelSemiOpen)
			return fmt.Sprint(q.Contains(in), q.Contains(out))
		}},
		{"EdgeQuery.Distance(no interiors)", 1, false, func(l *s2.Loop) string {
			q := s2.NewClosestEdgeQuery(s2.VerifC13LoopIndex(l), s2.NewClosestEdgeQueryOptions().IncludeInteriors(false))
			return fmt.Sprintf("%x", math.Float64bits(float64(q.Distance(s2.NewMinDistanceToPointTarget(out)))))
		}},
		{"Loop.ContainsPoint(outside the bound)", 7, true, func(l *s2.Loop) string { return fmt.Sprint(l.ContainsPoint(out)) }},
		{"Loop.ContainsCell", 1, false, func(l *s2.Loop) string {
			return fmt.Sprint(l.ContainsCell(s2.CellFromCellID(s2.CellFromPoint(in).ID().Parent(9))))
		}},
		{"CrossingEdgeQuery", 1, false, func(l *s2.Loop) string {
			q := s2.NewCrossingEdgeQuery(s2.VerifC13LoopIndex(l))
			return fmt.Sprint(q.Crossings(in, out, l, s2.CrossingTypeAll))
		}},
	}
}

type execResult struct {
	events   [][2]int // (tid, point reached after the release)
	choices  []int    // the released goroutine at every decision
	enabled  [][]int  // the enabled set at every decision
	answers  []string
	writers  []int // goroutines that wrote, in order of their first write
	nwrites  int
	passes   []int // arrivals at point 6 per goroutine
	problems []string
	deadlock bool
}

// runSchedule executes the N workloads on a fresh shared loop under the scheduler. pick chooses
// among the enabled goroutines at each decision. probeLock: now and then release a goroutine
// waiting at point 2 although the lock is held, and check that it does NOT get past Lock.
func runSchedule(sp stress.Spec, ws []work, pick func(step int, enabled []int) int, probeLock bool) execResult {
	n := len(ws)
	names := []string{}
	for _, w := range ws {
		names = append(names, w.name)
	}
	l := s2.RegularLoop(ll(sp.Lat, sp.Lng), s1.Angle(sp.R)*s1.Degree, sp.N)
	sc := &sched{shared: s2.VerifC13LoopIndex(l), tids: map[uint64]int{}, arrive: make(chan arrival, 2*n),
		writes: make([]int, n), inApply: make([]bool, n), stopped: make([]bool, n)}
	for i := 0; i < n; i++ {
		sc.release = append(sc.release, make(chan struct{}))
	}
	s2.VerifSched = sc.hook
	defer func() { s2.VerifSched = nil }()
	res := execResult{answers: make([]string, n), passes: make([]int, n)}
	for i := 0; i < n; i++ {
		go func(i int) {
			sc.mu.Lock()
			sc.tids[goid()] = i
			sc.mu.Unlock()
			defer func() {
				if e := recover(); e != nil {
					res.answers[i] = "panic: " + fmt.Sprint(e)
				}
				sc.arrive <- arrival{i, 0}
			}()
			res.answers[i] = ws[i].run(l)
		}(i)
	}
	at := make([]int, n) // point each goroutine is blocked at; -1 running; 0 finished
	for i := range at {
		at[i] = -1
	}
	wait := func(d time.Duration) (arrival, bool) {
		select {
		case a := <-sc.arrive:
			return a, true
		case <-time.After(d):
			return arrival{}, false
		}
	}
	for k := 0; k < n; k++ { // everybody reaches its first schedule point
		a, ok := wait(10 * time.Second)
		if !ok {
			res.deadlock = true
			return res
		}
		at[a.tid] = a.point
	}
	holder := -1
	lastRel := make([]int, n) // the point each goroutine was last released from
	var pendingLock []int     // released at point 2 while the lock was held: must stay blocked
	wroteSeen := map[int]bool{}
	note := func(a arrival) {
		at[a.tid] = a.point
		res.events = append(res.events, [2]int{a.tid, a.point})
		switch a.point {
		case 3:
			// (a holder that has been released from point 5 is executing Unlock: its arrival at 6
			// may be reported after the next owner's arrival at 3)
			if holder >= 0 && holder != a.tid && !(at[holder] == -1 && lastRel[holder] == 5) {
				res.problems = append(res.problems, fmt.Sprintf("goroutine %d passed Lock while goroutine %d holds it", a.tid, holder))
			}
			holder = a.tid
		case 6:
			res.passes[a.tid]++
			if holder == a.tid && lastRel[a.tid] == 5 {
				holder = -1
			}
		}
		if sc.writes[a.tid] > 0 && !wroteSeen[a.tid] {
			wroteSeen[a.tid] = true
			res.writers = append(res.writers, a.tid)
		}
	}
	for step := 0; ; step++ {
		// the lock is free again: a goroutine parked inside mu.Lock() (probe) takes it now
		for holder == -1 && len(pendingLock) > 0 {
			a, ok := wait(10 * time.Second)
			if !ok {
				res.deadlock = true
				return res
			}
			pendingLock = remove(pendingLock, a.tid)
			note(a)
		}
		var enabled []int
		alive := false
		for i := 0; i < n; i++ {
			if at[i] != 0 {
				alive = true
			}
			if at[i] > 0 && !(at[i] == 2 && holder >= 0) {
				enabled = append(enabled, i)
			}
		}
		if !alive {
			break
		}
		if len(enabled) == 0 {
			// only goroutines inside Lock (pendingLock) remain running: they must come through now
			if len(pendingLock) > 0 {
				if a, ok := wait(10 * time.Second); ok {
					pendingLock = remove(pendingLock, a.tid)
					note(a)
					continue
				}
			}
			res.deadlock = true
			return res
		}
		if probeLock && holder >= 0 {
			for i := 0; i < n; i++ {
				if at[i] == 2 && !contains(pendingLock, i) && len(pendingLock) == 0 {
					lastRel[i] = 2
					sc.release[i] <- struct{}{} // it must block inside mu.Lock()
					at[i] = -1
					pendingLock = append(pendingLock, i)
					if a, ok := wait(15 * time.Millisecond); ok {
						pendingLock = remove(pendingLock, a.tid)
						note(a) // records "passed Lock while held" if it is point 3
					}
					break
				}
			}
			enabled = enabled[:0]
			for i := 0; i < n; i++ {
				if at[i] > 0 && !(at[i] == 2 && holder >= 0) {
					enabled = append(enabled, i)
				}
			}
			if len(enabled) == 0 {
				continue
			}
		}
		t := enabled[pick(step, enabled)%len(enabled)]
		res.choices = append(res.choices, t)
		progress("controlled schedule on %s, goroutines %v, released so far %v (points now %v)", sp, names, res.choices, at)
		res.enabled = append(res.enabled, append([]int{}, enabled...))
		sc.mu.Lock()
		switch at[t] {
		case 3:
			sc.inApply[t], sc.stopped[t] = true, false
		case 4:
			sc.inApply[t] = false
		}
		sc.mu.Unlock()
		lastRel[t] = at[t]
		at[t] = -1
		sc.release[t] <- struct{}{}
		// the released goroutine runs alone until its next schedule point; goroutines parked
		// inside mu.Lock() may come through when it unlocks
		for at[t] == -1 {
			a, ok := wait(10 * time.Second)
			if !ok {
				res.deadlock = true
				return res
			}
			if a.tid != t {
				pendingLock = remove(pendingLock, a.tid)
			}
			if a.point == 4 {
				sc.mu.Lock()
				sc.inApply[a.tid] = false
				sc.mu.Unlock()
			}
			note(a)
		}
	}
	for _, w := range sc.writes {
		res.nwrites += w
	}
	res.problems = append(res.problems, sc.badW...)
	return res
}

// serialWrites counts the cell-map writes (hook point 8) of ONE goroutine running the same
// operations one after the other on an identical fresh loop (0 when every operation is turned
// away by the bound check and nobody ever builds the index).
var serialWritesMemo = map[string]int{}

func serialWrites(sp stress.Spec, ws []work) int {
	key := ""
	for _, w := range ws {
		key += w.name + "|"
	}
	if n, ok := serialWritesMemo[key]; ok {
		return n
	}
	l := s2.RegularLoop(ll(sp.Lat, sp.Lng), s1.Angle(sp.R)*s1.Degree, sp.N)
	ix := s2.VerifC13LoopIndex(l)
	n := 0
	s2.VerifSched = func(point int, i *s2.ShapeIndex) {
		if i == ix && point == s2.VerifPtCellMapWrite {
			n++
		}
	}
	for _, w := range ws {
		w.run(l)
	}
	s2.VerifSched = nil
	serialWritesMemo[key] = n
	return n
}

func contains(xs []int, x int) bool {
	for _, y := range xs {
		if y == x {
			return true
		}
	}
	return false
}
func remove(xs []int, x int) []int {
	var out []int
	for _, y := range xs {
		if y != x {
			out = append(out, y)
		}
	}
	return out
}

func coqList(xs []int) string {
	var s []string
	for _, x := range xs {
		s = append(s, fmt.Sprint(x))
	}
	return "[" + strings.Join(s, "; ") + "]"
}

func runControlled(c *vkit.Collector, rng *vkit.Rng, budget int) {
	t0 := time.Now()
	sp := stress.Spec{Lat: 12, Lng: 25, R: 9, N: 100}
	all := workloads(sp)
	// the serial answers and the serial number of cell-map writes
	serialL := s2.RegularLoop(ll(sp.Lat, sp.Lng), s1.Angle(sp.R)*s1.Degree, sp.N)
	serial := make([]string, len(all))
	for i, w := range all {
		serial[i] = w.run(serialL)
	}
	serialCells := s2.VerifC13IndexState(s2.VerifC13LoopIndex(serialL)).NumCells

	schedules, cases := 0, 0
	check := func(ws []work, idx []int, r execResult, how string) {
		schedules++
		names := []string{}
		for _, w := range ws {
			names = append(names, w.name)
		}
		replay := map[string]interface{}{"world": sp.String(), "goroutines": names, "schedule (goroutine released at each step)": r.choices, "how": how}
		key := fmt.Sprintf("%v/%v", idx, r.choices)
		c.Eval(key, len(r.writers) > 0 && len(r.choices) > len(ws)*3)
		c.Class(fmt.Sprintf("controlled:N=%d", len(ws)))
		if r.deadlock {
			c.Violate("controlled.deadlock", "no goroutine can be released although some have not finished (watchdog 10 s)", replay)
			return
		}
		for i := range ws {
			if r.answers[i] != serial[idx[i]] {
				c.Violate("controlled.answer", fmt.Sprintf("goroutine %d (%s) answers {%s}, the single-threaded answer is {%s}", i, ws[i].name, r.answers[i], serial[idx[i]]), replay)
			}
		}
		for _, p := range r.problems {
			c.Violate("controlled.mutex", p, replay)
		}
		wantWrites := serialWrites(sp, ws) // what one goroutine running the same operations writes
		if len(r.writers) > 1 || r.nwrites != wantWrites {
			c.Violate("controlled.applied-once", fmt.Sprintf("cell-map writes: %d by goroutines %v; one goroutine running the same operations writes %d cells, once", r.nwrites, r.writers, wantWrites), replay)
		}
		if cases < 450*budget && how != "probe" {
			cases++
			var entries, todos, ev []string
			var earl []string
			for i, w := range ws {
				entries = append(entries, fmt.Sprint(w.entry))
				td := r.passes[i] - 1
				if td < 0 {
					td = 0
				}
				todos = append(todos, fmt.Sprint(td))
				earl = append(earl, fmt.Sprint(w.early))
			}
			for _, e := range r.events {
				ev = append(ev, fmt.Sprintf("(%d, %d)", e[0], e[1]))
			}
			c.Check(fmt.Sprintf("schedule %v of %v", r.choices, names),
				fmt.Sprintf("sched_case %d false true [%s] [%s] [%s] [%s] %s", len(ws), strings.Join(entries, "; "), strings.Join(todos, "; "),
					strings.Join(earl, "; "), strings.Join(ev, "; "), coqList(r.writers)))
		}
		if schedules <= 3 {
			c.Sample(replay)
		}
	}

	// systematic enumeration: depth-first over the enabled sets, re-executing from the start
	enumerate := func(idx []int, maxRuns int, deadline time.Time) int {
		ws := make([]work, len(idx))
		for i, k := range idx {
			ws[i] = all[k]
		}
		type frame struct{ n, i int }
		var stack []frame
		runs := 0
		for runs < maxRuns && time.Now().Before(deadline) {
			depth := 0
			r := runSchedule(sp, ws, func(step int, enabled []int) int {
				if depth < len(stack) {
					depth++
					return stack[depth-1].i
				}
				stack = append(stack, frame{len(enabled), 0})
				depth++
				return 0
			}, false)
			runs++
			check(ws, idx, r, "depth-first enumeration")
			for len(stack) > 0 && stack[len(stack)-1].i+1 >= stack[len(stack)-1].n {
				stack = stack[:len(stack)-1]
			}
			if len(stack) == 0 {
				c.Class(fmt.Sprintf("controlled:exhaustive %v", idx))
				break
			}
			stack[len(stack)-1].i++
		}
		return runs
	}
	random := func(idx []int, runs int, probe bool) {
		ws := make([]work, len(idx))
		for i, k := range idx {
			ws[i] = all[k]
		}
		for k := 0; k < runs; k++ {
			how := "random schedule"
			if probe {
				how = "probe"
			}
			r := runSchedule(sp, ws, func(step int, enabled []int) int { return rng.Intn(len(enabled)) }, probe)
			check(ws, idx, r, how)
		}
	}
	dl := func(s float64) time.Time {
		return time.Now().Add(time.Duration(s * float64(budget) * float64(time.Second)))
	}
	// N = 2: every interleaving of two one-pass queries; then the mixes, capped
	enumerate([]int{1, 1}, 4000*budget, dl(4))
	enumerate([]int{0, 1}, 400*budget, dl(1.5))
	enumerate([]int{0, 3}, 300*budget, dl(1))
	enumerate([]int{2, 0}, 300*budget, dl(1.5))
	enumerate([]int{4, 5}, 200*budget, dl(1))
	// N = 3
	enumerate([]int{1, 1, 1}, 400*budget, dl(2))
	enumerate([]int{0, 1, 2}, 300*budget, dl(2))
	for k := 0; k < 4; k++ {
		random([]int{rng.Intn(6), rng.Intn(6)}, 40*budget, false)
		random([]int{rng.Intn(6), rng.Intn(6), rng.Intn(6)}, 50*budget, false)
	}
	random([]int{1, 1}, 12*budget, true)
	random([]int{0, 1, 4}, 12*budget, true)
	c.Extra["controlled_schedules"] = schedules
	c.Extra["controlled_seconds"] = time.Since(t0).Seconds()
	c.Extra["serial_cell_writes"] = serialCells

}

// free-running rounds
func runFree(c *vkit.Collector, rng *vkit.Rng, budget int) {
	t1 := time.Now()
	progress("free-running rounds (8..32 goroutines)")
	fails, evals, classes := stress.Rounds(rng, 60*budget)
	for k, v := range classes {
		for i := 0; i < v; i++ {
			c.Class(k)
		}
	}
	for i := 0; i < evals; i++ {
		c.Eval(fmt.Sprintf("free/%d", i), true)
	}
	for _, f := range fails {
		c.Violate(f.Kind, f.Desc, f.Replay)
	}
	c.Extra["free_running_seconds"] = time.Since(t1).Seconds()
}

// raceRun builds cmd/obs/c14/racer with -race against the same copy of golang/geo and runs it.
func raceRun(c *vkit.Collector, rng *vkit.Rng, budget int) {
	t0 := time.Now()
	env := append(os.Environ(), "CGO_ENABLED=1")
	args := []string{"build", "-race", "-tags", "verif"}
	tag := "repo"
	if repo := os.Getenv("VERIF_REPO"); repo != "" {
		if rp, err := filepath.EvalSymlinks(repo); err == nil && rp != "/repo" {
			tag = fmt.Sprintf("%x", sha1.Sum([]byte(repo)))[:8]
			mod, _ := filepath.Abs(filepath.Join("..", "build", "go_"+tag+".mod"))
			args = append(args, "-modfile="+mod)
		}
	}
	bin, _ := filepath.Abs(filepath.Join("..", "build", "bin", "c14racer_"+tag))
	args = append(args, "-o", bin, "./cmd/obs/c14/racer")
	build := exec.Command("go", args...)
	build.Env = env
	var bout bytes.Buffer
	build.Stdout, build.Stderr = &bout, &bout
	if err := runTimeout(build, 150*time.Second); err != nil {
		// no race detector in this environment: recorded, the model and the other checks stand
		c.Extra["race_detector"] = "unavailable: " + err.Error() + " " + lastN(bout.String(), 300)
		c.Class("race-detector:unavailable")
		return
	}
	c.Extra["race_build_seconds"] = time.Since(t0).Seconds()
	secs := 12 * budget
	rseed := rng.U64()
	cmd := exec.Command(bin, fmt.Sprint(rseed), fmt.Sprint(400*budget), fmt.Sprint(secs))
	cmd.Env = append(os.Environ(), "GORACE=halt_on_error=0 exitcode=66")
	var so, se bytes.Buffer
	cmd.Stdout, cmd.Stderr = &so, &se
	err := runTimeout(cmd, time.Duration(secs+20)*time.Second)
	var out struct {
		Rounds int              `json:"rounds"`
		Evals  int              `json:"evals"`
		Fails  []stress.Failure `json:"fails"`
	}
	json.Unmarshal(bytes.TrimSpace(so.Bytes()), &out)
	c.Extra["race_rounds"] = out.Rounds
	c.Extra["race_seconds"] = time.Since(t0).Seconds()
	c.Class("race-detector:ran")
	for i := 0; i < out.Evals; i++ {
		c.Eval(fmt.Sprintf("race/%d", i), true)
	}
	for _, f := range out.Fails {
		c.Violate(f.Kind, "(under -race) "+f.Desc, f.Replay)
	}
	stderr := se.String()
	if n := strings.Count(stderr, "WARNING: DATA RACE"); n > 0 {
		first := stderr[strings.Index(stderr, "WARNING: DATA RACE"):]
		c.Violate("race-detector.data-race", fmt.Sprintf("%d data race report(s) in %d free-running rounds; first: %s", n, out.Rounds, compactRace(first)),
			map[string]interface{}{"how": "cd harness && CGO_ENABLED=1 go build -race -tags verif -o racer ./cmd/obs/c14/racer && ./racer <seed> <rounds> <seconds>", "seed": rseed, "rounds": 400 * budget, "seconds": secs, "report": lastN(first, 3000)})
	} else if err != nil {
		c.Violate("race-detector.crash", "the -race binary did not finish: "+err.Error()+" "+firstN(stderr, 600), map[string]interface{}{"stderr": firstN(stderr, 3000)})
	}
}

func compactRace(rep string) string {
	var keep []string
	for _, ln := range strings.Split(rep, "\n") {
		t := strings.TrimSpace(ln)
		if strings.HasPrefix(t, "Write at") || strings.HasPrefix(t, "Read at") || strings.HasPrefix(t, "Previous") || strings.HasPrefix(t, "github.com/golang/geo/s2.") {
			keep = append(keep, t)
		}
		if len(keep) >= 8 {
			break
		}
	}
	return strings.Join(keep, " | ")
}

func runTimeout(cmd *exec.Cmd, d time.Duration) error {
	if err := cmd.Start(); err != nil {
		return err
	}
	done := make(chan error, 1)
	go func() { done <- cmd.Wait() }()
	select {
	case err := <-done:
		return err
	case <-time.After(d):
		cmd.Process.Kill()
		<-done
		return fmt.Errorf("timeout after %v", d)
	}
}

func lastN(s string, n int) string {
	if len(s) > n {
		return s[:n]
	}
	return s
}
func firstN(s string, n int) string { return lastN(s, n) }
