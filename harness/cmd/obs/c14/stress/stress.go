// Package stress: free-running concurrent read-only queries on shared, not yet indexed
// geometry, compared with the answers of a single goroutine. Used by the C14 observer in
// process and, built with -race, by cmd/obs/c14/racer.
package stress

import (
	"fmt"
	"math"
	"sync"
	"time"

	"github.com/golang/geo/s1"
	"github.com/golang/geo/s2"
	"verifharness/internal/vkit"
)

func ll(lat, lng float64) s2.Point { return s2.PointFromLatLng(s2.LatLngFromDegrees(lat, lng)) }

// HookShape wraps a Shape; OnEdge (if set) runs at every Edge call, i.e. in the middle of any
// query that looks at the shape's edges: a parking / inspection point inside a query that
// needs no hook in the library.
type HookShape struct {
	s2.Shape
	OnEdge func()
}

func (h *HookShape) Edge(i int) s2.Edge {
	if f := h.OnEdge; f != nil {
		f()
	}
	return h.Shape.Edge(i)
}

// World is one set of shared objects; Make builds an identical, independent copy each time.
type World struct {
	Loop    *s2.Loop
	Other   *s2.Loop
	Polygon *s2.Polygon
	Many    *s2.Polygon    // 13+ disjoint loops: the polygon keeps a per-loop edge-offset table
	ManyIx  *s2.ShapeIndex // an index holding Many as a shape
	Index   *s2.ShapeIndex
	Shared  *s2.EdgeQueryOptions // ONE options value from which every goroutine builds its own EdgeQuery
	Target  *s2.ShapeIndex
	Probes  []s2.Point
	Cells   []s2.Cell
}

type Spec struct {
	Lat, Lng, R float64
	N           int
	Built       bool // indexes forced before the goroutines start
}

func (sp Spec) String() string {
	return fmt.Sprintf("loop(%.3f,%.3f r=%.3f n=%d) built=%v", sp.Lat, sp.Lng, sp.R, sp.N, sp.Built)
}

func RandSpec(rng *vkit.Rng) Spec {
	return Spec{Lat: rng.Range(-40, 40), Lng: rng.Range(-60, 60), R: rng.Range(3, 20), N: []int{40, 100, 200}[rng.Intn(3)], Built: rng.Intn(2) == 0}
}

func Make(sp Spec) *World {
	c := ll(sp.Lat, sp.Lng)
	w := &World{}
	w.Loop = s2.RegularLoop(c, s1.Angle(sp.R)*s1.Degree, sp.N)
	w.Other = s2.RegularLoop(ll(sp.Lat+0.6*sp.R, sp.Lng), s1.Angle(0.7*sp.R)*s1.Degree, 64)
	w.Polygon = s2.PolygonFromLoops([]*s2.Loop{
		s2.RegularLoop(c, s1.Angle(sp.R)*s1.Degree, sp.N),
		s2.RegularLoop(c, s1.Angle(0.4*sp.R)*s1.Degree, 36)})
	var many []*s2.Loop
	for i := 0; i < 13+sp.N%7; i++ {
		many = append(many, s2.RegularLoop(ll(sp.Lat-20+8*float64(i/5), sp.Lng-20+8*float64(i%5)), s1.Angle(1+float64(i%4)*0.6)*s1.Degree, 3+(i*5)%11))
	}
	w.Many = s2.PolygonFromLoops(many)
	w.ManyIx = s2.NewShapeIndex()
	w.ManyIx.Add(w.Many)
	w.Index = s2.NewShapeIndex()
	w.Index.Add(s2.RegularLoop(c, s1.Angle(sp.R)*s1.Degree, sp.N))
	w.Index.Add(s2.RegularLoop(ll(sp.Lat-1.5*sp.R, sp.Lng+sp.R), s1.Angle(0.5*sp.R)*s1.Degree, 50))
	pl := s2.Polyline{ll(sp.Lat-sp.R, sp.Lng-2*sp.R), c, ll(sp.Lat+2*sp.R, sp.Lng+sp.R)}
	w.Index.Add(&pl)
	w.Shared = s2.NewClosestEdgeQueryOptions().IncludeInteriors(false)
	w.Target = s2.NewShapeIndex()
	w.Target.Add(s2.RegularLoop(ll(sp.Lat+3*sp.R, sp.Lng+2*sp.R), s1.Angle(0.5*sp.R)*s1.Degree, 60))
	for k := 0; k < 12; k++ {
		a := float64(k) * 0.37
		w.Probes = append(w.Probes, ll(sp.Lat+sp.R*1.4*math.Sin(3*a)*float64(k%4)/3, sp.Lng+sp.R*1.4*math.Cos(2*a)*float64(k%5)/4))
	}
	w.Probes = append(w.Probes, ll(-sp.Lat, sp.Lng+150), ll(89, 0))
	cid := s2.CellFromPoint(c).ID()
	for _, lvl := range []int{2, 5, 8} {
		w.Cells = append(w.Cells, s2.CellFromCellID(cid.Parent(lvl)))
	}
	if sp.Built {
		s2.VerifC13LoopIndex(w.Loop).Build()
		s2.VerifC13LoopIndex(w.Other).Build()
		s2.VerifC13PolygonIndex(w.Polygon).Build()
		s2.VerifC13PolygonIndex(w.Many).Build()
		w.ManyIx.Build()
		w.Index.Build()
		w.Target.Build()
	}
	return w
}

// NumTasks is the number of different read-only workloads.
const NumTasks = 14

// Task runs workload k (with per-goroutine query objects) and returns its answers.
func (w *World) Task(k, g int) string {
	p := w.Probes[g%len(w.Probes)]
	q := w.Probes[(g+5)%len(w.Probes)]
	switch k % NumTasks {
	case 0:
		return fmt.Sprint("Loop.ContainsPoint ", w.Loop.ContainsPoint(p), w.Loop.ContainsPoint(q))
	case 1:
		return fmt.Sprint("Polygon.ContainsPoint ", w.Polygon.ContainsPoint(p), w.Polygon.ContainsPoint(q), w.Polygon.ContainsCell(w.Cells[g%len(w.Cells)]))
	case 2:
		cq := s2.NewContainsPointQuery(w.Index, s2.VertexModelSemiOpen)
		return fmt.Sprint("ContainsPointQuery ", cq.Contains(p), cq.Contains(q), len(cq.ContainingShapes(p)))
	case 3:
		xq := s2.NewCrossingEdgeQuery(w.Index)
		n := 0
		for _, es := range xq.CrossingsEdgeMap(p, q, s2.CrossingTypeAll) {
			n += len(es)
		}
		return fmt.Sprint("CrossingEdgeQuery ", n)
	case 4:
		eq := s2.NewClosestEdgeQuery(w.Index, s2.NewClosestEdgeQueryOptions().IncludeInteriors(false))
		d := eq.Distance(s2.NewMinDistanceToPointTarget(p))
		return fmt.Sprintf("EdgeQuery.Distance(no interiors) %x", math.Float64bits(float64(d)))
	case 5:
		eq := s2.NewClosestEdgeQuery(w.Index, s2.NewClosestEdgeQueryOptions().MaxResults(3))
		rs := eq.FindEdges(s2.NewMinDistanceToEdgeTarget(s2.Edge{V0: p, V1: q}))
		s := "EdgeQuery.FindEdges"
		for _, r := range rs {
			s += fmt.Sprintf(" %x", math.Float64bits(float64(r.Distance())))
		}
		return s
	case 6:
		return fmt.Sprint("Loop relations ", w.Loop.Contains(w.Other), w.Loop.Intersects(w.Other), w.Other.Contains(w.Loop), w.Loop.ContainsCell(w.Cells[g%len(w.Cells)]), w.Loop.IntersectsCell(w.Cells[(g+1)%len(w.Cells)]))
	case 7:
		eq := s2.NewClosestEdgeQuery(w.Index, nil)
		return fmt.Sprint("EdgeQuery.IsDistanceLess(index target) ", eq.IsDistanceLess(s2.NewMinDistanceToShapeIndexTarget(w.Target), s1.ChordAngleFromAngle(s1.Angle(float64(1+g%40))*s1.Degree)))
	case 9: // the Shape view of a shared many-loop polygon
		h := uint64(0)
		n := w.Many.NumEdges()
		for i := 0; i < n; i++ {
			e := (i*7 + g*13) % n
			ed := w.Many.Edge(e)
			cp := w.Many.ChainPosition(e)
			h = h*1099511628211 ^ math.Float64bits(ed.V0.X) ^ math.Float64bits(ed.V1.Y)<<1 ^ uint64(cp.ChainID*1000+cp.Offset)
		}
		return fmt.Sprintf("Polygon.Edge/ChainPosition(many loops) %x", h)
	case 10:
		mp := ll(w.Many.Loop(g%w.Many.NumLoops()).Vertex(0).Y*0+float64(g%5), float64(g%7)) // a few fixed points
		c0 := w.Many.Loop(g % w.Many.NumLoops()).Vertex(0)
		return fmt.Sprint("Polygon.ContainsPoint(many loops) ", w.Many.ContainsPoint(p), w.Many.ContainsPoint(mp), w.Many.ContainsPoint(c0))
	case 11:
		cq := s2.NewContainsPointQuery(w.ManyIx, s2.VertexModelSemiOpen)
		xq := s2.NewCrossingEdgeQuery(w.ManyIx)
		a := w.Many.Loop(g % w.Many.NumLoops()).Vertex(0)
		b := w.Many.Loop((g + 3) % w.Many.NumLoops()).Vertex(1)
		return fmt.Sprint("ContainsPointQuery/CrossingEdgeQuery(many loops) ", cq.Contains(p), cq.Contains(a), len(xq.Crossings(a, b, w.Many, s2.CrossingTypeAll)))
	case 12:
		eq := s2.NewClosestEdgeQuery(w.ManyIx, s2.NewClosestEdgeQueryOptions().IncludeInteriors(false).MaxResults(4))
		s := "ClosestEdgeQuery(many loops)"
		for _, r := range eq.FindEdges(s2.NewMinDistanceToPointTarget(p)) {
			s += fmt.Sprintf(" %x/%d", math.Float64bits(float64(r.Distance())), r.EdgeID())
		}
		return s
	case 13: // own query object, built from the options value every other goroutine also uses
		eq := s2.NewClosestEdgeQuery(w.Index, w.Shared)
		s := "EdgeQuery(own object, shared options value)"
		for it := 0; it < 12; it++ {
			pt := w.Probes[(g+it)%len(w.Probes)]
			lim := s1.ChordAngleFromAngle(s1.Angle(float64(1+(g+it)%25)) * s1.Degree)
			switch (g + it) % 4 {
			case 0:
				s += fmt.Sprint(" less=", eq.IsDistanceLess(s2.NewMinDistanceToPointTarget(pt), lim))
			case 1:
				s += fmt.Sprint(" n=", len(eq.FindEdges(s2.NewMinDistanceToPointTarget(pt))))
			case 2:
				s += fmt.Sprint(" consle=", eq.IsConservativeDistanceLessOrEqual(s2.NewMinDistanceToEdgeTarget(s2.Edge{V0: pt, V1: p}), lim))
			default:
				s += fmt.Sprintf(" d=%x", math.Float64bits(float64(eq.Distance(s2.NewMinDistanceToPointTarget(pt)))))
			}
		}
		return s
	default:
		fq := s2.NewFurthestEdgeQuery(w.Index, s2.NewFurthestEdgeQueryOptions().IncludeInteriors(false))
		d := fq.Distance(s2.NewMaxDistanceToPointTarget(p))
		return fmt.Sprintf("FurthestEdgeQuery.Distance %x", math.Float64bits(float64(d)))
	}
}

type Failure struct {
	Kind   string
	Desc   string
	Replay map[string]interface{}
}

// Round runs G goroutines on one fresh world and compares every answer with the answer a
// single goroutine gets on an identical world. A round that does not finish in 10 s is a
// deadlock.
func Round(sp Spec, G int, taskOf func(g int) int) (fails []Failure, evals int) {
	serial := Make(sp)
	want := make([]string, G)
	for g := 0; g < G; g++ {
		want[g] = serial.Task(taskOf(g), g)
	}
	w := Make(sp)
	got := make([]string, G)
	panics := make([]string, G)
	var wg sync.WaitGroup
	start := make(chan struct{})
	for g := 0; g < G; g++ {
		wg.Add(1)
		go func(g int) {
			defer wg.Done()
			defer func() {
				if e := recover(); e != nil {
					panics[g] = fmt.Sprint(e)
				}
			}()
			<-start
			got[g] = w.Task(taskOf(g), g)
		}(g)
	}
	done := make(chan struct{})
	go func() { wg.Wait(); close(done) }()
	close(start)
	rep := func() map[string]interface{} {
		ts := make([]int, G)
		for g := range ts {
			ts[g] = taskOf(g) % NumTasks
		}
		return map[string]interface{}{"world": sp.String(), "goroutines": G, "tasks": ts}
	}
	select {
	case <-done:
	case <-time.After(10 * time.Second):
		return []Failure{{"concurrent.deadlock", fmt.Sprintf("%d goroutines on shared geometry did not finish within 10 s", G), rep()}}, G
	}
	for g := 0; g < G; g++ {
		if panics[g] != "" {
			fails = append(fails, Failure{"concurrent.panic", fmt.Sprintf("goroutine %d (task %d) panicked: %s", g, taskOf(g)%NumTasks, panics[g]), rep()})
		} else if got[g] != want[g] {
			fails = append(fails, Failure{"concurrent.answer", fmt.Sprintf("goroutine %d of %d answers {%s}, a single goroutine answers {%s}", g, G, got[g], want[g]), rep()})
		}
	}
	for name, ix := range map[string]*s2.ShapeIndex{"loop": s2.VerifC13LoopIndex(w.Loop), "polygon": s2.VerifC13PolygonIndex(w.Polygon), "index": w.Index} {
		st, st0 := s2.VerifC13IndexState(ix), s2.VerifC13IndexState(map[string]*s2.ShapeIndex{"loop": s2.VerifC13LoopIndex(serial.Loop), "polygon": s2.VerifC13PolygonIndex(serial.Polygon), "index": serial.Index}[name])
		if !st.CellsSorted || (st.Fresh && st0.Fresh && st.NumCells != st0.NumCells) {
			fails = append(fails, Failure{"concurrent.cellmap", fmt.Sprintf("%s index after the concurrent round: %d cells (sorted/consistent=%v), after the serial run %d", name, st.NumCells, st.CellsSorted, st0.NumCells), rep()})
		}
	}
	return fails, G
}

// Rounds runs n random rounds with 8..32 goroutines.
func Rounds(rng *vkit.Rng, n int) (fails []Failure, evals int, classes map[string]int) {
	classes = map[string]int{}
	for i := 0; i < n; i++ {
		sp := RandSpec(rng)
		G := 8 + rng.Intn(25)
		mode := rng.Intn(5)
		base := rng.Intn(NumTasks)
		taskOf := func(g int) int {
			switch mode {
			case 0:
				return base // everyone hammers the same entry point
			case 1:
				return base + g%2*3
			case 3:
				return 9 + g%4 // everyone on the shared many-loop polygon
			case 4:
				return 13 // everyone with an own EdgeQuery from the one shared options value
			}
			return g
		}
		f, e := Round(sp, G, taskOf)
		fails = append(fails, f...)
		evals += e
		classes[fmt.Sprintf("free-running:mode=%d", mode)]++
		classes[fmt.Sprintf("free-running:prebuilt=%v", sp.Built)]++
	}
	return
}
