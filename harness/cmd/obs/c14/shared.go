package main

import (
	"fmt"
	"math"
	"sync/atomic"
	"time"

	"github.com/golang/geo/s1"
	"github.com/golang/geo/s2"
	"verifharness/cmd/obs/c14/stress"
	"verifharness/internal/vkit"
)

// Deterministic interleavings INSIDE a distance predicate, without any hook in the library:
// the index holds a shape whose Edge() parks the calling goroutine. Goroutine A is parked in the
// middle of IsDistanceLess / IsDistanceGreater / IsConservativeDistance* on its own EdgeQuery;
// goroutine B then runs FindEdges, Distance and a predicate on ITS OWN EdgeQuery — built from the
// SAME EdgeQueryOptions value (the constructors keep the pointer, so the two objects share that
// struct) or from an equal copy. Every answer must be the serial answer and the shared options
// struct must hold, at the parking point, exactly what the caller configured.
func runSharedOptions(c *vkit.Collector, rng *vkit.Rng, budget int) {
	center := ll(10, 20)
	mk := func() (*s2.ShapeIndex, *stress.HookShape) {
		hs := &stress.HookShape{Shape: s2.RegularLoop(center, 0.1, 64)}
		ix := s2.NewShapeIndex()
		ix.Add(hs)
		ix.Add(s2.RegularLoop(ll(-50, -120), 0.05, 40))
		ix.Build()
		return ix, hs
	}
	type cfg struct {
		name     string
		furthest bool
		set      func(o *s2.EdgeQueryOptions) *s2.EdgeQueryOptions
	}
	cfgs := []cfg{
		{"closest, IncludeInteriors(false)", false, func(o *s2.EdgeQueryOptions) *s2.EdgeQueryOptions { return o.IncludeInteriors(false) }},
		{"closest, MaxResults(5)", false, func(o *s2.EdgeQueryOptions) *s2.EdgeQueryOptions { return o.MaxResults(5) }},
		{"closest, DistanceLimit(40deg) UseBruteForce", false, func(o *s2.EdgeQueryOptions) *s2.EdgeQueryOptions {
			return o.DistanceLimit(s1.ChordAngleFromAngle(40 * s1.Degree)).UseBruteForce(true)
		}},
		{"furthest, IncludeInteriors(false)", true, func(o *s2.EdgeQueryOptions) *s2.EdgeQueryOptions { return o.IncludeInteriors(false) }},
	}
	preds := []string{"IsDistanceLess", "IsDistanceGreater", "IsConservativeDistanceLessOrEqual", "IsConservativeDistanceGreaterOrEqual"}
	runs := 0
	for _, cf := range cfgs {
		newOpts := func() *s2.EdgeQueryOptions {
			if cf.furthest {
				return cf.set(s2.NewFurthestEdgeQueryOptions())
			}
			return cf.set(s2.NewClosestEdgeQueryOptions())
		}
		newQ := func(ix *s2.ShapeIndex, o *s2.EdgeQueryOptions) *s2.EdgeQuery {
			if cf.furthest {
				return s2.NewFurthestEdgeQuery(ix, o)
			}
			return s2.NewClosestEdgeQuery(ix, o)
		}
		type answers struct {
			n    int
			d    s1.ChordAngle
			pred bool
		}
		ask := func(q *s2.EdgeQuery, pt s2.Point, pred string, lim s1.ChordAngle) answers {
			var a answers
			if cf.furthest {
				a.n = len(q.FindEdges(s2.NewMaxDistanceToPointTarget(pt)))
				a.d = q.Distance(s2.NewMaxDistanceToPointTarget(pt))
			} else {
				a.n = len(q.FindEdges(s2.NewMinDistanceToPointTarget(pt)))
				a.d = q.Distance(s2.NewMinDistanceToPointTarget(pt))
			}
			a.pred = predicate(q, cf.furthest, pred, pt, lim)
			return a
		}
		for _, pred := range preds {
			for _, shareMode := range []string{"the same options value", "an equal copy of the options"} {
				for k := 0; k < 2*budget; k++ {
					ptA := ll(10+rng.Range(-3, 3), 50+rng.Range(-5, 5))
					ptB := ll(10+rng.Range(-3, 3), 50+rng.Range(-5, 5))
					limA := s1.ChordAngleFromAngle(s1.Angle(rng.Range(20, 40)) * s1.Degree)
					limB := s1.ChordAngleFromAngle(s1.Angle(rng.Range(20, 40)) * s1.Degree)
					predB := preds[rng.Intn(len(preds))]
					// serial reference: private objects, one goroutine
					six, _ := mk()
					wantA := predicate(newQ(six, newOpts()), cf.furthest, pred, ptA, limA)
					wantB := ask(newQ(six, newOpts()), ptB, predB, limB)
					configured := s2.VerifC13UserOpts(newOpts())

					ix, hs := mk()
					opts := newOpts()
					qA := newQ(ix, opts)
					optsB := opts
					if shareMode != "the same options value" {
						optsB = newOpts()
					}
					qB := newQ(ix, optsB)
					var armed int32 = 1
					entered, release := make(chan struct{}), make(chan struct{})
					hs.OnEdge = func() {
						if atomic.CompareAndSwapInt32(&armed, 1, 0) {
							close(entered)
							<-release
						}
					}
					resA := make(chan bool, 1)
					go func() { resA <- predicate(qA, cf.furthest, pred, ptA, limA) }()
					replay := map[string]interface{}{"index": "64-gon r=0.1rad at (10,20) [its Edge() parks goroutine A] + 40-gon at (-50,-120), built", "options": cf.name,
						"A": fmt.Sprintf("%s(point %v, %v) on query object A", pred, s2.LatLngFromPoint(ptA), limA.Angle()),
						"B": fmt.Sprintf("FindEdges, Distance, %s(point %v, %v) on query object B built from %s, run while A is parked at its first Edge() call", predB, s2.LatLngFromPoint(ptB), limB.Angle(), shareMode)}
					runs++
					c.Class("shared-options:" + shareMode)
					c.Eval(fmt.Sprintf("shared/%s/%s/%s/%d", cf.name, pred, shareMode, k), true)
					parked := false
					var gotA bool
					doneA := false
					select {
					case <-entered:
						parked = true
					case gotA = <-resA:
						doneA = true
						atomic.StoreInt32(&armed, 0) // A never looked at the parking shape
					case <-time.After(10 * time.Second):
						c.Violate("shared-options.deadlock", "goroutine A neither reached an edge nor returned within 10 s", replay)
						continue
					}
					if parked {
						c.Class("shared-options:A parked inside " + pred)
						// [S] the options struct reachable from B's query object, while A is inside its call
						if now := s2.VerifC13UserOpts(opts); now != configured {
							c.Violate("shared-options.written-during-query", fmt.Sprintf("while goroutine A is inside %s the options value both query objects were built from holds %+v; the caller configured %+v", pred, now, configured), replay)
						}
					}
					resB := make(chan answers, 1)
					go func() { resB <- ask(qB, ptB, predB, limB) }()
					select {
					case gotB := <-resB:
						if gotB != wantB {
							c.Violate("shared-options.answer", fmt.Sprintf("goroutine B (own query object) while A is inside %s: FindEdges %d edges, Distance %v (%x), %s=%v; the serial answers are %d edges, %v (%x), %v",
								pred, gotB.n, gotB.d.Angle(), math.Float64bits(float64(gotB.d)), predB, gotB.pred, wantB.n, wantB.d.Angle(), math.Float64bits(float64(wantB.d)), wantB.pred), replay)
						}
					case <-time.After(10 * time.Second):
						c.Violate("shared-options.deadlock", "goroutine B did not return within 10 s while A is parked inside its call", replay)
					}
					if parked {
						close(release)
					}
					if !doneA {
						select {
						case gotA = <-resA:
						case <-time.After(10 * time.Second):
							c.Violate("shared-options.deadlock", "goroutine A did not return within 10 s after being released", replay)
							continue
						}
					}
					if gotA != wantA {
						c.Violate("shared-options.answer", fmt.Sprintf("goroutine A: %s = %v, the serial answer is %v", pred, gotA, wantA), replay)
					}
					if now := s2.VerifC13UserOpts(opts); now != configured {
						c.Violate("shared-options.written-during-query", fmt.Sprintf("after both calls the shared options value holds %+v; the caller configured %+v", now, configured), replay)
					}
					hs.OnEdge = nil
				}
			}
		}
	}
	c.Extra["shared_options_interleavings"] = runs
}

func predicate(q *s2.EdgeQuery, furthest bool, pred string, pt s2.Point, lim s1.ChordAngle) bool {
	if furthest {
		t := s2.NewMaxDistanceToPointTarget(pt)
		switch pred {
		case "IsDistanceLess":
			return q.IsDistanceLess(t, lim)
		case "IsDistanceGreater":
			return q.IsDistanceGreater(t, lim)
		case "IsConservativeDistanceLessOrEqual":
			return q.IsConservativeDistanceLessOrEqual(t, lim)
		}
		return q.IsConservativeDistanceGreaterOrEqual(t, lim)
	}
	t := s2.NewMinDistanceToPointTarget(pt)
	switch pred {
	case "IsDistanceLess":
		return q.IsDistanceLess(t, lim)
	case "IsDistanceGreater":
		return q.IsDistanceGreater(t, lim)
	case "IsConservativeDistanceLessOrEqual":
		return q.IsConservativeDistanceLessOrEqual(t, lim)
	}
	return q.IsConservativeDistanceGreaterOrEqual(t, lim)
}
