// Observer C03: edge crossing — exact, symmetric, independent of traversal state.
//
// [T] histories of 2..40 calls on one EdgeCrosser over small point pools rich in shared
//
//	vertices, exactly collinear runs, duplicates, +-0 twins, nearly collinear points and
//	points a few ulps beyond the fixed edge's endpoints; after EVERY call the output and the
//	hidden state (c, acb) are compared with Model/CrosserExec.v (sign := table of RobustSign
//	values recorded here). Stateless CrossingSign / VertexCrossing / EdgeOrVertexCrossing /
//	AngleContainsVertex and the specification itself are compared on quadruples.
//
// [S] on the real code, with an oracle written here (exact determinant sign from the float
//
//	mantissas with math/big; the library's RobustSign only for exact ties): every crosser
//	output equals the stateless CrossingSign on the same four points and the four-orientation
//	criterion; symmetry; Maybe iff shared endpoint; EdgeOrVertexCrossing consistency;
//	VertexCrossing laws; AngleContainsVertex exactly-one around a vertex; H-TANGENT and
//	triage soundness attacks.
package main

import (
	"fmt"
	"math"
	"math/big"
	"sort"
	"strings"

	"github.com/golang/geo/r3"
	"github.com/golang/geo/s2"
	"verifharness/internal/exactref"
	"verifharness/internal/vkit"
)

func main() { vkit.Main("C03", []string{"Gen.R3", "Gen.S2Point", "Gen.S2Pred", "Model.Crosser", "Model.CrosserExec"}, run) }

// ---------- terms ----------

func vec(v r3.Vector) string { return vkit.App("mk_r3_Vector", vkit.F(v.X), vkit.F(v.Y), vkit.F(v.Z)) }
func pt(p s2.Point) string   { return vkit.App("mk_s2_Point", vec(p.Vector)) }
func key(p s2.Point) string {
	return fmt.Sprintf("%016x%016x%016x", math.Float64bits(p.X), math.Float64bits(p.Y), math.Float64bits(p.Z))
}
func coords(p s2.Point) []string {
	return []string{fmt.Sprintf("%x", math.Float64bits(p.X)), fmt.Sprintf("%x", math.Float64bits(p.Y)), fmt.Sprintf("%x", math.Float64bits(p.Z))}
}

// namer let-binds every point once so the terms stay small.
type namer struct {
	names map[string]string
	defs  []string
}

func newNamer() *namer { return &namer{names: map[string]string{}} }
func (n *namer) name(p s2.Point) string {
	k := key(p)
	if s, ok := n.names[k]; ok {
		return s
	}
	s := fmt.Sprintf("p%d", len(n.names))
	n.names[k] = s
	n.defs = append(n.defs, fmt.Sprintf("let %s := %s in", s, pt(p)))
	return s
}
func (n *namer) wrap(body string) string { return "(" + strings.Join(n.defs, "\n ") + "\n " + body + ")" }

// table of RobustSign values for the triples the model may look up.
type table struct {
	nm      *namer
	seen    map[string]bool
	entries []string
}

func newTable(nm *namer) *table { return &table{nm: nm, seen: map[string]bool{}} }
func (t *table) add(a, b, c s2.Point) {
	k := key(a) + key(b) + key(c)
	if t.seen[k] {
		return
	}
	t.seen[k] = true
	v := s2.RobustSign(a, b, c)
	t.entries = append(t.entries, fmt.Sprintf("(%s, %s, %s, %s)", t.nm.name(a), t.nm.name(b), t.nm.name(c), vkit.Z(int64(v))))
}
func (t *table) addOccw(a, b, c, o s2.Point) { t.add(b, o, a); t.add(c, o, b); t.add(a, o, c) }
func (t *table) addCrossing(a, b, c, d s2.Point) {
	t.add(a, b, c)
	t.add(a, b, d)
	t.add(c, d, b)
	t.add(c, d, a)
}
func (t *table) addSpec(a, b, c, d s2.Point) {
	t.add(a, c, b)
	t.add(c, b, d)
	t.add(b, d, a)
	t.add(d, a, c)
}
func (t *table) addVC(a, b, c, d s2.Point) {
	ra, rb := s2.VerifC03ReferenceDir(a), s2.VerifC03ReferenceDir(b)
	t.addOccw(ra, d, b, a)
	t.addOccw(rb, c, a, b)
	t.addOccw(ra, c, b, a)
	t.addOccw(rb, d, a, b)
}
func (t *table) term() string { return vkit.List(t.entries) }

// ---------- oracle (independent of s2's crossing code) ----------

// scaled integer coordinates of one vector: v = (ix,iy,iz) * 2^e for some e (the sign of a
// determinant does not depend on positive per-row scale factors).
func intVec(p s2.Point) [3]*big.Int {
	xs := [3]float64{p.X, p.Y, p.Z}
	var m [3]int64
	var e [3]int
	minE := math.MaxInt32
	for i, x := range xs {
		if x == 0 {
			continue
		}
		fr, ex := math.Frexp(x)
		m[i] = int64(fr * (1 << 53))
		e[i] = ex - 53
		if e[i] < minE {
			minE = e[i]
		}
	}
	var out [3]*big.Int
	for i := range xs {
		out[i] = big.NewInt(m[i])
		if m[i] != 0 {
			out[i].Lsh(out[i], uint(e[i]-minE))
		}
	}
	return out
}

// exactDet is the sign of det(a,b,c) = (a x b).c computed exactly.
func exactDet(a, b, c s2.Point) int {
	A, B, C := intVec(a), intVec(b), intVec(c)
	mul := func(x, y *big.Int) *big.Int { return new(big.Int).Mul(x, y) }
	sub := func(x, y *big.Int) *big.Int { return new(big.Int).Sub(x, y) }
	cx := sub(mul(A[1], B[2]), mul(A[2], B[1]))
	cy := sub(mul(A[2], B[0]), mul(A[0], B[2]))
	cz := sub(mul(A[0], B[1]), mul(A[1], B[0]))
	d := new(big.Int).Add(mul(cx, C[0]), mul(cy, C[1]))
	d.Add(d, mul(cz, C[2]))
	return d.Sign()
}

type oracle struct {
	ties int
	memo map[string]int
}

// sign: the documented meaning of RobustSign, computed without any s2 predicate: 0 iff two
// points are ==; the exact determinant sign when it is not zero; for an exact tie the sign of
// the symbolically perturbed determinant, evaluated from the DEFINITION of the perturbation
// (Leibniz expansion in harness/internal/exactref), not from the library's table.
func (o *oracle) sign(a, b, c s2.Point) int {
	if a == b || b == c || c == a {
		return 0
	}
	if d := exactDet(a, b, c); d != 0 {
		return d
	}
	if o.memo == nil {
		o.memo = map[string]int{}
	}
	k := key(a) + key(b) + key(c)
	if v, ok := o.memo[k]; ok {
		return v
	}
	o.ties++
	v, _ := exactref.Sign(a, b, c)
	if len(o.memo) > 200000 {
		o.memo = map[string]int{}
	}
	o.memo[k] = v
	return v
}

func (o *oracle) crossing(a, b, c, d s2.Point) s2.Crossing {
	if a == c || a == d || b == c || b == d {
		return s2.MaybeCross
	}
	if a == b || c == d {
		return s2.DoNotCross
	}
	acb, cbd, bda, dac := o.sign(a, c, b), o.sign(c, b, d), o.sign(b, d, a), o.sign(d, a, c)
	if acb != 0 && acb == cbd && acb == bda && acb == dac {
		return s2.Cross
	}
	return s2.DoNotCross
}

func (o *oracle) occw(a, b, c, x s2.Point) bool {
	sum := 0
	if o.sign(b, x, a) != -1 {
		sum++
	}
	if o.sign(c, x, b) != -1 {
		sum++
	}
	if o.sign(a, x, c) == 1 {
		sum++
	}
	return sum >= 2
}

// blame returns a specific kind when a disagreement with the exact criterion is caused by
// RobustSign itself returning the wrong sign of a non-zero determinant on one of the triples
// (a defect of the predicate layer, not of the crossing logic).
func blame(kind string, triples ...[3]s2.Point) string {
	for _, t := range triples {
		a, b, c := t[0], t[1], t[2]
		if a == b || b == c || c == a {
			continue
		}
		ex := exactDet(a, b, c)
		if ex == 0 {
			// exact tie: the library's symbolic perturbation against its definition
			if want, _ := exactref.Sign(a, b, c); int(s2.RobustSign(a, b, c)) != want {
				return "CrossingSign.exact.perturbation"
			}
			continue
		}
		if int(s2.RobustSign(a, b, c)) == ex {
			continue
		}
		if tr := int(s2.VerifC03TriageSign(a, b, c)); tr != 0 {
			return "triage_sound"
		}
		if st := int(s2.VerifC03StableSign(a, b, c)); st != 0 && st != ex {
			return "stableSign.underflow"
		}
		return "RobustSign.exact"
	}
	return kind
}
func quadTriples(a, b, c, d s2.Point) [][3]s2.Point {
	return [][3]s2.Point{{a, b, c}, {a, b, d}, {c, d, b}, {c, d, a}}
}

// antipodal: a and b are EXACTLY antiparallel as real vectors (exact cross product zero, exact
// dot product negative); b == -a componentwise is the special case of equal lengths, but
// -(1,1,1)/sqrt3 and (1-2^-53)(1,1,1)/sqrt3 are just as much a 180-degree "edge". Such a pair
// is not a geodesic edge (S2 forbids 180-degree edges; PointCross(a,b) is the zero vector and
// the crosser's normal is arbitrary): outside the property's domain. These inputs stay in the
// streams as an informational class (panics, model correspondence, crosser vs stateless
// function) but are not compared with the exact criterion.
func antipodal(a, b s2.Point) bool {
	if s := a.Add(b.Vector); s.Norm2() > 1e-20 { // clearly not opposite: skip the exact test
		return false
	}
	A, B := exactref.RV(a), exactref.RV(b)
	for i := 0; i < 3; i++ {
		j := (i + 1) % 3
		if exactref.Sub(exactref.Mul(A[i], B[j]), exactref.Mul(A[j], B[i])).Sign() != 0 {
			return false
		}
	}
	return exactref.Dot(A, B).Sign() < 0
}

// ---------- point pools ----------

func norm(v r3.Vector) (s2.Point, bool) {
	n := v.Norm()
	if n == 0 || math.IsNaN(n) || math.IsInf(n, 0) {
		return s2.Point{}, false
	}
	return s2.Point{Vector: v.Mul(1 / n)}, true
}

func randPoint(rng *vkit.Rng) s2.Point {
	for {
		if p, ok := norm(r3.Vector{X: rng.Range(-1, 1), Y: rng.Range(-1, 1), Z: rng.Range(-1, 1)}); ok {
			return p
		}
	}
}

// planePoint returns a point EXACTLY on one of seven planes through the origin: the coordinate
// planes z==0, x==0, y==0 (plane 0..2) and the diagonal planes x==y, x==-y, y==z, x==z
// (plane 3..6; Normalize divides equal coordinates by the same number, so they stay equal).
// Any three such points have an exactly zero determinant: the answer is the perturbation's.
var niceCoord = []float64{1, -1, 2, -2, 0.5, -0.25, 3, 4, 0, 0.75, -1.5}

func planePoint(rng *vkit.Rng, plane int) s2.Point {
	if plane >= 3 {
		for {
			t, z := niceCoord[rng.Intn(len(niceCoord))], niceCoord[rng.Intn(len(niceCoord))]
			if rng.Intn(3) == 0 {
				t, z = rng.Range(-1, 1), rng.Range(-1, 1)
			}
			var v r3.Vector
			switch plane {
			case 3:
				v = r3.Vector{X: t, Y: t, Z: z}
			case 4:
				v = r3.Vector{X: t, Y: -t, Z: z}
			case 5:
				v = r3.Vector{X: z, Y: t, Z: t}
			default:
				v = r3.Vector{X: t, Y: z, Z: t}
			}
			if _, ok := norm(v); ok {
				return s2.Point{Vector: v.Normalize()}
			}
		}
	}
	t := rng.Range(0, 2*math.Pi)
	if rng.Intn(4) == 0 {
		t = float64(rng.Intn(8)) * math.Pi / 4
	}
	x, y := math.Cos(t), math.Sin(t)
	var v r3.Vector
	switch plane {
	case 0:
		v = r3.Vector{X: x, Y: y, Z: 0}
	case 1:
		v = r3.Vector{X: 0, Y: x, Z: y}
	default:
		v = r3.Vector{X: y, Y: 0, Z: x}
	}
	p, _ := norm(v)
	return p
}

// proportional returns a point exactly proportional to p and different from it, if scaling by
// 1-2^-53 keeps the direction exactly (all non-zero coordinates of equal magnitude).
func proportional(p s2.Point) (s2.Point, bool) {
	q := s2.Point{Vector: p.Mul(0.99999999999999989)}
	if q == p {
		return q, false
	}
	P, Q := exactref.RV(p), exactref.RV(q)
	for i := 0; i < 3; i++ {
		j := (i + 1) % 3
		if exactref.Sub(exactref.Mul(P[i], Q[j]), exactref.Mul(P[j], Q[i])).Sign() != 0 {
			return q, false
		}
	}
	return q, true
}

var epsBeyond = []float64{1e-16, 1.5e-16, 2e-16, 3e-16, 4e-16, 6e-16, 1e-15, 3e-15, 1e-14, 1e-12, 1e-9, 1e-5}

func perturbUlp(rng *vkit.Rng, p s2.Point) s2.Point {
	k := rng.Intn(3) + 1
	if rng.Bool() {
		k = -k
	}
	switch rng.Intn(3) {
	case 0:
		p.X = vkit.Ulps(p.X, k)
	case 1:
		p.Y = vkit.Ulps(p.Y, k)
	default:
		p.Z = vkit.Ulps(p.Z, k)
	}
	return p
}

func genPool(c *vkit.Collector, rng *vkit.Rng) []s2.Point {
	n := 4 + rng.Intn(9)
	plane := rng.Intn(7)
	pool := []s2.Point{}
	base := func() s2.Point {
		if rng.Intn(3) == 0 {
			return planePoint(rng, plane)
		}
		return randPoint(rng)
	}
	pool = append(pool, base(), base())
	mode := rng.Intn(4) // 0 generic-heavy, 1 collinear-heavy, 2 duplicate-heavy, 3 near-heavy
	for len(pool) < n {
		p := pool[rng.Intn(len(pool))]
		q := pool[rng.Intn(len(pool))]
		kind := rng.Intn(12)
		switch mode {
		case 1:
			if rng.Bool() {
				kind = 2 + rng.Intn(4)
			}
		case 2:
			if rng.Bool() {
				kind = 6 + rng.Intn(2)
			}
		case 3:
			if rng.Bool() {
				kind = 8 + rng.Intn(2)
			}
		}
		switch kind {
		case 0, 1:
			c.Class("pt:random")
			pool = append(pool, randPoint(rng))
		case 2:
			c.Class("pt:coordinate-plane(exactly collinear)")
			pool = append(pool, planePoint(rng, plane))
		case 3:
			c.Class("pt:on-great-circle-of-two(nearly collinear)")
			if r, ok := norm(p.Mul(rng.Range(-1.5, 1.5)).Add(q.Mul(rng.Range(-1.5, 1.5)))); ok {
				pool = append(pool, r)
			}
		case 4:
			c.Class("pt:midpoint")
			if r, ok := norm(p.Add(q.Vector)); ok {
				pool = append(pool, r)
			}
		case 5:
			c.Class("pt:great-circle+k-ulp")
			if r, ok := norm(p.Mul(rng.Range(-1.5, 1.5)).Add(q.Mul(rng.Range(-1.5, 1.5)))); ok {
				pool = append(pool, perturbUlp(rng, r))
			}
		case 6:
			c.Class("pt:duplicate")
			pool = append(pool, p)
		case 7:
			c.Class("pt:+-0 twin")
			t := p
			if t.X == 0 {
				t.X = -t.X
			}
			if t.Y == 0 {
				t.Y = -t.Y
			}
			if t.Z == 0 {
				t.Z = -t.Z
			}
			pool = append(pool, t)
		case 8:
			c.Class("pt:just-beyond-endpoint")
			if p != q {
				if dir, ok := norm(p.Sub(q.Vector)); ok {
					if r, ok := norm(p.Add(dir.Mul(epsBeyond[rng.Intn(len(epsBeyond))]))); ok {
						pool = append(pool, r)
					}
				}
			}
		case 9:
			c.Class("pt:k-ulp neighbour")
			pool = append(pool, perturbUlp(rng, p))
		case 10:
			c.Class("pt:antipode")
			pool = append(pool, s2.Point{Vector: p.Mul(-1)})
		default:
			if q, ok := proportional(p); ok && rng.Bool() {
				c.Class("pt:exactly proportional to another")
				pool = append(pool, q)
				break
			}
			c.Class("pt:axis")
			ax := [][3]float64{{1, 0, 0}, {0, 1, 0}, {0, 0, 1}, {-1, 0, 0}, {0, -1, 0}, {0, 0, -1}}[rng.Intn(6)]
			pool = append(pool, s2.Point{Vector: r3.Vector{X: ax[0], Y: ax[1], Z: ax[2]}})
		}
	}
	return pool
}

// ---------- the checks ----------

type obs struct {
	c   *vkit.Collector
	rng *vkit.Rng
	or  *oracle
}

func replayQuad(a, b, cc, d s2.Point) map[string]interface{} {
	return map[string]interface{}{"a": a.Vector, "b": b.Vector, "c": cc.Vector, "d": d.Vector,
		"bits": [][]string{coords(a), coords(b), coords(cc), coords(d)}}
}

// pathClass recomputes which path of ChainCrossingSign a call took (for the evidence only).
func pathClass(e *s2.EdgeCrosser, a, b, cur s2.Point, acb s2.Direction, d s2.Point) string {
	bda := s2.VerifC03TriageSign(a, b, d)
	if acb == -bda && bda != 0 {
		return "path:fast"
	}
	at, bt := e.VerifC03Tangents()
	me := s2.VerifC03TangentMaxError()
	if (cur.Dot(at.Vector) > me && d.Dot(at.Vector) > me) || (cur.Dot(bt.Vector) > me && d.Dot(bt.Vector) > me) {
		return "path:tangent-exit"
	}
	if a == cur || a == d || b == cur || b == d {
		return "path:shared-vertex"
	}
	if a == b || cur == d {
		return "path:degenerate"
	}
	if acb == 0 || bda == 0 {
		return "path:exact(expensiveSign)"
	}
	return "path:exact(triage decided both)"
}

func (o *obs) history(pool []s2.Point, nops int) {
	c, rng := o.c, o.rng
	pick := func() s2.Point { return pool[rng.Intn(len(pool))] }
	a, b := pick(), pick()
	if rng.Intn(10) != 0 {
		for tries := 0; a == b && tries < 5; tries++ {
			b = pick()
		}
	}
	if a == b {
		c.Class("edge:degenerate AB")
	}
	antiAB := antipodal(a, b)
	if antiAB {
		c.Class("antipodal-edge")
	}
	nm := newNamer()
	tb := newTable(nm)
	e := s2.NewEdgeCrosser(a, b)
	// the model's tangents and error constant are the implementation's, bit for bit
	at, bt := e.VerifC03Tangents()
	A, B := nm.name(a), nm.name(b)
	pre := []string{
		vkit.App("s2_Point_eqbits", vkit.App("x_aTangent", A, B), pt(at)),
		vkit.App("s2_Point_eqbits", vkit.App("x_bTangent", A, B), pt(bt)),
		vkit.App("s2_Point_eqbits", vkit.App("x_aXb", A, B), pt(e.VerifC03AXB())),
		vkit.App("fbiteq", "x_maxError", vkit.F(s2.VerifC03TangentMaxError())),
	}
	ops, outs := []string{}, []string{}
	var last s2.Point // abstract last vertex (the argument values as passed)
	nontrivial := false
	hkey := key(a) + key(b)
	kinds := []string{}
	for k := 0; k < nops; k++ {
		kind := rng.Intn(20)
		if k == 0 && (kind >= 3 && kind < 10 || kind >= 18) {
			kind = 0 // a fresh crosser holds the zero vector, which is not a point: start with a vertex
		}
		cur, acb := e.VerifC03State()
		code := int64(-1)
		var cc, d s2.Point
		twoArg := false
		switch {
		case kind < 3: // RestartAt
			cc = pick()
			e.RestartAt(cc)
			ops = append(ops, vkit.App("xRestart", nm.name(cc)))
			last = cc
			hkey += "R" + key(cc)
			kinds = append(kinds, "R")
		default:
			d = pick()
			eov := false
			switch {
			case kind < 10: // ChainCrossingSign
				cc = last
				tb.addCrossing(a, b, cur, d)
				c.Class(pathClass(e, a, b, cur, acb, d))
				code = int64(e.ChainCrossingSign(d))
				ops = append(ops, vkit.App("xChain", nm.name(d)))
				kinds = append(kinds, "C")
			case kind < 15: // CrossingSign(c, d): half of them continue the chain
				twoArg = true
				cc = pick()
				if rng.Bool() && k > 0 {
					cc = last
					if rng.Intn(4) == 0 { // == but maybe other bits
						for _, q := range pool {
							if q == last && key(q) != key(last) {
								cc = q
								c.Class("op:continue chain through a +-0 twin")
							}
						}
					}
				}
				ceff := cur
				acbEff := acb
				if cc != cur {
					ceff = cc
					acbEff = -s2.VerifC03TriageSign(a, b, cc)
					c.Class("op:two-arg restarts")
				} else {
					c.Class("op:two-arg continues")
				}
				tb.addCrossing(a, b, ceff, d)
				c.Class(pathClass(e, a, b, ceff, acbEff, d))
				code = int64(e.CrossingSign(cc, d))
				ops = append(ops, vkit.App("xCross", nm.name(cc), nm.name(d)))
				kinds = append(kinds, "X")
			case kind < 18: // EdgeOrVertexCrossing(c, d)
				twoArg, eov = true, true
				cc = pick()
				if rng.Bool() && k > 0 {
					cc = last
				}
				ceff := cur
				acbEff := acb
				if cc != cur {
					ceff = cc
					acbEff = -s2.VerifC03TriageSign(a, b, cc)
				}
				tb.addCrossing(a, b, ceff, d)
				tb.addVC(a, b, ceff, d)
				c.Class(pathClass(e, a, b, ceff, acbEff, d))
				if e.EdgeOrVertexCrossing(cc, d) {
					code = 11
				} else {
					code = 10
				}
				ops = append(ops, vkit.App("xEoV", nm.name(cc), nm.name(d)))
				kinds = append(kinds, "E")
			default: // EdgeOrVertexChainCrossing(d)
				eov = true
				cc = last
				tb.addCrossing(a, b, cur, d)
				tb.addVC(a, b, cur, d)
				c.Class(pathClass(e, a, b, cur, acb, d))
				if e.EdgeOrVertexChainCrossing(d) {
					code = 11
				} else {
					code = 10
				}
				ops = append(ops, vkit.App("xEoVChain", nm.name(d)))
				kinds = append(kinds, "e")
			}
			hkey += kinds[len(kinds)-1] + key(cc) + key(d)
			// [S] the same answer as the stateless functions and as the exact criterion, in any call order
			want := o.or.crossing(a, b, cc, d)
			stateless := s2.CrossingSign(a, b, cc, d)
			rep := replayQuad(a, b, cc, d)
			rep["history"] = strings.Join(kinds, "")
			rep["step"] = k
			if want != s2.DoNotCross || stateless != s2.DoNotCross {
				nontrivial = true
			}
			if stateless != want && !antiAB {
				c.Violate(blame("CrossingSign.exact", quadTriples(a, b, cc, d)...), fmt.Sprintf("CrossingSign=%v but the exact four-orientation criterion says %v", stateless, want), rep)
			}
			if !eov {
				if s2.Crossing(code) != stateless {
					c.Violate("EdgeCrosser.history", fmt.Sprintf("crosser answered %v at step %d of %s, stateless CrossingSign says %v", s2.Crossing(code), k, strings.Join(kinds, ""), stateless), rep)
				}
			} else {
				wantE := want == s2.Cross || (want == s2.MaybeCross && o.vcOracle(a, b, cc, d))
				if (code == 11) != s2.EdgeOrVertexCrossing(a, b, cc, d) {
					c.Violate("EdgeCrosser.history(EdgeOrVertex)", fmt.Sprintf("crosser EdgeOrVertex answer %v at step %d of %s differs from the stateless function", code == 11, k, strings.Join(kinds, "")), rep)
				}
				if (code == 11) != wantE && !antiAB {
					c.Violate(blame("EdgeOrVertexCrossing.consistency", quadTriples(a, b, cc, d)...), "EdgeOrVertexCrossing is not (Cross, or Maybe and VertexCrossing) of the exact criterion", rep)
				}
			}
			_ = twoArg
			last = d
		}
		nc, nacb := e.VerifC03State()
		if key(nc) != key(last) && !(nc == last) {
			c.Violate("EdgeCrosser.cached-vertex", "cached vertex is not the last vertex of the chain", map[string]interface{}{"history": strings.Join(kinds, ""), "step": k})
		}
		// [S] cache invariant: acb is 0 or the exact orientation of ACB
		if nacb != 0 && int(nacb) != -o.or.sign(a, b, nc) {
			c.Violate(blame("EdgeCrosser.cached-acb", [3]s2.Point{a, b, nc}), fmt.Sprintf("cached acb=%d is neither 0 nor the exact orientation", nacb), map[string]interface{}{"history": strings.Join(kinds, ""), "step": k, "a": a.Vector, "b": b.Vector, "c": nc.Vector})
		}
		outs = append(outs, fmt.Sprintf("(%s, %s, %s)", nm.name(nc), vkit.Z(int64(nacb)), vkit.Z(code)))
	}
	c.Eval(hkey, nontrivial)
	c.Class(fmt.Sprintf("history:len<=%d", (nops+9)/10*10))
	body := strings.Join(pre, " && ") + " && " + vkit.App("x_check_history", tb.term(), A, B, vkit.List(ops), vkit.List(outs))
	c.Check("history "+strings.Join(kinds, ""), nm.wrap(body))
	c.Sample(map[string]interface{}{"type": "history", "a": a.Vector, "b": b.Vector, "ops": strings.Join(kinds, ""), "pool": len(pool)})
}

func (o *obs) triageAttack(a, b, d s2.Point) {
	t := int(s2.VerifC03TriageSign(a, b, d))
	if t == 0 {
		return
	}
	if a == b || b == d || d == a {
		o.c.Violate("triage_sound", "triageSign is decisive on a triple with two identical points", map[string]interface{}{"a": a.Vector, "b": b.Vector, "c": d.Vector})
		return
	}
	if ex := exactDet(a, b, d); ex != t {
		o.c.Violate("triage_sound", fmt.Sprintf("triageSign=%d but the exact determinant sign is %d", t, ex), map[string]interface{}{"a": a.Vector, "b": b.Vector, "c": d.Vector, "bits": [][]string{coords(a), coords(b), coords(d)}})
	}
}

// vcOracle: VertexCrossing as documented, on the oracle's exact signs: false for a degenerate
// edge or without a shared vertex; true for the same edge in either direction; otherwise
// OrderedCCW(referenceDir(O), far end of CD, far end of AB, O) around the shared vertex O.
func (o *obs) vcOracle(a, b, cc, d s2.Point) bool {
	if a == b || cc == d {
		return false
	}
	switch {
	case a == cc:
		return b == d || o.or.occw(s2.VerifC03ReferenceDir(a), d, b, a)
	case b == d:
		return o.or.occw(s2.VerifC03ReferenceDir(b), cc, a, b)
	case a == d:
		return b == cc || o.or.occw(s2.VerifC03ReferenceDir(a), cc, b, a)
	case b == cc:
		return o.or.occw(s2.VerifC03ReferenceDir(b), d, a, b)
	}
	return false
}

// quad: stateless functions on one quadruple, [T] and [S].
func (o *obs) quad(a, b, cc, d s2.Point, label string) {
	c := o.c
	nm := newNamer()
	tb := newTable(nm)
	tb.addCrossing(a, b, cc, d)
	tb.addSpec(a, b, cc, d)
	tb.addVC(a, b, cc, d)
	cs := s2.CrossingSign(a, b, cc, d)
	vc := s2.VertexCrossing(a, b, cc, d)
	ev := s2.EdgeOrVertexCrossing(a, b, cc, d)
	A, B, C, D := nm.name(a), nm.name(b), nm.name(cc), nm.name(d)
	parts := []string{
		vkit.App("Z.eqb", vkit.App("x_crossing_sign", "t", A, B, C, D), vkit.Z(int64(cs))),
		vkit.App("Bool.eqb", vkit.App("x_vertex_crossing", "t", A, B, C, D), vkit.B(vc)),
		vkit.App("Bool.eqb", vkit.App("x_edge_or_vertex_crossing", "t", A, B, C, D), vkit.B(ev)),
	}
	if !antipodal(a, b) && !antipodal(cc, d) {
		// the specification itself, evaluated in Coq on the recorded exact signs (geodesic edges only)
		parts = append(parts, vkit.App("Z.eqb", vkit.App("x_crossing_spec", "t", A, B, C, D), vkit.Z(int64(cs))))
	}
	body := "let t := " + tb.term() + " in " + strings.Join(parts, " && ")
	c.Check("quad "+label, nm.wrap(body))
	if antipodal(a, b) || antipodal(cc, d) {
		c.Class("antipodal-edge")
		c.Eval("qa"+key(a)+key(b)+key(cc)+key(d), false)
		if ev != (cs == s2.Cross || (cs == s2.MaybeCross && vc)) {
			c.Violate("EdgeOrVertexCrossing.consistency", "EdgeOrVertexCrossing differs from (Cross, or Maybe and VertexCrossing)", replayQuad(a, b, cc, d))
		}
		return
	}
	shared := a == cc || a == d || b == cc || b == d
	c.Eval("q"+key(a)+key(b)+key(cc)+key(d), cs != s2.DoNotCross || shared)
	rep := replayQuad(a, b, cc, d)
	want := o.or.crossing(a, b, cc, d)
	if cs != want {
		c.Violate(blame("CrossingSign.exact", quadTriples(a, b, cc, d)...), fmt.Sprintf("CrossingSign=%v but the exact four-orientation criterion says %v", cs, want), rep)
	}
	if r := s2.CrossingSign(b, a, cc, d); r != cs {
		c.Violate("CrossingSign.symmetry", fmt.Sprintf("CrossingSign(b,a,c,d)=%v, CrossingSign(a,b,c,d)=%v", r, cs), rep)
	}
	if r := s2.CrossingSign(a, b, d, cc); r != cs {
		c.Violate("CrossingSign.symmetry", fmt.Sprintf("CrossingSign(a,b,d,c)=%v, CrossingSign(a,b,c,d)=%v", r, cs), rep)
	}
	if r := s2.CrossingSign(cc, d, a, b); r != cs {
		c.Violate("CrossingSign.symmetry", fmt.Sprintf("CrossingSign(c,d,a,b)=%v, CrossingSign(a,b,c,d)=%v", r, cs), rep)
	}
	if (cs == s2.MaybeCross) != shared {
		c.Violate("CrossingSign.maybe", fmt.Sprintf("CrossingSign=%v, shared endpoint=%v", cs, shared), rep)
	}
	if ev != (cs == s2.Cross || (cs == s2.MaybeCross && vc)) {
		c.Violate("EdgeOrVertexCrossing.consistency", "EdgeOrVertexCrossing differs from (Cross, or Maybe and VertexCrossing)", rep)
	}
	if ev != s2.EdgeOrVertexCrossing(a, b, d, cc) || ev != s2.EdgeOrVertexCrossing(b, a, cc, d) {
		c.Violate("EdgeOrVertexCrossing.reversal", "EdgeOrVertexCrossing changes when an edge is reversed (c->d against d->c)", rep)
	}
	// VertexCrossing laws
	if vc != s2.VertexCrossing(a, b, d, cc) || vc != s2.VertexCrossing(b, a, cc, d) || vc != s2.VertexCrossing(b, a, d, cc) {
		c.Violate("VertexCrossing.reversal", "VertexCrossing changes when an edge is reversed", rep)
	}
	if (a == b || cc == d) && vc {
		c.Violate("VertexCrossing.degenerate", "VertexCrossing true for a degenerate edge", rep)
	}
	if a != b && ((a == cc && b == d) || (a == d && b == cc)) && !vc {
		c.Violate("VertexCrossing.same-edge", "VertexCrossing(a,b,a,b) or (a,b,b,a) is false", rep)
	}
	nShared := 0
	for _, e := range []bool{a == cc, a == d, b == cc, b == d} {
		if e {
			nShared++
		}
	}
	if nShared == 1 && a != b && cc != d {
		c.Class("quad:exactly one shared vertex")
		if vc == s2.VertexCrossing(cc, d, a, b) {
			c.Violate("VertexCrossing.exactly-one", fmt.Sprintf("VC(a,b,c,d)=VC(c,d,a,b)=%v for edges meeting at one vertex", vc), rep)
		}
	}
	// oracle for VertexCrossing itself: OrderedCCW on exact signs
	if a != b && cc != d && shared {
		w := o.vcOracle(a, b, cc, d)
		if w != vc {
			ra, rb := s2.VerifC03ReferenceDir(a), s2.VerifC03ReferenceDir(b)
			c.Violate(blame("VertexCrossing.exact", [3]s2.Point{b, a, ra}, [3]s2.Point{d, a, b}, [3]s2.Point{ra, a, d}, [3]s2.Point{cc, a, b}, [3]s2.Point{ra, a, cc},
				[3]s2.Point{a, b, rb}, [3]s2.Point{cc, b, a}, [3]s2.Point{rb, b, cc}, [3]s2.Point{d, b, a}, [3]s2.Point{rb, b, d}), "VertexCrossing differs from OrderedCCW on the exact signs", rep)
		}
	}
	o.triageAttack(a, b, cc)
	o.triageAttack(a, b, d)
	o.triageAttack(cc, d, a)
}

// acvCycle: vertices around b in CCW order: exactly one wedge (v_i, v_{i+1}] contains the vertex.
func (o *obs) acvCycle(b s2.Point, cand []s2.Point) {
	c := o.c
	vs := []s2.Point{}
	for _, v := range cand {
		ok := v != b
		for _, w := range vs {
			if w == v {
				ok = false
			}
		}
		if ok {
			vs = append(vs, v)
		}
	}
	if len(vs) < 2 {
		return
	}
	v1, rest := vs[0], append([]s2.Point{}, vs[1:]...)
	sort.SliceStable(rest, func(i, j int) bool { return o.or.occw(v1, rest[i], rest[j], b) })
	vs = append([]s2.Point{v1}, rest...)
	k := len(vs)
	rep := map[string]interface{}{"b": b.Vector, "v": func() []r3.Vector {
		out := []r3.Vector{}
		for _, v := range vs {
			out = append(out, v.Vector)
		}
		return out
	}()}
	for i := 0; i < k; i++ {
		for j := i + 1; j < k; j++ {
			for l := j + 1; l < k; l++ {
				if !o.or.occw(vs[i], vs[j], vs[l], b) {
					c.Violate("OrderedCCW.cyclic-order", "the exact orientations around a vertex do not form a cyclic order", rep)
					return
				}
			}
		}
	}
	// [S] law_occw_split on the implementation: (u,w] = (u,v] + (v,w] for u,v,w in CCW order
	w01 := func(x, y s2.Point) int {
		if s2.AngleContainsVertex(y, b, x) {
			return 1
		}
		return 0
	}
	for i := 0; i < k; i++ {
		for j := i + 1; j < k; j++ {
			for l := j + 1; l < k; l++ {
				if w01(vs[i], vs[l]) != w01(vs[i], vs[j])+w01(vs[j], vs[l]) {
					c.Violate("OrderedCCW.split", "wedge (u,w] is not the disjoint union of (u,v] and (v,w] for u,v,w in CCW order", rep)
				}
			}
		}
	}
	nm := newNamer()
	tb := newTable(nm)
	count := 0
	checks := []string{}
	for i := 0; i < k; i++ {
		vi, vn := vs[i], vs[(i+1)%k]
		got := s2.AngleContainsVertex(vn, b, vi)
		if got {
			count++
		}
		tb.addOccw(s2.VerifC03ReferenceDir(b), vi, vn, b)
		checks = append(checks, vkit.App("Bool.eqb", vkit.App("x_angle_contains_vertex", "t", nm.name(vn), nm.name(b), nm.name(vi)), vkit.B(got)))
		if got != !o.or.occw(s2.VerifC03ReferenceDir(b), vi, vn, b) {
			c.Violate("AngleContainsVertex.exact", "AngleContainsVertex differs from OrderedCCW on the exact signs", rep)
		}
	}
	c.Class(fmt.Sprintf("acv:k=%d", k))
	c.Eval("acv"+key(b)+key(vs[0])+key(vs[k-1]), true)
	if count != 1 {
		c.Violate("AngleContainsVertex.exactly-one", fmt.Sprintf("%d of the %d wedges around the vertex contain it", count, k), rep)
	}
	if s2.AngleContainsVertex(vs[0], b, vs[0]) {
		c.Violate("AngleContainsVertex.aba", "AngleContainsVertex(a,b,a) is true", rep)
	}
	c.Check(fmt.Sprintf("acv k=%d", k), nm.wrap("let t := "+tb.term()+" in "+strings.Join(checks, " && ")))
}

// tangentAttack: C and D within ~1e-15 of the great circle AB, just beyond A or B.
func (o *obs) tangentAttack() {
	c, rng := o.c, o.rng
	a := randPoint(rng)
	if rng.Intn(3) == 0 {
		a = planePoint(rng, rng.Intn(3))
	}
	var b s2.Point
	sep := math.Pow(10, rng.Range(-9, 0.3))
	for {
		q := randPoint(rng)
		if r, ok := norm(a.Add(q.Mul(sep))); ok && r != a {
			b = r
			break
		}
	}
	if rng.Intn(4) == 0 {
		b = planePoint(rng, rng.Intn(3))
		if a == b {
			return
		}
	}
	if antipodal(a, b) {
		o.c.Class("antipodal-edge")
		return
	}
	n, ok := norm(a.Cross(b.Vector))
	if !ok {
		return
	}
	mk := func() s2.Point {
		from, to := a, b
		if rng.Bool() {
			from, to = b, a
		}
		dir, ok := norm(from.Sub(to.Vector))
		if !ok {
			return from
		}
		eps := math.Pow(10, rng.Range(-16.3, -1))
		if rng.Intn(3) == 0 {
			eps = epsBeyond[rng.Intn(len(epsBeyond))]
		}
		if rng.Intn(8) == 0 {
			eps = -eps // just inside the edge
		}
		delta := rng.Range(-1e-15, 1e-15)
		if rng.Intn(3) == 0 {
			delta = 0
		}
		p, ok := norm(from.Add(dir.Mul(eps)).Add(n.Mul(delta)))
		if !ok {
			return from
		}
		return p
	}
	cc, d := mk(), mk()
	e := s2.NewChainEdgeCrosser(a, b, cc)
	cur, acb := e.VerifC03State()
	cls := pathClass(e, a, b, cur, acb, d)
	c.Class("tangent-attack " + cls)
	got := e.ChainCrossingSign(d)
	want := o.or.crossing(a, b, cc, d)
	c.Eval("t"+key(a)+key(b)+key(cc)+key(d), cls != "path:fast")
	if got != want {
		kind := blame("CrossingSign.exact", quadTriples(a, b, cc, d)...)
		if cls == "path:tangent-exit" {
			kind = "H-TANGENT"
		}
		c.Violate(kind, fmt.Sprintf("CrossingSign=%v via %s, exact criterion says %v", got, cls, want), replayQuad(a, b, cc, d))
	}
	if cls == "path:tangent-exit" && (a == cc || a == d || b == cc || b == d) {
		c.Violate("H-TANGENT", "tangent exit fired although a vertex is shared", replayQuad(a, b, cc, d))
	}
	o.triageAttack(a, b, cc)
	o.triageAttack(a, b, d)
	if rng.Intn(4) == 0 || cls == "path:tangent-exit" {
		o.quad(a, b, cc, d, "tangent-attack")
	}
}

// collinearFamily: a small point set dominated by EXACTLY collinear / coincident / proportional
// points (one diagonal or coordinate plane, duplicates, an exactly proportional pair, a few
// points off the plane), swept exhaustively: for every ordered quadruple CrossingSign,
// EdgeOrVertexCrossing and a crosser reused along the row must equal the four-orientation
// criterion evaluated with the independent perturbation oracle; and two triangles on six
// different points must cross an even number of times (true of every configuration in general
// position, hence of any consistent perturbation).
func (o *obs) collinearFamily(plane int) {
	c, rng := o.c, o.rng
	pts := []s2.Point{}
	add := func(p s2.Point) {
		for _, q := range pts {
			if key(q) == key(p) {
				return
			}
		}
		pts = append(pts, p)
	}
	for len(pts) < 5 {
		add(planePoint(rng, plane))
	}
	// the demo's points on x == y and its proportional pair, mapped into the chosen plane's family
	p3, _ := norm(r3.Vector{X: 1, Y: 1, Z: 1})
	if q, ok := proportional(p3); ok && (plane == 3 || plane == 5 || plane == 6 || rng.Bool()) {
		add(p3)
		add(q)
	}
	for _, p := range append([]s2.Point{}, pts...) {
		if q, ok := proportional(p); ok && rng.Intn(3) == 0 {
			add(q)
		}
	}
	for len(pts) < 9 {
		switch rng.Intn(4) {
		case 0:
			add(randPoint(rng))
		case 1:
			ax := [][3]float64{{1, 0, 0}, {0, 1, 0}, {0, 0, 1}, {1, -1, 0}, {0, 1, 1}, {2, 1, 0}, {1, 2, 1}, {1, 0.5, 0.25}}[rng.Intn(8)]
			if p, ok := norm(r3.Vector{X: ax[0], Y: ax[1], Z: ax[2]}); ok {
				add(p)
			}
		default:
			add(planePoint(rng, plane))
		}
	}
	n := len(pts)
	c.Class(fmt.Sprintf("collinear-family:plane%d", plane))
	cache := make([]s2.Crossing, n*n*n*n)
	for ia, a := range pts {
		for ib, b := range pts {
			crosser := s2.NewEdgeCrosser(a, b)
			anti := antipodal(a, b)
			for ic, cc := range pts {
				for id, d := range pts {
					got := s2.CrossingSign(a, b, cc, d)
					cache[((ia*n+ib)*n+ic)*n+id] = got
					got2 := crosser.CrossingSign(cc, d)
					c.Evals++
					if got2 != got {
						c.Violate("EdgeCrosser.history", fmt.Sprintf("crosser reused along a row answered %v, stateless CrossingSign %v", got2, got), replayQuad(a, b, cc, d))
					}
					if anti || antipodal(cc, d) {
						continue
					}
					want := o.or.crossing(a, b, cc, d)
					if got != want {
						c.Violate(blame("CrossingSign.exact", quadTriples(a, b, cc, d)...), fmt.Sprintf("CrossingSign=%v but the four-orientation criterion in exact arithmetic with the documented perturbation says %v", got, want), replayQuad(a, b, cc, d))
					}
					if (ia+ib+ic+id)%7 == 0 {
						wantE := want == s2.Cross || (want == s2.MaybeCross && o.vcOracle(a, b, cc, d))
						if s2.EdgeOrVertexCrossing(a, b, cc, d) != wantE {
							c.Violate(blame("EdgeOrVertexCrossing.consistency", quadTriples(a, b, cc, d)...), "EdgeOrVertexCrossing is not (Cross, or Maybe and VertexCrossing) of the exact criterion", replayQuad(a, b, cc, d))
						}
					}
				}
			}
		}
	}
	c.NonTrivial[fmt.Sprintf("fam%d%s%s", plane, key(pts[0]), key(pts[n-1]))] = true
	// triangle parity
	okTri := func(t [3]int) bool {
		for k := 0; k < 3; k++ {
			x, y := pts[t[k]], pts[t[(k+1)%3]]
			if x == y || antipodal(x, y) {
				return false
			}
		}
		return true
	}
	bad := 0
	for i0 := 0; i0 < n; i0++ {
		for i1 := i0 + 1; i1 < n; i1++ {
			for i2 := i1 + 1; i2 < n; i2++ {
				ti := [3]int{i0, i1, i2}
				if !okTri(ti) {
					continue
				}
				for j0 := i0 + 1; j0 < n; j0++ {
					for j1 := j0 + 1; j1 < n; j1++ {
					next:
						for j2 := j1 + 1; j2 < n; j2++ {
							tj := [3]int{j0, j1, j2}
							if !okTri(tj) {
								continue
							}
							for _, x := range ti {
								for _, y := range tj {
									if x == y || pts[x] == pts[y] {
										continue next
									}
								}
							}
							count := 0
							for k := 0; k < 3; k++ {
								for l := 0; l < 3; l++ {
									if cache[((ti[k]*n+ti[(k+1)%3])*n+tj[l])*n+tj[(l+1)%3]] == s2.Cross {
										count++
									}
								}
							}
							if count%2 != 0 && bad < 3 {
								bad++
								tri := []r3.Vector{}
								for _, x := range ti {
									tri = append(tri, pts[x].Vector)
								}
								for _, y := range tj {
									tri = append(tri, pts[y].Vector)
								}
								c.Violate("CrossingSign.triangle-parity", fmt.Sprintf("two triangles on six different points cross %d times (odd): impossible for any perturbation into general position", count), map[string]interface{}{"triangle1+triangle2": tri})
							}
						}
					}
				}
			}
		}
	}
}

// refdirFamily: two edges meeting at a vertex O where a far endpoint is BIT-FOR-BIT
// referenceDir(O), its antipode, or a point exactly/nearly collinear with O and referenceDir(O):
// the sweep of OrderedCCW then starts or ends exactly on an edge, and only there the closed/open
// ends of the wedge rule matter. All eight arrangements (which case of VertexCrossing fires:
// a==c, a==d, b==c, b==d; both roles of the two edges), stateless ([T] + laws through quad) and
// through one crosser (two-argument calls and chains, against the stateless function and the
// oracle's VertexCrossing).
func (o *obs) refdirFamily(O s2.Point, extra []s2.Point) {
	c, rng := o.c, o.rng
	R := s2.VerifC03ReferenceDir(O)
	far := []s2.Point{R, {Vector: R.Mul(-1)}}
	for _, st := range [][2]float64{{0.5, 1}, {-0.5, 1}, {1, 0.25}, {1, -0.25}, {rng.Range(-1, 1), rng.Range(-1, 1)}} {
		if p, ok := norm(O.Mul(st[0]).Add(R.Mul(st[1]))); ok && p != O {
			far = append(far, p) // on the great circle through O and referenceDir(O), up to rounding
		}
	}
	far = append(far, perturbUlp(rng, R))
	far = append(far, extra...)
	far = append(far, randPoint(rng))
	c.Class("refdir-family")
	for i, P := range far {
		for j, Q := range far {
			if i == j || P == O || Q == O {
				continue
			}
			if i > 1 && j > 1 && rng.Intn(3) != 0 {
				continue // always keep the pairs that involve referenceDir(O) or its antipode
			}
			arr := [][4]s2.Point{{O, P, O, Q}, {O, P, Q, O}, {P, O, O, Q}, {P, O, Q, O}}
			for k, q := range arr {
				o.quad(q[0], q[1], q[2], q[3], fmt.Sprintf("refdir arrangement %d", k))
				// through one crosser: two-argument call, then the reversed edge as a chain
				a, b, cc, d := q[0], q[1], q[2], q[3]
				if antipodal(a, b) || antipodal(cc, d) {
					continue
				}
				e := s2.NewEdgeCrosser(a, b)
				want := o.or.crossing(a, b, cc, d) == s2.Cross || (o.or.crossing(a, b, cc, d) == s2.MaybeCross && o.vcOracle(a, b, cc, d))
				g1 := e.EdgeOrVertexCrossing(cc, d)
				e.RestartAt(d)
				g2 := e.EdgeOrVertexChainCrossing(cc)
				g3 := e.EdgeOrVertexCrossing(cc, d) // continues the chain at cc
				c.Evals += 3
				if g1 != want || g3 != want {
					c.Violate(blame("VertexCrossing.exact", quadTriples(a, b, cc, d)...), fmt.Sprintf("crosser EdgeOrVertexCrossing=%v/%v, the vertex rule on the exact signs says %v", g1, g3, want), replayQuad(a, b, cc, d))
				}
				if g2 != g1 {
					c.Violate("EdgeOrVertexCrossing.reversal", "the crosser answers differently for c->d and for the chain d->c", replayQuad(a, b, cc, d))
				}
			}
		}
	}
	pool := append([]s2.Point{O, O, R}, far...)
	for r := 0; r < 2; r++ {
		o.history(pool, 6+rng.Intn(20))
	}
}

func bitsPoint(x, y, z uint64) s2.Point {
	return s2.Point{Vector: r3.Vector{X: math.Float64frombits(x), Y: math.Float64frombits(y), Z: math.Float64frombits(z)}}
}

// corpus: committed regression inputs, run first on every run.
func (o *obs) corpus() {
	// known finding stableSign.underflow: c is b with X = -5e-324; d is a one ulp off
	a := bitsPoint(0x3fe90f7bd8cd8e08, 0xbfcc55408c56be46, 0xbfe2987f204089a9)
	b := bitsPoint(0, 0x3fdf84b33442996f, 0x3febd9b7e6fd4520)
	cc := bitsPoint(0x8000000000000001, 0x3fdf84b33442996f, 0x3febd9b7e6fd4520)
	d := bitsPoint(0x3fe90f7bd8cd8e08, 0xbfcc55408c56be46, 0xbfe2987f204089aa)
	o.c.Class("corpus")
	o.quad(a, b, cc, d, "corpus stableSign.underflow")
	// exactly antipodal AB (not a geodesic edge; informational): the tangent exit fires although
	// the four exact orientations agree - the witness of Link_C02_C03.H_TANGENT_unguarded_refuted
	a = bitsPoint(0x3fd01cffc3d38246, 0xbfe6d102b1720240, 0x3fe4f0bdf9903218)
	b = s2.Point{Vector: a.Mul(-1)}
	cc = bitsPoint(0, 0x3c91a62633145c00, 0x3ff0000000000000)
	d = bitsPoint(0xbfe44caae4eca5e9, 0x3fe711b60ba5f296, 0x3fd1dc2089338037)
	o.quad(a, b, cc, d, "corpus antipodal AB")
	o.refdirFamily(s2.Point{Vector: r3.Vector{X: 1, Y: 0, Z: 0}}, nil)
	o.refdirFamily(bitsPoint(0x3fe90f7bd8cd8e08, 0xbfcc55408c56be46, 0xbfe2987f204089a9), nil)
	e := s2.NewChainEdgeCrosser(a, b, cc)
	if got, st := e.ChainCrossingSign(d), s2.CrossingSign(a, b, cc, d); got != st {
		o.c.Violate("EdgeCrosser.history", "crosser and stateless CrossingSign differ on the antipodal corpus edge", replayQuad(a, b, cc, d))
	}
}

// twinAttack: law_sign_peq and law_refdir_ne on the implementation. RobustSign must not
// distinguish == points (+0 / -0 twins), in every argument position and through every stage
// (the exact stage sorts with Cmp and perturbs by rank); referenceDir(p) is never == p.
func (o *obs) twinAttack(pool []s2.Point) {
	c, rng := o.c, o.rng
	for _, p := range pool {
		if r := s2.VerifC03ReferenceDir(p); r == p {
			c.Violate("referenceDir.same-point", "referenceDir(p) == p", map[string]interface{}{"p": p.Vector})
		}
		if p.X != 0 && p.Y != 0 && p.Z != 0 {
			continue
		}
		t := p
		if t.X == 0 && rng.Bool() {
			t.X = -t.X
		}
		if t.Y == 0 && rng.Bool() {
			t.Y = -t.Y
		}
		if t.Z == 0 {
			t.Z = -t.Z
		}
		if key(t) == key(p) {
			continue
		}
		c.Class("twin:+-0 pair tested")
		for k := 0; k < 6; k++ {
			a, b := pool[rng.Intn(len(pool))], pool[rng.Intn(len(pool))]
			if k%2 == 0 { // exactly coplanar partners: forces the symbolic perturbation
				a = s2.Point{Vector: r3.Vector{X: p.X, Y: p.Y, Z: p.Z}.Mul(-1)}
			}
			c.Eval("tw"+key(a)+key(b)+key(p), true)
			if s2.RobustSign(a, b, p) != s2.RobustSign(a, b, t) || s2.RobustSign(p, a, b) != s2.RobustSign(t, a, b) || s2.RobustSign(a, p, b) != s2.RobustSign(a, t, b) {
				c.Violate("RobustSign.twin", "RobustSign distinguishes a point from its +-0 twin", map[string]interface{}{"a": a.Vector, "b": b.Vector, "p": p.Vector, "bits": [][]string{coords(a), coords(b), coords(p), coords(t)}})
			}
			if s2.CrossingSign(a, b, p, pool[0]) != s2.CrossingSign(a, b, t, pool[0]) {
				c.Violate("CrossingSign.twin", "CrossingSign distinguishes a point from its +-0 twin", replayQuad(a, b, p, pool[0]))
			}
		}
	}
}

func run(c *vkit.Collector, rng *vkit.Rng, budget int) {
	o := &obs{c: c, rng: rng, or: &oracle{}}
	o.corpus()
	// exactly collinear families, one of the seven planes each; x == y (the demo's) always first
	for k := 0; k < 6*budget; k++ {
		plane := 3
		if k > 0 {
			plane = rng.Intn(7)
		}
		o.collinearFamily(plane)
	}
	nh := 220 * budget
	for h := 0; h < nh; h++ {
		pool := genPool(c, rng)
		c.Class(fmt.Sprintf("pool:size<=%d", (len(pool)+3)/4*4))
		for r := 0; r < 2; r++ {
			o.history(pool, 2+rng.Intn(39))
		}
		pick := func() s2.Point { return pool[rng.Intn(len(pool))] }
		for q := 0; q < 3; q++ {
			a, b, cc, d := pick(), pick(), pick(), pick()
			switch rng.Intn(6) { // force shared vertices often
			case 0:
				cc = a
			case 1:
				d = b
			case 2:
				d = a
			case 3:
				cc = b
			}
			o.quad(a, b, cc, d, "pool")
		}
		// vertices around one pool point
		bidx := rng.Intn(len(pool))
		cand := []s2.Point{}
		for i, p := range pool {
			if i != bidx && rng.Intn(3) != 0 {
				cand = append(cand, p)
			}
		}
		if rng.Intn(3) == 0 { // the reference direction itself and a point behind it as candidates
			r := s2.VerifC03ReferenceDir(pool[bidx])
			cand = append(cand, r)
			if p, ok := norm(pool[bidx].Add(r.Mul(0.5))); ok {
				cand = append(cand, p)
			}
		}
		if len(cand) > 6 {
			cand = cand[:6]
		}
		o.acvCycle(pool[bidx], cand)
		if h%20 == 0 {
			o.refdirFamily(pool[bidx], []s2.Point{pool[(bidx+1)%len(pool)]})
		}
		o.twinAttack(pool)
	}
	for k := 0; k < 1500*budget; k++ {
		o.tangentAttack()
	}
	c.Extra["oracle_ties_resolved_by_the_perturbation_definition"] = o.or.ties
}
