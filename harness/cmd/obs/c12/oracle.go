package main

// Independent geometry oracle for the [S] part of C12.
//
// Nothing in this file calls the s2 package.  A cell is the exact set
// { faceUV(f,u,v) : u in [uLo,uHi], v in [vLo,vHi] } for the float64 bounds of the
// Cell (exact rationals); its corners are exact float64 triples, its four sides are
// great-circle arcs between consecutive corners.  All metric quantities are squared
// chord lengths between *directions* (vectors are never assumed to be unit length),
// computed in big.Float at 300 bits; orientation tests that decide whether two arcs
// cross are evaluated exactly (big.Int on the float64 mantissas).

import (
	"math"
	"math/big"
)

const oprec = 300

type bvec [3]*big.Float

func bnew() *big.Float              { return new(big.Float).SetPrec(oprec) }
func bf(x float64) *big.Float       { return new(big.Float).SetPrec(oprec).SetFloat64(x) }
func bcopy(x *big.Float) *big.Float { return new(big.Float).SetPrec(oprec).Set(x) }

func bvFrom(x [3]float64) bvec { return bvec{bf(x[0]), bf(x[1]), bf(x[2])} }

func (a bvec) dot(b bvec) *big.Float {
	s := bnew().Mul(a[0], b[0])
	t := bnew().Mul(a[1], b[1])
	s.Add(s, t)
	t.Mul(a[2], b[2])
	return s.Add(s, t)
}

func (a bvec) cross(b bvec) bvec {
	var r bvec
	for i := 0; i < 3; i++ {
		j, k := (i+1)%3, (i+2)%3
		x := bnew().Mul(a[j], b[k])
		y := bnew().Mul(a[k], b[j])
		r[i] = x.Sub(x, y)
	}
	return r
}

func (a bvec) neg() bvec {
	return bvec{bnew().Neg(a[0]), bnew().Neg(a[1]), bnew().Neg(a[2])}
}

func (a bvec) norm2() *big.Float { return a.dot(a) }

func (a bvec) isZero() bool { return a[0].Sign() == 0 && a[1].Sign() == 0 && a[2].Sign() == 0 }

var (
	bTwo  = bf(2)
	bFour = bf(4)
	bZero = bf(0)
	bOne  = bf(1)
)

func bmin(a, b *big.Float) *big.Float {
	if a == nil {
		return b
	}
	if b == nil {
		return a
	}
	if a.Cmp(b) <= 0 {
		return a
	}
	return b
}

func clamp04(x *big.Float) *big.Float {
	if x.Sign() < 0 {
		return bcopy(bZero)
	}
	if x.Cmp(bFour) > 0 {
		return bcopy(bFour)
	}
	return x
}

// chord2 is the squared chord length between the directions p and q:
// |p/|p| - q/|q||^2 = 2 - 2 p.q / (|p||q|).
func chord2(p, q bvec) *big.Float {
	d := p.dot(q)
	n := bnew().Mul(p.norm2(), q.norm2())
	n.Sqrt(n)
	d.Quo(d, n)
	d.Mul(d, bTwo)
	return clamp04(bnew().Sub(bTwo, d))
}

// pointArc2 is the squared chord length from direction p to the closest point of the
// (shorter) great-circle arc from a to b.  a == b (or parallel) degenerates to a point.
func pointArc2(p, a, b bvec) *big.Float {
	n := a.cross(b)
	n2 := n.norm2()
	if n2.Sign() != 0 {
		s1 := a.cross(p).dot(n)
		s2 := p.cross(b).dot(n)
		if s1.Sign() > 0 && s2.Sign() > 0 {
			// the projection of p on the plane of the arc falls strictly inside the wedge a..b:
			// distance to the great circle, sin^2 = (p.n)^2 / (|p|^2 |n|^2)
			pn := p.dot(n)
			sin2 := bnew().Mul(pn, pn)
			den := bnew().Mul(p.norm2(), n2)
			sin2.Quo(sin2, den)
			c := bnew().Sub(bOne, sin2)
			if c.Sign() < 0 {
				c.SetInt64(0)
			}
			c.Sqrt(c)
			c.Mul(c, bTwo)
			return clamp04(bnew().Sub(bTwo, c))
		}
	}
	return bmin(chord2(p, a), chord2(p, b))
}

// ---- exact orientation ----

// detSign is the exact sign of det[a b c] for float64 triples.
func detSign(a, b, c [3]float64) int {
	type term struct {
		m *big.Int
		e int
	}
	dec := func(x float64) (int64, int) {
		if x == 0 {
			return 0, 0
		}
		fr, ex := math.Frexp(x)
		return int64(fr * (1 << 53)), ex - 53
	}
	var am, bm, cm [3]int64
	var ae, be, ce [3]int
	for i := 0; i < 3; i++ {
		am[i], ae[i] = dec(a[i])
		bm[i], be[i] = dec(b[i])
		cm[i], ce[i] = dec(c[i])
	}
	perms := [6][4]int{{0, 1, 2, 1}, {1, 2, 0, 1}, {2, 0, 1, 1}, {0, 2, 1, -1}, {1, 0, 2, -1}, {2, 1, 0, -1}}
	terms := make([]term, 0, 6)
	minE := 0
	first := true
	for _, p := range perms {
		x, y, z := am[p[0]], bm[p[1]], cm[p[2]]
		if x == 0 || y == 0 || z == 0 {
			continue
		}
		m := new(big.Int).Mul(big.NewInt(x), big.NewInt(y))
		m.Mul(m, big.NewInt(z))
		if p[3] < 0 {
			m.Neg(m)
		}
		e := ae[p[0]] + be[p[1]] + ce[p[2]]
		if first || e < minE {
			minE = e
			first = false
		}
		terms = append(terms, term{m, e})
	}
	sum := new(big.Int)
	for _, t := range terms {
		sum.Add(sum, t.m.Lsh(t.m, uint(t.e-minE)))
	}
	return sum.Sign()
}

// arcsCross reports whether the arcs ab and cd cross at a point interior to both
// (all four orientation triples strictly agree); touching configurations are "no".
func arcsCross(a, b, c, d [3]float64) bool {
	acb := detSign(a, c, b)
	if acb == 0 {
		return false
	}
	return detSign(c, b, d) == acb && detSign(b, d, a) == acb && detSign(d, a, c) == acb
}

// ---- cells as spherical quadrilaterals ----

// oFaceUV is the S2 cube-face parametrisation (face, u, v) -> direction.
func oFaceUV(f int, u, v float64) [3]float64 {
	switch f {
	case 0:
		return [3]float64{1, u, v}
	case 1:
		return [3]float64{-u, 1, v}
	case 2:
		return [3]float64{-u, -v, 1}
	case 3:
		return [3]float64{-1, -v, -u}
	case 4:
		return [3]float64{v, -1, -u}
	}
	return [3]float64{v, u, -1}
}

type quad struct {
	face int           // the cube face and the uv bounds uLo uHi vLo vHi the quad was built from
	uv   [4]float64    //
	anti bool          // true for the antipodal image
	cf   [4][3]float64 // corners, CCW in the (u,v) plane: (lo,lo) (hi,lo) (hi,hi) (lo,hi)
	c    [4]bvec
	n    [4]bvec // inward normal of side k = (c[k], c[k+1])
}

func cellQuad(f int, uLo, uHi, vLo, vHi float64) quad {
	var q quad
	q.face, q.uv = f, [4]float64{uLo, uHi, vLo, vHi}
	q.cf = [4][3]float64{oFaceUV(f, uLo, vLo), oFaceUV(f, uHi, vLo), oFaceUV(f, uHi, vHi), oFaceUV(f, uLo, vHi)}
	for k := 0; k < 4; k++ {
		q.c[k] = bvFrom(q.cf[k])
	}
	// axes of the face frame: W = f(0,0), U = f(1,0)-W, V = f(0,1)-W
	w := oFaceUV(f, 0, 0)
	u1 := oFaceUV(f, 1, 0)
	v1 := oFaceUV(f, 0, 1)
	var U, V, W bvec
	for i := 0; i < 3; i++ {
		W[i] = bf(w[i])
		U[i] = bf(u1[i] - w[i])
		V[i] = bf(v1[i] - w[i])
	}
	lin := func(a bvec, sa float64, b bvec, sb float64) bvec { // sa*a + sb*b
		var r bvec
		for i := 0; i < 3; i++ {
			x := bnew().Mul(a[i], bf(sa))
			y := bnew().Mul(b[i], bf(sb))
			r[i] = x.Add(x, y)
		}
		return r
	}
	q.n[0] = lin(V, 1, W, -vLo) // v >= vLo  <=>  p.V - vLo p.W >= 0
	q.n[1] = lin(W, uHi, U, -1) // u <= uHi
	q.n[2] = lin(W, vHi, V, -1) // v <= vHi
	q.n[3] = lin(U, 1, W, -uLo) // u >= uLo
	return q
}

func (q quad) antipode() quad {
	var r quad
	r.face, r.uv, r.anti = q.face, q.uv, !q.anti
	for k := 0; k < 4; k++ {
		r.cf[k] = [3]float64{-q.cf[k][0], -q.cf[k][1], -q.cf[k][2]}
		r.c[k] = q.c[k].neg()
		r.n[k] = q.n[k].neg()
	}
	return r
}

// inside: p (non-zero direction) belongs to the closed cell.  The four closed
// half-spaces through the origin intersect exactly in the cone over the cell (for a
// face cell the four conditions already imply w >= 0).
func (q quad) inside(p bvec) bool {
	if p.isZero() {
		return false
	}
	for k := 0; k < 4; k++ {
		if q.n[k].dot(p).Sign() < 0 {
			return false
		}
	}
	return true
}

// sane checks the construction: each normal is orthogonal to both corners of its side
// and the opposite corners are strictly on the inner side.
func (q quad) sane() bool {
	for k := 0; k < 4; k++ {
		if q.n[k].dot(q.c[k]).Sign() != 0 || q.n[k].dot(q.c[(k+1)&3]).Sign() != 0 {
			return false
		}
		if q.n[k].dot(q.c[(k+2)&3]).Sign() <= 0 || q.n[k].dot(q.c[(k+3)&3]).Sign() <= 0 {
			return false
		}
	}
	return true
}

type odir struct {
	f [3]float64
	b bvec
}

func mkdir(x [3]float64) odir { return odir{x, bvFrom(x)} }
func (d odir) neg() odir {
	return mkdir([3]float64{-d.f[0], -d.f[1], -d.f[2]})
}

// boundary2: min over the four sides.
func (q quad) boundary2(p bvec) *big.Float {
	var m *big.Float
	for k := 0; k < 4; k++ {
		m = bmin(m, pointArc2(p, q.c[k], q.c[(k+1)&3]))
	}
	return m
}

// point2: squared chord distance from the closed cell to direction p.
func (q quad) point2(p bvec) *big.Float {
	if q.inside(p) {
		return bcopy(bZero)
	}
	return q.boundary2(p)
}

// edge2: squared chord distance from the closed cell to the arc ab.
func (q quad) edge2(a, b odir) *big.Float {
	if q.inside(a.b) || q.inside(b.b) {
		return bcopy(bZero)
	}
	for k := 0; k < 4; k++ {
		if arcsCross(a.f, b.f, q.cf[k], q.cf[(k+1)&3]) {
			return bcopy(bZero)
		}
	}
	var m *big.Float
	for k := 0; k < 4; k++ {
		m = bmin(m, pointArc2(q.c[k], a.b, b.b))
		m = bmin(m, pointArc2(a.b, q.c[k], q.c[(k+1)&3]))
		m = bmin(m, pointArc2(b.b, q.c[k], q.c[(k+1)&3]))
	}
	return m
}

// quad2: squared chord distance between two closed cells.
func (q quad) quad2(o quad) *big.Float {
	for k := 0; k < 4; k++ {
		if q.inside(o.c[k]) || o.inside(q.c[k]) {
			return bcopy(bZero)
		}
	}
	for k := 0; k < 4; k++ {
		for l := 0; l < 4; l++ {
			if arcsCross(q.cf[k], q.cf[(k+1)&3], o.cf[l], o.cf[(l+1)&3]) {
				return bcopy(bZero)
			}
		}
	}
	var m *big.Float
	for k := 0; k < 4; k++ {
		for l := 0; l < 4; l++ {
			m = bmin(m, pointArc2(q.c[k], o.c[l], o.c[(l+1)&3]))
			m = bmin(m, pointArc2(o.c[k], q.c[l], q.c[(l+1)&3]))
		}
	}
	return m
}

// max* : farthest distance = pi - nearest distance to the antipodal target, i.e.
// 4 - d2min in squared-chord terms.
func (q quad) maxPoint2(p bvec) *big.Float { return bnew().Sub(bFour, q.point2(p.neg())) }
func (q quad) maxEdge2(a, b odir) *big.Float {
	return bnew().Sub(bFour, q.edge2(a.neg(), b.neg()))
}
func (q quad) maxQuad2(o quad) *big.Float { return bnew().Sub(bFour, q.quad2(o.antipode())) }

// angleOf converts a squared chord length to the angle, accurately over [0,4]:
// theta = 2 atan2(sqrt(d2), sqrt(4-d2)), 4-d2 formed before rounding.
func angleOf(d2 *big.Float) float64 {
	d := clamp04(bcopy(d2))
	e := bnew().Sub(bFour, d)
	x, _ := bnew().Sqrt(d).Float64()
	y, _ := bnew().Sqrt(e).Float64()
	return 2 * math.Atan2(x, y)
}

// ---- float64 dense sampling, used only to cross-check the analytic oracle ----

type v3 [3]float64

func (a v3) add(b v3) v3      { return v3{a[0] + b[0], a[1] + b[1], a[2] + b[2]} }
func (a v3) mul(s float64) v3 { return v3{a[0] * s, a[1] * s, a[2] * s} }
func (a v3) dot(b v3) float64 { return a[0]*b[0] + a[1]*b[1] + a[2]*b[2] }
func (a v3) cross(b v3) v3 {
	return v3{a[1]*b[2] - a[2]*b[1], a[2]*b[0] - a[0]*b[2], a[0]*b[1] - a[1]*b[0]}
}
func (a v3) norm() float64       { return math.Sqrt(a.dot(a)) }
func vangle(a, b v3) float64     { return math.Atan2(a.cross(b).norm(), a.dot(b)) }
func lerp(a, b v3, t float64) v3 { return a.mul(1 - t).add(b.mul(t)) }

// opt1 optimises f over [0,1] by n+1 samples followed by golden-section refinement
// around the best sample; sign = +1 minimises, -1 maximises.  Returns the optimum value.
func opt1(f func(float64) float64, n int, sign float64) float64 {
	best, bt := math.Inf(1), 0.0
	for i := 0; i <= n; i++ {
		t := float64(i) / float64(n)
		if y := sign * f(t); y < best {
			best, bt = y, t
		}
	}
	lo, hi := math.Max(0, bt-1/float64(n)), math.Min(1, bt+1/float64(n))
	const g = 0.6180339887498949
	x1, x2 := hi-g*(hi-lo), lo+g*(hi-lo)
	f1, f2 := sign*f(x1), sign*f(x2)
	for it := 0; it < 70; it++ {
		if f1 < f2 {
			hi, x2, f2 = x2, x1, f1
			x1 = hi - g*(hi-lo)
			f1 = sign * f(x1)
		} else {
			lo, x1, f1 = x1, x2, f2
			x2 = lo + g*(hi-lo)
			f2 = sign * f(x2)
		}
	}
	best = math.Min(best, math.Min(f1, f2))
	return sign * best
}

// fInside: float64 inside test, done in the (u,v) plane of the face so that it stays
// meaningful for cells as small as 1e-9 (used only by the sampling cross-check).
func (q quad) fInside(p v3) bool {
	if q.anti {
		p = p.mul(-1)
	}
	w0 := v3(oFaceUV(q.face, 0, 0))
	u1 := v3(oFaceUV(q.face, 1, 0))
	v1 := v3(oFaceUV(q.face, 0, 1))
	w := p.dot(w0)
	if !(w > 0) {
		return false
	}
	u := p.dot(u1.add(w0.mul(-1))) / w
	v := p.dot(v1.add(w0.mul(-1))) / w
	return q.uv[0] <= u && u <= q.uv[1] && q.uv[2] <= v && v <= q.uv[3]
}

// target as a sampled set: a point, an arc, or the boundary of a quad
type starget struct {
	kind int // 0 point, 1 arc, 2 quad
	a, b v3
	q    *quad
}

// extremum over the target of the angle to x
func (t starget) ext(x v3, sign float64) float64 {
	switch t.kind {
	case 0:
		return vangle(x, t.a)
	case 1:
		return opt1(func(s float64) float64 { return vangle(x, lerp(t.a, t.b, s)) }, 32, sign)
	}
	best := math.Inf(1)
	for k := 0; k < 4; k++ {
		a, b := v3(t.q.cf[k]), v3(t.q.cf[(k+1)&3])
		y := sign * opt1(func(s float64) float64 { return vangle(x, lerp(a, b, s)) }, 16, sign)
		best = math.Min(best, y)
	}
	return sign * best
}

// sampledExt estimates min (sign=+1) / max (sign=-1) of the angle between the closed
// cell q and the target by dense sampling.  Intersection (for min) and antipodal
// intersection (for max) are detected on the samples with the float64 inside test.
func sampledExt(q quad, t starget, sign float64) float64 {
	flip := func(x v3) v3 {
		if sign > 0 {
			return x
		}
		return x.mul(-1)
	}
	zero := func() float64 {
		if sign > 0 {
			return 0
		}
		return math.Pi
	}
	// (antipodal) target samples inside the cell, or cell corners inside the (antipodal) target
	switch t.kind {
	case 0:
		if q.fInside(flip(t.a)) {
			return zero()
		}
	case 1:
		for i := 0; i <= 64; i++ {
			if q.fInside(flip(lerp(t.a, t.b, float64(i)/64))) {
				return zero()
			}
		}
	case 2:
		for k := 0; k < 4; k++ {
			if q.fInside(flip(v3(t.q.cf[k]))) || t.q.fInside(flip(v3(q.cf[k]))) {
				return zero()
			}
		}
	}
	best := math.Inf(1)
	for k := 0; k < 4; k++ {
		a, b := v3(q.cf[k]), v3(q.cf[(k+1)&3])
		y := sign * opt1(func(s float64) float64 { return t.ext(lerp(a, b, s), sign) }, 64, sign)
		best = math.Min(best, y)
	}
	// interior grid (cannot improve a true extremum, guards the reasoning above)
	for i := 1; i < 8; i++ {
		for j := 1; j < 8; j++ {
			lo := lerp(v3(q.cf[0]), v3(q.cf[1]), float64(i)/8)
			hi := lerp(v3(q.cf[3]), v3(q.cf[2]), float64(i)/8)
			best = math.Min(best, sign*t.ext(lerp(lo, hi, float64(j)/8), sign))
		}
	}
	return sign * best
}
