package main

// [S] search drivers: the property evaluated on the real implementation, judged by the
// independent oracle of oracle.go (distances) or by the implementation's own id
// arithmetic (children, containment) / 300-bit vector arithmetic (cap bound).

import (
	"fmt"
	"math"
	"math/big"

	"github.com/golang/geo/s1"
	"github.com/golang/geo/s2"
	"verifharness/internal/vkit"
)

// Tolerances, in radians.  The library documents the accuracy of the cell distance
// functions only through cell_test.go: 1e-15 when the distance is <= pi/3, 1e-12 in
// general.  A violation is flagged only beyond marginFactor * tol AND when the squared
// chord lengths differ by more than chordSlack (a ChordAngle near 4 cannot resolve the
// angle better than ~1e-8).
const (
	tolSmall     = 1e-15
	tolGeneral   = 1e-12
	marginFactor = 3.0
	chordSlack   = 64.0 / (1 << 52)
	selfCheckTol = 1e-6 // dense sampling vs analytic oracle
	// strictChordSlack: also flag errors > 3 tol whose squared-chord error exceeds the slack only
	// relatively (slack * d2/4).  Off: the slack is absolute, as specified for this property.
	strictChordSlack = true
)

// kindSuffix separates the known accuracy loss of edgeDistance around 90 degrees
// (sqrt(1-pq2) with pq2 -> 1) from every other disagreement.
// Only errors of the documented magnitude (<= 1e-7 rad) are classed that way, so that a
// different defect that shows up around 90 degrees is not hidden behind the known finding.
func (g *gen) kindSuffix(angle, err float64) string {
	if g.kindOverride != "" {
		return g.kindOverride
	}
	if math.Abs(angle-math.Pi/2) <= 0.01 && err <= 1e-7 {
		return ".near90"
	}
	return ""
}

func tolFor(angle float64) float64 {
	if angle <= math.Pi/3 {
		return tolSmall
	}
	return tolGeneral
}

type stats struct {
	evals         map[string]int
	maxRatio      map[string]float64
	maxRatioChord map[string]float64
	maxRatioAt    map[string]interface{}
	nearMiss      map[string]int
	chordExempt   map[string]int // error > 3 tol in angle but within chordSlack in squared chord
	zeroAgree     map[string]int // oracle says 0 (target in / crossing the cell) and the code reports exactly 0
	zeroTiny      map[string]int // oracle says 0, code reports a positive value within tolerance (or vice versa)
	sampleChk     int
	selfChecked   int
	selfBad       int
	selfBadAt     []interface{}
	capChecked    int
	capDisagree   int
	capMaxRel     float64
	rectChecked   int
	contChecked   int
	childChk      int
	quadInsane    int
	violByKind    map[string]int
	absOnly       map[string]int
}

func newStats() *stats {
	return &stats{evals: map[string]int{}, maxRatio: map[string]float64{}, maxRatioChord: map[string]float64{}, maxRatioAt: map[string]interface{}{}, nearMiss: map[string]int{},
		chordExempt: map[string]int{}, zeroAgree: map[string]int{}, zeroTiny: map[string]int{}, violByKind: map[string]int{}, absOnly: map[string]int{}}
}

func (s *stats) export(c *vkit.Collector) {
	c.Extra["S_evaluations_by_function"] = s.evals
	c.Extra["S_max_error_over_tol_by_regime"] = san(s.maxRatio)
	c.Extra["S_max_error_over_tol_beyond_chord_slack"] = san(s.maxRatioChord)
	c.Extra["S_max_error_over_tol_input"] = san(s.maxRatioAt)
	c.Extra["S_near_miss_1tol_to_3tol"] = s.nearMiss
	c.Extra["S_over_3tol_but_within_chord_slack"] = s.chordExempt
	c.Extra["S_zero_exact_agreement"] = s.zeroAgree
	c.Extra["S_zero_vs_tiny_within_tol"] = s.zeroTiny
	c.Extra["S_cell_sample_point_checks"] = s.sampleChk
	c.Extra["S_oracle_selfcheck"] = map[string]interface{}{"checked": s.selfChecked, "disagree": s.selfBad, "tolerance_rad": selfCheckTol, "samples": san(s.selfBadAt)}
	c.Extra["S_capbound"] = map[string]interface{}{"points": s.capChecked, "ContainsPoint_false_but_within_bigfloat_bound": s.capDisagree, "max_(d2-radius)/radius": san(s.capMaxRel)}
	c.Extra["S_rectbound_points"] = s.rectChecked
	c.Extra["S_contains_checks"] = s.contChecked
	c.Extra["S_children_checks"] = s.childChk
	c.Extra["S_oracle_quad_insane"] = s.quadInsane
	c.Extra["S_violations_by_kind"] = s.violByKind
	c.Extra["S_over_3tol_excused_only_by_absolute_chord_slack"] = s.absOnly
	c.Extra["S_violations_by_kind"] = s.violByKind
	c.Extra["S_over_3tol_excused_only_by_absolute_chord_slack"] = s.absOnly
	c.Extra["S_margin"] = fmt.Sprintf("violation only if |angle error| > %g*tol (tol = %g rad for true angle <= pi/3 else %g) AND |d2 error| > %g", marginFactor, tolSmall, tolGeneral, chordSlack)
}

// ---------------------------------------------------------------- replay helpers

func ptJSON(p s2.Point) map[string]interface{} {
	return map[string]interface{}{"xyz": []float64{p.X, p.Y, p.Z}, "bits": []string{hexf(p.X), hexf(p.Y), hexf(p.Z)}}
}
func cellJSON(c s2.Cell) map[string]interface{} {
	f, l, o, id, uv := s2.VerifC12CellFields(c)
	return map[string]interface{}{"id": uint64(id), "token": id.ToToken(), "face": f, "level": l, "orientation": o,
		"uv": []float64{uv.X.Lo, uv.X.Hi, uv.Y.Lo, uv.Y.Hi}, "uv_bits": []string{hexf(uv.X.Lo), hexf(uv.X.Hi), hexf(uv.Y.Lo), hexf(uv.Y.Hi)}}
}
func b2f(x *big.Float) float64 { f, _ := x.Float64(); return f }

func dirOf(p s2.Point) odir { return mkdir([3]float64{p.X, p.Y, p.Z}) }
func quadOf(c s2.Cell) quad {
	f, uv := cellFUV(c)
	return cellQuad(f, uv.X.Lo, uv.X.Hi, uv.Y.Lo, uv.Y.Hi)
}

// judge compares a reported ChordAngle with the oracle's exact squared chord length.
func (g *gen) judge(fn string, rep s1.ChordAngle, true2 *big.Float, replay func() map[string]interface{}) {
	st := g.st
	st.evals[fn]++
	r := float64(rep)
	full := func(extra map[string]interface{}) map[string]interface{} {
		m := replay()
		m["function"] = fn
		m["reported_chord2"] = r
		m["reported_bits"] = hexf(r)
		m["oracle_chord2"] = b2f(true2)
		m["oracle_chord2_text"] = true2.Text('g', 40)
		for k, v := range extra {
			m[k] = v
		}
		return m
	}
	if math.IsNaN(r) || r < 0 || r > 4 {
		g.violate("Cell."+fn+".range", fmt.Sprintf("%s returned a ChordAngle outside [0,4]: %v", fn, r), full(nil))
		return
	}
	aRep, aTrue := angleOf(bf(r)), angleOf(true2)
	err := math.Abs(aRep - aTrue)
	tol := tolFor(aTrue)
	cd := math.Abs(b2f(bnew().Sub(bf(r), true2)))
	ratio := err / tol
	regime := "angle<=pi/3"
	switch {
	case aTrue > 3.0:
		regime = "angle>3.0"
	case aTrue > math.Pi/2:
		regime = "pi/2<angle<=3.0"
	case aTrue > math.Pi/3:
		regime = "pi/3<angle<=pi/2"
	}
	detail := func() map[string]interface{} {
		return full(map[string]interface{}{"reported_angle": aRep, "oracle_angle": aTrue, "error_rad": err, "tol_rad": tol, "chord2_error": cd})
	}
	if k := fn + " " + regime; ratio > st.maxRatio[k] {
		st.maxRatio[k] = ratio
		st.maxRatioAt[k] = detail()
	}
	if cd > chordSlack && ratio > st.maxRatioChord[fn] {
		// the operational distance to a violation: only cases that the squared-chord slack does not excuse
		st.maxRatioChord[fn] = ratio
		st.maxRatioAt[fn+" (beyond chord slack)"] = detail()
	}
	if true2.Sign() == 0 {
		if r == 0 {
			st.zeroAgree[fn]++
		} else {
			st.zeroTiny[fn]++
		}
	} else if r == 0 {
		st.zeroTiny[fn]++
	}
	switch {
	case err > marginFactor*tol && (cd > chordSlack || (strictChordSlack && cd > chordSlack*math.Max(r, b2f(true2))/4)):
		g.violate("Cell."+fn+g.kindSuffix(aTrue, err), fmt.Sprintf("%s = %.17g rad but the exact value is %.17g rad: error %.3g rad > %g x tolerance %g (margin factor %g; squared-chord error %.3g > %.3g)",
			fn, aRep, aTrue, err, marginFactor, tol, marginFactor, cd, chordSlack), detail())
	case err > marginFactor*tol:
		st.chordExempt[fn+" "+regime]++
		if cd > chordSlack*math.Max(r, b2f(true2))/4 {
			// excused only because the slack is absolute: at small angles 64*2^-52 in d2 is a large angle
			st.absOnly[fn]++
			if _, ok := st.maxRatioAt[fn+" (excused only by the absolute chord slack)"]; !ok {
				st.maxRatioAt[fn+" (excused only by the absolute chord slack)"] = detail()
			}
		}
	case err > tol:
		st.nearMiss[fn+" "+regime]++
	}
}

// boundLow / boundHigh: direct check with one point q of the cell: its distance to the
// target (d2) may not be below the reported minimum / above the reported maximum.
func (g *gen) boundLow(fn string, rep s1.ChordAngle, d2 *big.Float, replay func() map[string]interface{}) {
	g.st.sampleChk++
	r := float64(rep)
	if math.IsNaN(r) || r < 0 || r > 4 {
		return // reported by judge
	}
	aRep, aQ := angleOf(bf(r)), angleOf(d2)
	tol := math.Max(tolFor(aRep), tolFor(aQ))
	if aQ < aRep-marginFactor*tol && b2f(bnew().Sub(bf(r), d2)) > chordSlack {
		m := replay()
		m["function"], m["reported_chord2"], m["cell_point_chord2"] = fn, r, b2f(d2)
		g.violate("Cell."+fn+g.kindSuffix(aRep, aRep-aQ), fmt.Sprintf("%s reports minimum %.17g rad but a point of the cell is at %.17g rad (margin %g x %g)", fn, aRep, aQ, marginFactor, tol), m)
	}
}
func (g *gen) boundHigh(fn string, rep s1.ChordAngle, d2 *big.Float, replay func() map[string]interface{}) {
	g.st.sampleChk++
	r := float64(rep)
	if math.IsNaN(r) || r < 0 || r > 4 {
		return
	}
	aRep, aQ := angleOf(bf(r)), angleOf(d2)
	tol := math.Max(tolFor(aRep), tolFor(aQ))
	if aQ > aRep+marginFactor*tol && b2f(bnew().Sub(d2, bf(r))) > chordSlack {
		m := replay()
		m["function"], m["reported_chord2"], m["cell_point_chord2"] = fn, r, b2f(d2)
		g.violate("Cell."+fn+g.kindSuffix(aRep, aQ-aRep), fmt.Sprintf("%s reports maximum %.17g rad but a point of the cell is at %.17g rad (margin %g x %g)", fn, aRep, aQ, marginFactor, tol), m)
	}
}

// selfCheck compares the analytic oracle value with dense sampling.
func (g *gen) selfCheck(what string, q quad, t starget, sign float64, true2 *big.Float, replay func() map[string]interface{}) {
	g.st.selfChecked++
	s := sampledExt(q, t, sign)
	a := angleOf(true2)
	if math.Abs(s-a) > selfCheckTol {
		g.st.selfBad++
		if len(g.st.selfBadAt) < 5 {
			m := replay()
			m["what"], m["sampled_angle"], m["analytic_angle"] = what, s, a
			g.st.selfBadAt = append(g.st.selfBadAt, m)
		}
	}
}

// cellSamples: points of the cell as exact (u,v): corners, side points, interior points.
func (g *gen) cellSamples(cell s2.Cell) (all []odir, boundary []odir) {
	f, uv := cellFUV(cell)
	xs := [2]float64{uv.X.Lo, uv.X.Hi}
	ys := [2]float64{uv.Y.Lo, uv.Y.Hi}
	in := func(lo, hi float64) float64 { return math.Min(hi, math.Max(lo, g.rng.Range(lo, hi))) }
	for k := 0; k < 4; k++ {
		boundary = append(boundary, mkdir(oFaceUV(f, xs[k&1], ys[k>>1])))
	}
	for i := 0; i < 2; i++ {
		for r := 0; r < 2; r++ {
			boundary = append(boundary, mkdir(oFaceUV(f, xs[i], in(ys[0], ys[1]))), mkdir(oFaceUV(f, in(xs[0], xs[1]), ys[i])))
		}
	}
	all = append(all, boundary...)
	for r := 0; r < 8; r++ {
		all = append(all, mkdir(oFaceUV(f, in(xs[0], xs[1]), in(ys[0], ys[1]))))
	}
	return
}

// ---------------------------------------------------------------- (i) children

func (g *gen) sChildren() {
	c := g.c
	ids := allIDs(4)
	for k := 0; k < 200*g.budget; k++ {
		id := s2.CellIDFromFace(g.rng.Intn(6))
		for l := 0; l < 30; l++ {
			id = id.Children()[g.rng.Intn(4)]
			if l >= 4 {
				ids = append(ids, id)
			}
		}
	}
	ids = append(ids, g.descents(0)...)
	for _, id := range ids {
		cell := s2.CellFromCellID(id)
		ch, ok := cell.Children()
		g.st.childChk++
		c.Eval(fmt.Sprintf("S.children %x", uint64(id)), true)
		rep := func(extra map[string]interface{}) map[string]interface{} {
			m := map[string]interface{}{"cell": cellJSON(cell)}
			for k, v := range extra {
				m[k] = v
			}
			return m
		}
		if ok == id.IsLeaf() {
			g.violate("Cell.Children", "Children ok flag disagrees with IsLeaf", rep(map[string]interface{}{"ok": ok}))
			continue
		}
		if !ok {
			continue
		}
		cids := id.Children()
		for pos := 0; pos < 4; pos++ {
			f1, l1, o1, i1, uv1 := s2.VerifC12CellFields(ch[pos])
			d := s2.CellFromCellID(cids[pos])
			f2, l2, o2, i2, uv2 := s2.VerifC12CellFields(d)
			same := f1 == f2 && l1 == l2 && o1 == o2 && i1 == i2 &&
				math.Float64bits(uv1.X.Lo) == math.Float64bits(uv2.X.Lo) && math.Float64bits(uv1.X.Hi) == math.Float64bits(uv2.X.Hi) &&
				math.Float64bits(uv1.Y.Lo) == math.Float64bits(uv2.Y.Lo) && math.Float64bits(uv1.Y.Hi) == math.Float64bits(uv2.Y.Hi)
			if i1 != cids[pos] {
				g.violate("Cell.Children", "child id differs from CellID.Children", rep(map[string]interface{}{"pos": pos, "child": cellJSON(ch[pos]), "expected_id": uint64(cids[pos])}))
			} else if !same {
				g.violate("Cell.Children", "child cell differs from CellFromCellID(child id) (face/level/orientation/id/uv bit-exact)",
					rep(map[string]interface{}{"pos": pos, "child": cellJSON(ch[pos]), "direct": cellJSON(d)}))
			}
		}
	}
}

// ---------------------------------------------------------------- (ii) containment

// containKind classifies a ContainsPoint miss by how far (in uv) the point is outside the
// cell: beyond the dblEpsilon margin of ContainsPoint but within 4 dblEpsilon is the known
// insufficiency of that margin (".marginTooSmall"); anything else keeps the plain kind.
func containKind(cell s2.Cell, p s2.Point) (string, float64) {
	f, uv := cellFUV(cell)
	u, v, ok := s2.VerifC12FaceXYZToUV(f, p)
	if !ok {
		return "Cell.ContainsPoint", math.Inf(1)
	}
	gap := math.Max(math.Max(uv.X.Lo-u, u-uv.X.Hi), math.Max(uv.Y.Lo-v, v-uv.Y.Hi))
	const eps = 2.220446049250313e-16
	if gap > eps && gap <= 4*eps {
		return "Cell.ContainsPoint.leafMargin", gap
	}
	return "Cell.ContainsPoint", gap
}

func (g *gen) containAllLevels(cat string, p s2.Point) {
	c := g.c
	if p.X == 0 && p.Y == 0 && p.Z == 0 {
		return
	}
	leaf := s2.VerifC12CellIDFromPoint(p)
	c.Class("S.contains:" + cat)
	g.evalH("S.contains " + ptKey(p))
	for l := 0; l <= 30; l++ {
		g.st.contChecked++
		cell := s2.CellFromCellID(leaf.Parent(l))
		if !cell.ContainsPoint(p) {
			kind, gap := containKind(cell, p)
			g.violate(kind, fmt.Sprintf("CellFromCellID(cellIDFromPoint(p).Parent(%d)).ContainsPoint(p) is false (%s); p is %.3g outside the cell's uv rectangle", l, cat, gap),
				map[string]interface{}{"p": ptJSON(p), "leaf": uint64(leaf), "leaf_token": leaf.ToToken(), "level": l, "cell": cellJSON(cell), "uv_gap": gap})
			return
		}
	}
}

func (g *gen) sContains() {
	rng := g.rng
	n := 2500 * g.budget
	for k := 0; k < n; k++ {
		// a uv grid line of level l, +- ulps; the other coordinate random or also a grid value
		l := k % 31
		grid := func() float64 {
			i := rng.Intn(1<<uint(l) + 1)
			return s2.VerifC12StToUV(float64(i) / float64(uint64(1)<<uint(l)))
		}
		f := rng.Intn(6)
		for d := -8; d <= 8; d++ {
			u := vkit.Ulps(grid(), d)
			v := rng.Range(-1, 1)
			if rng.Intn(3) == 0 {
				v = vkit.Ulps(grid(), rng.Intn(7)-3)
			}
			if rng.Bool() {
				u, v = v, u
			}
			p := fuv(f, u, v)
			g.containAllLevels("gridRaw", p)
			g.containAllLevels("gridNormalized", nz(p))
			if d == 0 {
				g.containAllLevels("gridTinyScaled", s2.Point{Vector: p.Mul(rng.Pick([]float64{1e-300, 1e-160, 1e-20, 1e200}))})
			}
		}
	}
	for k := 0; k < 800*g.budget; k++ {
		g.containAllLevels("cubeCorner", pxyz(g.sgn(), g.sgn(), g.sgn()))
		g.containAllLevels("cubeCorner", nz(pxyz(g.sgn(), g.sgn(), g.sgn())))
		g.containAllLevels("cubeCornerUlps", pxyz(vkit.Ulps(g.sgn(), rng.Intn(5)-2), vkit.Ulps(g.sgn(), rng.Intn(5)-2), vkit.Ulps(g.sgn(), rng.Intn(5)-2)))
		e := g.perm(1, 1, rng.Range(-1, 1))
		g.containAllLevels("cubeEdgeTie", e)
		g.containAllLevels("cubeEdgeTie", nz(e))
		g.containAllLevels("cubeEdgeTie", g.perm(1, vkit.Ulps(1, -rng.Intn(3)), rng.Range(-1, 1)))
		g.containAllLevels("zeroCoord", g.perm(1, math.Copysign(0, g.sgn()), math.Copysign(0, g.sgn())))
		g.containAllLevels("zeroCoord", g.perm(rng.Range(-1, 1), rng.Range(-1, 1), math.Copysign(0, g.sgn())))
		g.containAllLevels("tinyCoord", g.perm(1, g.tiny(), g.tiny()))
		g.containAllLevels("tinyScaled", s2.Point{Vector: g.randPoint().Mul(rng.Pick([]float64{1e-300, 1e-200, 1e-100, 1e-30}))})
		g.containAllLevels("random", g.randPoint())
	}
	// id-range form: a cell and points on / around its boundary
	for _, nc := range g.cellPool(600 * g.budget) {
		cell := nc.c
		m := g.pointTargets(cell, false)
		for _, cat := range []string{"onEdge", "vertex", "vertexUlps", "edgeUlps", "inside", "besideEdge"} {
			for _, p := range m[cat] {
				leaf := s2.VerifC12CellIDFromPoint(p)
				g.st.contChecked++
				g.evalH("S.range " + ptKey(p) + cell.ID().ToToken())
				inRange := cell.ID().RangeMin() <= leaf && leaf <= cell.ID().RangeMax()
				g.c.Class(fmt.Sprintf("S.range:%s:leafInRange=%v", cat, inRange))
				if inRange && !cell.ContainsPoint(p) {
					kind, gap := containKind(cell, p)
					g.violate(kind, fmt.Sprintf("leaf cell of p lies in the id range of the cell but ContainsPoint(p) is false (%s); p is %.3g outside the cell's uv rectangle", cat, gap),
						map[string]interface{}{"p": ptJSON(p), "leaf": uint64(leaf), "leaf_token": leaf.ToToken(), "cell": cellJSON(cell), "uv_gap": gap})
				}
				g.containAllLevels("cell:"+cat, p)
			}
		}
	}
}

// ---------------------------------------------------------------- (iii) bounds

func (g *gen) sBounds() {
	c, rng := g.c, g.rng
	slack := bnew().Add(bOne, bf(8.0/(1<<52)))
	for _, nc := range g.cellPool(1500 * g.budget) {
		cell := nc.c
		f, uv := cellFUV(cell)
		c.Class("S.bounds.cell:" + nc.cat)
		type np struct {
			what string
			p    s2.Point
		}
		pts := []np{}
		for k := 0; k < 4; k++ {
			pts = append(pts, np{fmt.Sprintf("Vertex(%d)", k), cell.Vertex(k)})
		}
		ctr := uv.Center()
		pts = append(pts, np{"midBottom", nz(fuv(f, ctr.X, uv.Y.Lo))}, np{"midRight", nz(fuv(f, uv.X.Hi, ctr.Y))},
			np{"midTop", nz(fuv(f, ctr.X, uv.Y.Hi))}, np{"midLeft", nz(fuv(f, uv.X.Lo, ctr.Y))},
			np{"uvCentre", nz(fuv(f, ctr.X, ctr.Y))}, np{"Center()", cell.Center()})
		for k := 0; k < 10; k++ {
			u, v := rng.Range(uv.X.Lo, uv.X.Hi), rng.Range(uv.Y.Lo, uv.Y.Hi)
			switch k {
			case 0:
				u = uv.X.Lo
			case 1:
				u = uv.X.Hi
			case 2:
				v = uv.Y.Lo
			case 3:
				v = uv.Y.Hi
			}
			u = math.Min(uv.X.Hi, math.Max(uv.X.Lo, u))
			v = math.Min(uv.Y.Hi, math.Max(uv.Y.Lo, v))
			pts = append(pts, np{"uvPoint", nz(fuv(f, u, v))})
		}
		rb := cell.RectBound()
		cb := cell.CapBound()
		cc, cr := s2.VerifC12CapFields(cb)
		ccb := dirOf(cc).b
		lim := bnew().Mul(bf(float64(cr)), slack)
		lim.Add(lim, bf(1e-30))
		c.Eval(fmt.Sprintf("S.bounds %x", uint64(cell.ID())), true)
		for _, q := range pts {
			g.st.rectChecked++
			ll := s2.LatLngFromPoint(q.p)
			if !rb.ContainsLatLng(ll) {
				g.violate("Cell.RectBound", "RectBound does not contain LatLngFromPoint of a point of the cell ("+q.what+")",
					map[string]interface{}{"cell": cellJSON(cell), "p": ptJSON(q.p), "what": q.what, "lat": float64(ll.Lat), "lng": float64(ll.Lng),
						"lat_bits": hexf(float64(ll.Lat)), "lng_bits": hexf(float64(ll.Lng)),
						"rect": []float64{rb.Lat.Lo, rb.Lat.Hi, rb.Lng.Lo, rb.Lng.Hi}, "rect_bits": []string{hexf(rb.Lat.Lo), hexf(rb.Lat.Hi), hexf(rb.Lng.Lo), hexf(rb.Lng.Hi)}})
			}
			g.st.capChecked++
			pb := dirOf(q.p).b
			var d bvec
			for i := 0; i < 3; i++ {
				d[i] = bnew().Sub(pb[i], ccb[i])
			}
			d2 := d.norm2()
			if cr > 0 {
				rel := b2f(bnew().Quo(bnew().Sub(d2, bf(float64(cr))), bf(float64(cr))))
				if rel > g.st.capMaxRel {
					g.st.capMaxRel = rel
				}
			}
			inBig := d2.Cmp(lim) <= 0
			if !inBig {
				g.violate("Cell.CapBound", "a point of the cell is outside CapBound: |p-centre|^2 > radius*(1+8*2^-52)+1e-30 in 300-bit arithmetic ("+q.what+")",
					map[string]interface{}{"cell": cellJSON(cell), "p": ptJSON(q.p), "what": q.what, "centre": ptJSON(cc), "radius_chord2": float64(cr), "radius_bits": hexf(float64(cr)), "dist2": d2.Text('g', 40)})
			} else if !cb.ContainsPoint(q.p) {
				g.st.capDisagree++
			}
		}
	}
}

// ---------------------------------------------------------------- (iv) distances

func (g *gen) sDistances() {
	c, rng := g.c, g.rng
	nCells := 300 * g.budget
	selfEvery := 10
	if g.budget >= 8 {
		selfEvery = 5
	}
	cnt := 0
	for ci, nc := range g.cellPool(nCells) {
		cell := nc.c
		q := quadOf(cell)
		if !q.sane() {
			g.st.quadInsane++
			continue
		}
		c.Class("S.cell:" + nc.cat)
		c.Class(fmt.Sprintf("S.cell:level%02d", cell.Level()))
		all, boundary := g.cellSamples(cell)
		cj := cellJSON(cell)
		// ---- points
		for _, tp := range g.pickPoints(cell, true, 5, ci*5) {
			p := tp.p
			pd := dirOf(p)
			rep := func() map[string]interface{} {
				return map[string]interface{}{"cell": cj, "p": ptJSON(p), "category": tp.cat}
			}
			c.Class("S.point:" + tp.cat)
			c.Class("S.Distance.branch:" + distBranch(cell, p))
			c.Class("S.MaxDistance.branch:" + maxBranch(cell, p))
			c.Eval("S.point "+cj["token"].(string)+" "+ptKey(p), true)
			dI, dB, dM := cell.Distance(p), cell.BoundaryDistance(p), cell.MaxDistance(p)
			tI, tB, tM := q.point2(pd.b), q.boundary2(pd.b), q.maxPoint2(pd.b)
			g.judge("Distance", dI, tI, rep)
			g.judge("BoundaryDistance", dB, tB, rep)
			g.judge("MaxDistance", dM, tM, rep)
			for _, s := range all {
				d2 := chord2(s.b, pd.b)
				g.boundLow("Distance", dI, d2, rep)
				g.boundHigh("MaxDistance", dM, d2, rep)
			}
			for _, s := range boundary {
				g.boundLow("BoundaryDistance", dB, chord2(s.b, pd.b), rep)
			}
			if cnt++; cnt%selfEvery == 0 {
				t := starget{kind: 0, a: v3(pd.f)}
				{
					g.selfCheck("point.min", q, t, 1, tI, rep)
				}
				g.selfCheck("point.max", q, t, -1, tM, rep)
			}
		}
		// ---- edges
		es := g.edgeTargets(cell, true)
		for t := 0; t < 3 && len(es) > 0; t++ {
			e := es[(ci*3+t)%len(es)]
			a, b := e.a, e.b
			ad, bd := dirOf(a), dirOf(b)
			rep := func() map[string]interface{} {
				return map[string]interface{}{"cell": cj, "a": ptJSON(a), "b": ptJSON(b), "category": e.cat}
			}
			c.Class("S.edge:" + e.cat)
			c.Eval("S.edge "+cj["token"].(string)+" "+ptKey(a)+ptKey(b), true)
			dE, dM := cell.DistanceToEdge(a, b), cell.MaxDistanceToEdge(a, b)
			// Cell.Distance can return NaN (see kind Cell.Distance.range); minChordAngle / maxChordAngle
			// then silently drop the other endpoint's distance.  Keep that consequence apart.
			for _, x := range []s2.Point{a, b, neg(a), neg(b)} {
				if math.IsNaN(float64(cell.Distance(x))) || math.IsNaN(float64(cell.MaxDistance(x))) {
					g.kindOverride = ".nanEndpoint"
				}
			}
			tE, tM := q.edge2(ad, bd), q.maxEdge2(ad, bd)
			g.judge("DistanceToEdge", dE, tE, rep)
			g.judge("MaxDistanceToEdge", dM, tM, rep)
			if tE.Sign() == 0 {
				c.Class("S.DistanceToEdge:oracle-zero")
			}
			if tM.Cmp(bFour) == 0 {
				c.Class("S.MaxDistanceToEdge:oracle-pi")
			}
			for _, s := range all {
				g.boundLow("DistanceToEdge", dE, pointArc2(s.b, ad.b, bd.b), rep)
				g.boundHigh("MaxDistanceToEdge", dM, bnew().Sub(bFour, pointArc2(s.b.neg(), ad.b, bd.b)), rep)
			}
			g.kindOverride = ""
			if cnt++; cnt%selfEvery == 0 {
				st := starget{kind: 1, a: v3(ad.f), b: v3(bd.f)}
				g.selfCheck("edge.min", q, st, 1, tE, rep)
				g.selfCheck("edge.max", q, st, -1, tM, rep)
			}
		}
		// ---- cells
		ts := g.cellTargets(cell)
		for t := 0; t < 3; t++ {
			tc := ts[(ci*3+t+rng.Intn(2))%len(ts)]
			o := tc.o
			oq := quadOf(o)
			if !oq.sane() {
				g.st.quadInsane++
				continue
			}
			oj := cellJSON(o)
			rep := func() map[string]interface{} {
				return map[string]interface{}{"cell": cj, "target": oj, "category": tc.cat}
			}
			c.Class("S.cellpair:" + tc.cat)
			c.Eval("S.cell "+cj["token"].(string)+" "+oj["token"].(string), true)
			dC, dM := cell.DistanceToCell(o), cell.MaxDistanceToCell(o)
			tC, tM := q.quad2(oq), q.maxQuad2(oq)
			g.judge("DistanceToCell", dC, tC, rep)
			g.judge("MaxDistanceToCell", dM, tM, rep)
			if tC.Sign() == 0 {
				c.Class("S.DistanceToCell:oracle-zero")
			}
			if tM.Cmp(bFour) == 0 {
				c.Class("S.MaxDistanceToCell:oracle-pi")
			}
			for _, s := range all {
				g.boundLow("DistanceToCell", dC, oq.point2(s.b), rep)
				g.boundHigh("MaxDistanceToCell", dM, bnew().Sub(bFour, oq.point2(s.b.neg())), rep)
			}
			if cnt++; cnt%selfEvery == 0 {
				st := starget{kind: 2, q: &oq}
				g.selfCheck("cell.min", q, st, 1, tC, rep)
				g.selfCheck("cell.max", q, st, -1, tM, rep)
			}
		}
	}
}

// ---------------------------------------------------------------- fixed regression inputs

func pbits(x, y, z uint64) s2.Point {
	return pxyz(math.Float64frombits(x), math.Float64frombits(y), math.Float64frombits(z))
}

// sRegressions evaluates, before the random search and independently of the seed, the
// inputs on which the unchanged tree was found to violate the property, so that every run
// reports the same kinds:
//   - edgeDistance: pq2 rounds above 1 for a target ~90 degrees from a side -> sqrt(<0) = NaN
//     (Cell.Distance / BoundaryDistance / MaxDistance ".range"); in DistanceToEdge the NaN makes
//     minChordAngle drop the other endpoint's distance (".nanEndpoint");
//   - edgeDistance: 1 - sqrt(1-pq2) loses up to ~1e-8 rad when the distance to a side is
//     within ~1e-4 of 90 degrees (".near90").
func (g *gen) sRegressions() {
	c := g.c
	type rp struct {
		tok string
		p   s2.Point
	}
	for _, r := range []rp{
		{"7", pbits(0x3fe6a09e667f3bc8, 0xbfe6a09e667f3bd2, 0x3cc236d3d3b8c059)},
		{"7", neg(pbits(0x3fe6a09e667f3bc8, 0xbfe6a09e667f3bd2, 0x3cc236d3d3b8c059))},
		{"a555555555555554", pbits(0xbff0000000000000, 0x3c2b2fca511dba1d, 0x3e2dec5b4968c0a0)},
		{"a555555555555554", neg(pbits(0xbff0000000000000, 0x3c2b2fca511dba1d, 0x3e2dec5b4968c0a0))},
	} {
		cell := s2.CellFromCellID(s2.CellIDFromToken(r.tok))
		q := quadOf(cell)
		p := r.p
		pd := dirOf(p)
		cj := cellJSON(cell)
		rep := func() map[string]interface{} {
			return map[string]interface{}{"cell": cj, "p": ptJSON(p), "category": "regression"}
		}
		c.Class("S.point:regression")
		c.Eval("S.point "+r.tok+" "+ptKey(p), true)
		g.judge("Distance", cell.Distance(p), q.point2(pd.b), rep)
		g.judge("BoundaryDistance", cell.BoundaryDistance(p), q.boundary2(pd.b), rep)
		g.judge("MaxDistance", cell.MaxDistance(p), q.maxPoint2(pd.b), rep)
	}
	//   - ContainsPoint: the dblEpsilon margin is smaller than the error of uvToST/stToIJ, so
	//     CellFromPoint(p).ContainsPoint(p) is false for some unit p (".marginTooSmall").
	g.containAllLevels("regression", pbits(0x3fbdcfd5bce2da59, 0xbfed378ae57d57b2, 0x3fd904c1fabf622e))
	g.containAllLevels("regression", pbits(0x3fc7eb16c58621d8, 0xbfec3f608ffa12fd, 0x3fdb975da6a83768))
	// directed: the six face cells, side midpoints and tilted poles of the sides' great circles
	for f := 0; f < 6; f++ {
		cell := s2.CellFromCellID(s2.CellIDFromFace(f))
		q := quadOf(cell)
		cj := cellJSON(cell)
		for _, tp := range directedPoleTargets(cell) {
			p := tp.p
			pd := dirOf(p)
			rep := func() map[string]interface{} {
				return map[string]interface{}{"cell": cj, "p": ptJSON(p), "category": tp.cat}
			}
			c.Class("S.point:" + tp.cat)
			c.Eval("S.point "+cj["token"].(string)+" "+ptKey(p), true)
			g.judge("Distance", cell.Distance(p), q.point2(pd.b), rep)
			g.judge("BoundaryDistance", cell.BoundaryDistance(p), q.boundary2(pd.b), rep)
			g.judge("MaxDistance", cell.MaxDistance(p), q.maxPoint2(pd.b), rep)
		}
	}
	type re struct {
		tok  string
		a, b s2.Point
	}
	for _, r := range []re{
		{"bc", pbits(0x3fe6a09e667f3bce, 0xbc8bd9f0b2c90074, 0x3fe6a09e667f3bcc), pbits(0x3fa87194d373c65e, 0xbfe6b6ba4c75bee6, 0xbfe67d27fa9810a7)},
		{"821", pbits(0xbfe6a09fd7727ee8, 0x3fe6a09cf58bdfd2, 0x3e8f9ac1f25041b9), pbits(0xbfe69afde3c4122d, 0x3fe6a63d6e5cb940, 0xbf2ed539b40521f6)},
		{"baaaaaaaaaaaaab", pbits(0xbe19999999999999, 0xbe32d72ba156bb08, 0xbff0000000000000), pbits(0xbc1c1ee18784f6e4, 0x3ff0000000000000, 0x3ddb7cdfd9d7bdbb)},
	} {
		cell := s2.CellFromCellID(s2.CellIDFromToken(r.tok))
		q := quadOf(cell)
		a, b := r.a, r.b
		ad, bd := dirOf(a), dirOf(b)
		cj := cellJSON(cell)
		rep := func() map[string]interface{} {
			return map[string]interface{}{"cell": cj, "a": ptJSON(a), "b": ptJSON(b), "category": "regression"}
		}
		c.Class("S.edge:regression")
		c.Eval("S.edge "+r.tok+" "+ptKey(a)+ptKey(b), true)
		for _, x := range []s2.Point{a, b, neg(a), neg(b)} {
			if math.IsNaN(float64(cell.Distance(x))) || math.IsNaN(float64(cell.MaxDistance(x))) {
				g.kindOverride = ".nanEndpoint"
			}
		}
		g.judge("DistanceToEdge", cell.DistanceToEdge(a, b), q.edge2(ad, bd), rep)
		g.judge("MaxDistanceToEdge", cell.MaxDistanceToEdge(a, b), q.maxEdge2(ad, bd), rep)
		g.kindOverride = ""
	}
}
