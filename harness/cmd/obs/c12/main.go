// Observer C12: cell geometry (s2/cell.go and its leaves in cellid.go, stuv.go,
// edge_distances.go) — [T] bit-exact correspondence of the translated / hand-written Coq
// model with the running Go code, and [S] search on the real implementation against an
// independent 300-bit oracle (oracle.go, search.go).
package main

import (
	"fmt"
	"math"
	"os"
	"time"

	"github.com/golang/geo/r2"
	"github.com/golang/geo/r3"
	"github.com/golang/geo/s1"
	"github.com/golang/geo/s2"
	"verifharness/internal/vkit"
)

func main() {
	vkit.Main("C12", []string{"Gen.CellGeom", "Gen.CellRect", "Model.CellGeom"}, run)
}

type gen struct {
	c      *vkit.Collector
	rng    *vkit.Rng
	budget int
	st     *stats
	tcount map[string]int
	// kindOverride, when set, replaces the regime suffix of the violation kind
	kindOverride string
}

func run(c *vkit.Collector, rng *vkit.Rng, budget int) {
	// vkit.NewRng(seed) starts the Weyl sequence at seed*gamma, so consecutive seeds give the same
	// stream shifted by one draw (and the streams re-align after any rejection loop).  Re-seed
	// from the first, fully mixed, output so that different seeds explore unrelated inputs.
	rng = vkit.NewRng(rng.U64())
	g := &gen{c: c, rng: rng, budget: budget, st: newStats(), tcount: map[string]int{}}
	t0 := time.Now()
	phase := func(name string, f func()) {
		t := time.Now()
		f()
		fmt.Fprintf(os.Stderr, "c12: %-12s %v\n", name, time.Since(t).Round(time.Millisecond))
	}
	phase("T.ids", g.tIDs)
	phase("T.leaves", g.tLeaves)
	phase("T.cellpoint", g.tCellPoint)
	phase("T.edges", g.tEdges)
	phase("T.cells", g.tCells)
	t1 := time.Now()
	phase("S.regressions", g.sRegressions)
	phase("S.children", g.sChildren)
	phase("S.contains", g.sContains)
	phase("S.bounds", g.sBounds)
	phase("S.distances", g.sDistances)
	t2 := time.Now()
	c.Extra["T_cases_by_group"] = g.tcount
	g.st.export(c)
	fmt.Fprintf(os.Stderr, "c12: [T] %v (%d cases), [S] %v\n", t1.Sub(t0).Round(time.Millisecond), len(c.Cases), t2.Sub(t1).Round(time.Millisecond))
}

// ---------------------------------------------------------------- Coq terms

func ivT(lo, hi float64) string { return vkit.App("mk_r1_Interval", vkit.F(lo), vkit.F(hi)) }
func r2rectT(r r2.Rect) string {
	return vkit.App("mk_r2_Rect", ivT(r.X.Lo, r.X.Hi), ivT(r.Y.Lo, r.Y.Hi))
}
func r2ptT(p r2.Point) string { return vkit.App("mk_r2_Point", vkit.F(p.X), vkit.F(p.Y)) }
func cellT(c s2.Cell) string {
	f, l, o, id, uv := s2.VerifC12CellFields(c)
	return vkit.App("mk_s2_Cell", vkit.Z(int64(f)), vkit.Z(int64(l)), vkit.Z(int64(o)), vkit.U(uint64(id)), r2rectT(uv))
}
func vecT(v r3.Vector) string {
	return vkit.App("mk_r3_Vector", vkit.F(v.X), vkit.F(v.Y), vkit.F(v.Z))
}
func ptT(p s2.Point) string { return vkit.App("mk_s2_Point", vecT(p.Vector)) }
func capT(c s2.Cap) string {
	ctr, r := s2.VerifC12CapFields(c)
	return vkit.App("mk_s2_Cap", ptT(ctr), vkit.F(float64(r)))
}
func rectT(r s2.Rect) string {
	return vkit.App("mk_s2_Rect", ivT(r.Lat.Lo, r.Lat.Hi), vkit.App("mk_s1_Interval", vkit.F(r.Lng.Lo), vkit.F(r.Lng.Hi)))
}
func feq(term string, v float64) string { return vkit.App("fbiteq", term, vkit.F(v)) }
func beq(term string, v bool) string    { return vkit.App("Bool.eqb", term, vkit.B(v)) }
func zeq(term string, v int64) string   { return vkit.App("Z.eqb", term, vkit.Z(v)) }
func and(ts ...string) string {
	s := ts[0]
	for _, t := range ts[1:] {
		s += " && " + t
	}
	return "(" + s + ")"
}

// pairFB: (let '(d,ok) := TERM in fbiteq d D && Bool.eqb ok OK)
func pairFB(term string, d float64, ok bool) string {
	return "(let '(d_, ok_) := " + term + " in " + feq("d_", d) + " && " + beq("ok_", ok) + ")"
}

func (g *gen) check(group, label, term string) {
	g.tcount[group]++
	g.c.Check(group+" "+label, term)
}

// ---------------------------------------------------------------- small geometry helpers

func fuv(f int, u, v float64) s2.Point { return s2.VerifC12FaceUVToXYZ(f, u, v) }
func nz(p s2.Point) s2.Point           { return s2.Point{Vector: p.Normalize()} }
func neg(p s2.Point) s2.Point          { return s2.Point{Vector: p.Mul(-1)} }
func pxyz(x, y, z float64) s2.Point    { return s2.Point{Vector: r3.Vector{X: x, Y: y, Z: z}} }
func hexf(x float64) string            { return fmt.Sprintf("%016x", math.Float64bits(x)) }
func ptKey(p s2.Point) string          { return hexf(p.X) + hexf(p.Y) + hexf(p.Z) }
func cellFUV(c s2.Cell) (f int, uv r2.Rect) {
	f, _, _, _, uv = s2.VerifC12CellFields(c)
	return
}
func (g *gen) sgn() float64 {
	if g.rng.Bool() {
		return 1
	}
	return -1
}

// randPoint: uniform-ish random unit vector
func (g *gen) randPoint() s2.Point {
	for {
		x, y, z := g.rng.Range(-1, 1), g.rng.Range(-1, 1), g.rng.Range(-1, 1)
		if n := x*x + y*y + z*z; n > 0.01 && n <= 1 {
			return nz(pxyz(x, y, z))
		}
	}
}

// perm applies a random axis permutation and random signs
func (g *gen) perm(x, y, z float64) s2.Point {
	v := [3]float64{x * g.sgn(), y * g.sgn(), z * g.sgn()}
	k := g.rng.Intn(6)
	p := [6][3]int{{0, 1, 2}, {0, 2, 1}, {1, 0, 2}, {1, 2, 0}, {2, 0, 1}, {2, 1, 0}}[k]
	return pxyz(v[p[0]], v[p[1]], v[p[2]])
}

func (g *gen) tiny() float64 {
	return g.rng.Pick([]float64{0, 0, 1e-300, 5e-324, 1e-17, 1e-16, 1e-15, 1e-12, 1e-9, 1e-6, 1e-3})
}

// ---------------------------------------------------------------- cell pool

type ncell struct {
	cat string
	c   s2.Cell
}

func (g *gen) cellPool(n int) []ncell {
	out := []ncell{}
	add := func(cat string, id s2.CellID) {
		if id.IsValid() {
			out = append(out, ncell{cat, s2.CellFromCellID(id)})
		}
	}
	for f := 0; f < 6; f++ {
		add("face", s2.CellIDFromFace(f))
	}
	for k := 0; len(out) < n; k++ {
		lvl := (k*7 + 3) % 31
		if lvl == 0 {
			lvl = 1 + g.rng.Intn(30)
		}
		switch k % 9 {
		case 0, 1:
			add("random", s2.CellIDFromFacePosLevel(k%6, g.rng.U64()>>3, lvl))
		case 2: // touching a pole: the face centre of faces 2 / 5
			p := pxyz(g.tiny()*g.sgn(), g.tiny()*g.sgn(), g.sgn())
			add("pole", s2.VerifC12CellIDFromPoint(p).Parent(lvl))
		case 3: // touching the +-180 degree meridian (y = 0, x < 0)
			p := pxyz(-1, g.tiny()*g.sgn(), g.rng.Range(-0.99, 0.99))
			if g.rng.Intn(3) == 0 { // the part of the meridian on faces 2 / 5
				p = pxyz(-g.rng.Range(0.01, 0.99), g.tiny()*g.sgn(), g.sgn())
			}
			add("meridian180", s2.VerifC12CellIDFromPoint(p).Parent(lvl))
		case 4: // at a cube corner
			p := g.perm(1, 1-g.tiny(), 1-g.tiny())
			add("facecorner", s2.VerifC12CellIDFromPoint(p).Parent(lvl))
		case 5: // along a cube edge
			p := g.perm(1, 1-g.tiny(), g.rng.Range(-1, 1))
			add("faceedge", s2.VerifC12CellIDFromPoint(p).Parent(lvl))
		case 6: // face axes u = 0 / v = 0 (sign change of u+v in RectBound)
			p := g.perm(1, g.tiny(), g.rng.Range(-1, 1))
			add("faceaxis", s2.VerifC12CellIDFromPoint(p).Parent(lvl))
		case 7:
			add("leaf", s2.CellIDFromFacePosLevel(k%6, g.rng.U64()>>3, 30))
		case 8:
			add("level29", s2.CellIDFromFacePosLevel(k%6, g.rng.U64()>>3, 29))
		}
	}
	return out[:n]
}

// ---------------------------------------------------------------- point targets

type tpoint struct {
	cat string
	p   s2.Point
}

// pointTargets builds adversarial target points for a cell, grouped by category.
// unit: normalise every point (required by the distance API in [S]); in [T] the raw
// (unnormalised) variants are kept too.
func (g *gen) pointTargets(cell s2.Cell, unit bool) map[string][]s2.Point {
	f, uv := cellFUV(cell)
	rng := g.rng
	out := map[string][]s2.Point{}
	add := func(cat string, p s2.Point, alsoRaw bool) {
		if p.X == 0 && p.Y == 0 && p.Z == 0 {
			return
		}
		if math.IsNaN(p.X+p.Y+p.Z) || math.IsInf(p.X+p.Y+p.Z, 0) {
			return
		}
		out[cat] = append(out[cat], nz(p))
		if alsoRaw && !unit {
			out[cat] = append(out[cat], p)
		}
	}
	ur := func() float64 { return rng.Range(uv.X.Lo, uv.X.Hi) }
	vr := func() float64 { return rng.Range(uv.Y.Lo, uv.Y.Hi) }
	su, sv := uv.X.Hi-uv.X.Lo, uv.Y.Hi-uv.Y.Lo
	xs := [2]float64{uv.X.Lo, uv.X.Hi}
	ys := [2]float64{uv.Y.Lo, uv.Y.Hi}
	ul := func() int { return rng.Intn(7) - 3 }
	// 1. exactly on a side
	for i := 0; i < 2; i++ {
		add("onEdge", fuv(f, xs[i], vr()), true)
		add("onEdge", fuv(f, ur(), ys[i]), true)
	}
	// 2. vertices as the code computes them
	for k := 0; k < 4; k++ {
		add("vertex", cell.VertexRaw(k), true)
	}
	// 3. a few ulps around vertices / sides (in uv, and on the normalised vector)
	for k := 0; k < 4; k++ {
		add("vertexUlps", fuv(f, vkit.Ulps(xs[k&1], ul()), vkit.Ulps(ys[k>>1], ul())), true)
		v := cell.Vertex(k)
		add("vertexUlps", pxyz(vkit.Ulps(v.X, ul()), vkit.Ulps(v.Y, ul()), vkit.Ulps(v.Z, ul())), false)
	}
	for i := 0; i < 2; i++ {
		add("edgeUlps", fuv(f, vkit.Ulps(xs[i], ul()), vr()), true)
		add("edgeUlps", fuv(f, ur(), vkit.Ulps(ys[i], ul())), true)
	}
	// 4. just outside one side, abeam of it (closest point interior to that side)
	for i := 0; i < 2; i++ {
		d := rng.Pick([]float64{1e-12, 1e-6, 1e-2, 0.3, 2}) * (2*float64(i) - 1)
		add("besideEdge", fuv(f, xs[i]+d*su, vr()), false)
		add("besideEdge", fuv(f, ur(), ys[i]+d*sv), false)
		d = rng.Pick([]float64{0.5, 3, 40}) * (2*float64(i) - 1)
		add("besideEdgeFar", fuv(f, xs[i]+d*math.Max(su, 0.05), vr()), false)
		add("besideEdgeFar", fuv(f, ur(), ys[i]+d*math.Max(sv, 0.05)), false)
	}
	// 5. diagonally outside a corner (closest point is the vertex)
	for k := 0; k < 4; k++ {
		d1 := rng.Pick([]float64{1e-12, 1e-6, 1e-2, 0.3, 2})
		d2 := rng.Pick([]float64{1e-12, 1e-6, 1e-2, 0.3, 2})
		add("beyondCorner", fuv(f, xs[k&1]+d1*su*(2*float64(k&1)-1), ys[k>>1]+d2*sv*(2*float64(k>>1)-1)), false)
	}
	// 6. inside
	ctr := uv.Center()
	add("inside", fuv(f, ctr.X, ctr.Y), true)
	add("inside", cell.Center(), false)
	add("inside", fuv(f, ur(), vr()), true)
	// 7. cube corners, face centres, cube edges, zero coordinates
	add("cubeCorner", pxyz(g.sgn(), g.sgn(), g.sgn()), true)
	add("cubeCorner", pxyz(g.sgn(), g.sgn(), g.sgn()), true)
	add("faceCentre", g.perm(1, 0, 0), false)
	add("faceCentre", g.perm(1, 0, math.Copysign(0, -1)), false)
	add("cubeEdge", g.perm(1, 1, rng.Range(-1, 1)), true)
	add("cubeEdge", g.perm(1, 1, 0), true)
	add("zeroCoord", g.perm(rng.Range(-1, 1), rng.Range(-1, 1), math.Copysign(0, g.sgn())), true)
	add("zeroCoord", g.perm(1, g.tiny(), g.tiny()), true)
	// 8. antipodes (MaxDistance's second branch)
	add("antipodeInside", neg(cell.Center()), false)
	add("antipodeInside", neg(fuv(f, ur(), vr())), true)
	add("antipodeVertex", neg(cell.Vertex(rng.Intn(4))), false)
	add("antipodeVertex", neg(fuv(f, vkit.Ulps(xs[rng.Intn(2)], ul()), vkit.Ulps(ys[rng.Intn(2)], ul()))), true)
	for i := 0; i < 2; i++ {
		d := rng.Pick([]float64{0, 1e-12, 1e-6, 1e-2, 0.3, 2}) * (2*float64(i) - 1)
		add("antipodeBesideEdge", neg(fuv(f, xs[i]+d*su, vr())), false)
		add("antipodeBesideEdge", neg(fuv(f, ur(), ys[i]+d*sv)), false)
	}
	k := rng.Intn(4)
	add("antipodeBeyondCorner", neg(fuv(f, xs[k&1]+rng.Pick([]float64{1e-9, 0.1, 1})*su*(2*float64(k&1)-1), ys[k>>1]+rng.Pick([]float64{1e-9, 0.1, 1})*sv*(2*float64(k>>1)-1))), false)
	// 9. about 90 degrees from a vertex (threshold maxDist <= RightChordAngle)
	for i := 0; i < 3; i++ {
		v := cell.Vertex(rng.Intn(4))
		w := nz(s2.Point{Vector: v.Cross(g.randPoint().Vector)})
		e := rng.Pick([]float64{0, 1e-17, 1e-16, 1e-15, 1e-9, 1e-3}) * g.sgn()
		add("right90", s2.Point{Vector: w.Add(v.Mul(e))}, false)
	}
	// 9b. about 90 degrees from a whole side: the outward pole of the side's great circle,
	// tilted slightly towards / away from a point of the side (edgeDistance loses accuracy there)
	for i := 0; i < 2; i++ {
		k := rng.Intn(4)
		n := nz(neg(cell.EdgeRaw(k)))
		var m s2.Point
		if k&1 == 0 {
			m = nz(fuv(f, ur(), ys[k>>1]))
		} else {
			m = nz(fuv(f, xs[1-k>>1], vr()))
		}
		e := rng.Pick([]float64{0, 1e-15, 1e-12, 1e-9, 1e-6, 1e-3}) * g.sgn()
		add("poleOfSide", s2.Point{Vector: n.Add(m.Mul(e))}, false)
		add("antipodePoleOfSide", neg(s2.Point{Vector: n.Add(m.Mul(e))}), false)
	}
	// 10. the same (u,v) seen from the other faces, and random points
	of := (f + 1 + rng.Intn(5)) % 6
	add("otherFaceSameUV", fuv(of, ur(), vr()), false)
	add("otherFaceSameUV", fuv((f+3)%6, ctr.Y, ctr.X), false)
	add("random", g.randPoint(), false)
	add("random", g.randPoint(), false)
	c := cell.Center()
	add("randomNear", s2.Point{Vector: c.Add(g.randPoint().Mul(rng.Pick([]float64{1, 4, 30}) * math.Max(su, sv)))}, false)
	return out
}

var pointCats = []string{"onEdge", "vertex", "vertexUlps", "edgeUlps", "besideEdge", "besideEdgeFar", "beyondCorner", "inside",
	"cubeCorner", "faceCentre", "cubeEdge", "zeroCoord", "antipodeInside", "antipodeVertex", "antipodeBesideEdge",
	"antipodeBeyondCorner", "right90", "poleOfSide", "antipodePoleOfSide", "otherFaceSameUV", "random", "randomNear"}

// pickPoints: n targets, categories in rotation starting at offset
func (g *gen) pickPoints(cell s2.Cell, unit bool, n, offset int) []tpoint {
	m := g.pointTargets(cell, unit)
	out := []tpoint{}
	for t := 0; len(out) < n && t < 4*len(pointCats); t++ {
		cat := pointCats[(offset+t)%len(pointCats)]
		if ps := m[cat]; len(ps) > 0 {
			out = append(out, tpoint{cat, ps[g.rng.Intn(len(ps))]})
		}
	}
	return out
}

// directedPoleTargets: targets on which edgeDistance computes pq2 > 1 (sqrt of a negative
// number -> NaN): the midpoint of each side (it is 90 degrees from the great circle of the
// opposite side of a face cell) and the outward pole of each side's great circle tilted by
// eta towards the face normal, in (u,v,w): normalize(1, 0, -uHi+eta) for the right side etc.
func directedPoleTargets(cell s2.Cell) []tpoint {
	f, _ := cellFUV(cell)
	out := []tpoint{}
	for k := 0; k < 4; k++ {
		out = append(out, tpoint{"directed:sideMidpoint", nz(s2.Point{Vector: cell.Vertex(k).Add(cell.Vertex((k + 1) & 3).Vector)})})
	}
	w := fuv(f, 0, 0)
	for k := 0; k < 4; k++ {
		n := neg(cell.EdgeRaw(k))
		for _, eta := range []float64{1e-10, -1e-10, 1e-9, -1e-9, 1e-8, -1e-8, 3e-8, -3e-8, 1e-7} {
			out = append(out, tpoint{"directed:poleOfSide", nz(s2.Point{Vector: n.Add(w.Mul(eta))})})
		}
	}
	return out
}

// distBranch recomputes, from the exported leaves, which return statement of
// Cell.distanceInternal decides for this target.
func distBranch(cell s2.Cell, p s2.Point) string {
	f, uv := cellFUV(cell)
	t := s2.VerifC12FaceXYZtoUVW(f, p)
	dir00 := t.X - t.Z*uv.X.Lo
	dir01 := t.X - t.Z*uv.X.Hi
	dir10 := t.Y - t.Z*uv.Y.Lo
	dir11 := t.Y - t.Z*uv.Y.Hi
	inside := true
	if dir00 < 0 {
		inside = false
		if s2.VerifC12VEdgeIsClosest(cell, t, false) {
			return "leftEdge"
		}
	}
	if dir01 > 0 {
		inside = false
		if s2.VerifC12VEdgeIsClosest(cell, t, true) {
			return "rightEdge"
		}
	}
	if dir10 < 0 {
		inside = false
		if s2.VerifC12UEdgeIsClosest(cell, t, false) {
			return "bottomEdge"
		}
	}
	if dir11 > 0 {
		inside = false
		if s2.VerifC12UEdgeIsClosest(cell, t, true) {
			return "topEdge"
		}
	}
	if inside {
		return "inside"
	}
	return "vertex"
}

func maxBranch(cell s2.Cell, p s2.Point) string {
	f, _ := cellFUV(cell)
	t := s2.VerifC12FaceXYZtoUVW(f, p)
	m := s1.ChordAngle(-1)
	for k := 0; k < 4; k++ {
		if d := s2.VerifC12VertexChordDist2(cell, t, k&1 == 1, k>>1 == 1); d > m {
			m = d
		}
	}
	if m <= s1.RightChordAngle {
		return "vertexMax"
	}
	return "antipodal/" + distBranch(cell, neg(p))
}

// ---------------------------------------------------------------- [T] 1: ids

func allIDs(maxLevel int) []s2.CellID {
	out := []s2.CellID{}
	var rec func(id s2.CellID)
	rec = func(id s2.CellID) {
		out = append(out, id)
		if id.Level() < maxLevel {
			for _, ch := range id.Children() {
				rec(ch)
			}
		}
	}
	for f := 0; f < 6; f++ {
		rec(s2.CellIDFromFace(f))
	}
	return out
}

// descents: ids along child paths from a face cell down to level 30
func (g *gen) descents(nRandom int) []s2.CellID {
	out := []s2.CellID{}
	path := func(face int, pick func(l int) int) {
		id := s2.CellIDFromFace(face)
		out = append(out, id)
		for l := 0; l < 30; l++ {
			id = id.Children()[pick(l)]
			out = append(out, id)
		}
	}
	path(0, func(int) int { return 0 })
	path(1, func(int) int { return 3 })
	path(2, func(l int) int { return 3 * (l & 1) })
	path(3, func(l int) int { return 1 + (l & 1) })
	path(4, func(l int) int { return 2 })
	path(5, func(l int) int { return (l * 5 / 3) & 3 })
	for k := 0; k < nRandom; k++ {
		path(g.rng.Intn(6), func(int) int { return g.rng.Intn(4) })
	}
	for f := 0; f < 6; f++ {
		first := s2.CellIDFromFace(f).ChildBeginAtLevel(30)
		last := s2.CellIDFromFace(f).ChildEndAtLevel(30).Prev()
		out = append(out, first, last, first.Parent(29), last.Parent(29))
	}
	return out
}

func (g *gen) tIDs() {
	c := g.c
	ids := []s2.CellID{}
	all := allIDs(4)
	if g.budget >= 8 {
		ids = append(ids, all...)
	} else {
		k := int(c.Seed % 4)
		for i, id := range all {
			if i%4 == k {
				ids = append(ids, id)
			}
		}
	}
	c.Extra["ids_levels0to4"] = len(ids)
	ids = append(ids, g.descents(2*g.budget)...)
	seen := map[s2.CellID]bool{}
	for _, id := range ids {
		if seen[id] {
			continue
		}
		seen[id] = true
		ID := vkit.U(uint64(id))
		key := fmt.Sprintf("%x", uint64(id))
		c.Class(fmt.Sprintf("id:level%02d", id.Level()))
		c.Class(fmt.Sprintf("id:face%d", id.Face()))
		c.Eval("id "+key, true)
		f, i, j, o := s2.VerifC12FaceIJOrientation(id)
		g.check("faceIJOrientation", key, "(let '(f_, i_, j_, o_) := s2_CellID_faceIJOrientation "+ID+" in "+
			and(zeq("f_", int64(f)), zeq("i_", int64(i)), zeq("j_", int64(j)), zeq("o_", int64(o)))+")")
		sf, si, ti := s2.VerifC12FaceSiTi(id)
		g.check("faceSiTi+centerUV", key, "(let '(f_, s_, t_) := s2_CellID_faceSiTi "+ID+" in "+
			and(zeq("f_", int64(sf)), zeq("s_", int64(si)), zeq("t_", int64(ti)))+" && "+
			vkit.App("r2_Point_eqbits", vkit.App("s2_CellID_centerUV", ID), r2ptT(s2.VerifC12CenterUV(id)))+")")
		pl := g.rng.Intn(id.Level() + 1)
		g.check("idArith", key, and(zeq(vkit.App("s2_CellID_Level", ID), int64(id.Level())), zeq(vkit.App("s2_CellID_Face", ID), int64(id.Face())),
			beq(vkit.App("s2_CellID_IsLeaf", ID), id.IsLeaf()), beq(vkit.App("s2_CellID_IsValid", ID), id.IsValid()),
			vkit.App("Z.eqb", vkit.App("s2_CellID_RangeMin", ID), vkit.U(uint64(id.RangeMin()))), vkit.App("Z.eqb", vkit.App("s2_CellID_RangeMax", ID), vkit.U(uint64(id.RangeMax()))),
			vkit.App("Z.eqb", vkit.App("s2_CellID_Parent", ID, vkit.Z(int64(pl))), vkit.U(uint64(id.Parent(pl)))),
			beq(vkit.App("s2_CellID_Contains", vkit.U(uint64(id.Parent(pl))), ID), id.Parent(pl).Contains(id)),
			beq(vkit.App("s2_CellID_Contains", ID, vkit.U(uint64(id.Parent(pl).Next()))), id.Contains(id.Parent(pl).Next()))))
		cell := s2.CellFromCellID(id)
		g.check("CellFromCellID", key, vkit.App("s2_Cell_eqbits", vkit.App("s2_CellFromCellID", ID), cellT(cell)))
		ch, ok := cell.Children()
		chT := []string{}
		for _, x := range ch {
			chT = append(chT, cellT(x))
		}
		term := "(let '(l_, ok_) := s2_Cell_Children " + cellT(cell) + " in " + beq("ok_", ok) + " && " +
			vkit.App("list_eqb", "s2_Cell_eqbits", "l_", vkit.List(chT))
		if ok {
			term += " && " + vkit.App("list_eqb", "s2_Cell_eqbits", "l_", vkit.App("map", "s2_CellFromCellID", vkit.App("s2_CellID_Children", ID)))
			idT := []string{}
			for _, x := range id.Children() {
				idT = append(idT, vkit.U(uint64(x)))
			}
			term += " && " + vkit.App("list_eqb", "Z.eqb", vkit.App("s2_CellID_Children", ID), vkit.List(idT))
		}
		g.check("Children", key, term+")")
		if len(c.Samples) < 2 {
			g.sample(map[string]interface{}{"type": "id", "id": uint64(id), "token": id.ToToken(), "face": f, "i": i, "j": j, "orientation": o, "children_ok": ok})
		}
	}
}

// ---------------------------------------------------------------- [T] 2: leaves

func (g *gen) tLeaves() {
	c, rng := g.c, g.rng
	n := 10 * g.budget
	// s values: grid points i/2^k +- ulps, 0, 1/2, 1, outside, random
	sv := []float64{0, math.Copysign(0, -1), 0.5, vkit.Ulps(0.5, -1), vkit.Ulps(0.5, 1), 1, vkit.Ulps(1, -1), vkit.Ulps(1, 1), -0.25, 1.25, 0.25, 0.75, 5e-324, 1e-300}
	for k := 0; k < 3*n; k++ {
		l := 1 + rng.Intn(30)
		s := float64(rng.Intn(1<<uint(l))+rng.Intn(2)) / float64(uint64(1)<<uint(l))
		sv = append(sv, vkit.Ulps(s, rng.Intn(7)-3))
	}
	for k := 0; k < n; k++ {
		sv = append(sv, rng.Float())
	}
	uvs := []float64{0, math.Copysign(0, -1), 1, -1, vkit.Ulps(1, 1), vkit.Ulps(-1, -1), vkit.Ulps(1, -1), 1e-17, -1e-17, 5e-324, 1.0 / 3, -1.0 / 3, 2, -2}
	for _, s := range sv {
		c.Eval("stToUV "+hexf(s), true)
		g.check("stToUV", hexf(s), feq(vkit.App("s2_stToUV", vkit.F(s)), s2.VerifC12StToUV(s)))
		g.check("stToIJ", hexf(s), zeq(vkit.App("s2_stToIJ", vkit.F(s)), int64(s2.VerifC12StToIJ(s))))
		if len(uvs) < 14+4*n {
			uvs = append(uvs, vkit.Ulps(s2.VerifC12StToUV(s), rng.Intn(7)-3))
		}
	}
	for k := 0; k < n; k++ {
		uvs = append(uvs, rng.Range(-1, 1))
	}
	for _, u := range uvs {
		c.Eval("uvToST "+hexf(u), true)
		g.check("uvToST", hexf(u), feq(vkit.App("s2_uvToST", vkit.F(u)), s2.VerifC12UVToST(u)))
	}
	c.Class("leaf:stToUV/stToIJ/uvToST")
	sis := []uint32{0, 1, 2, 1 << 30, 1<<31 - 1, 1 << 31, 1<<31 + 1, 1<<32 - 1}
	for k := 0; k < n; k++ {
		sis = append(sis, uint32(rng.U64()), uint32(rng.U64()>>33))
	}
	for _, si := range sis {
		c.Eval(fmt.Sprintf("siTiToST %d", si), true)
		g.check("siTiToST", fmt.Sprint(si), feq(vkit.App("s2_siTiToST", vkit.U(uint64(si))), s2.VerifC12SiTiToST(si)))
	}
	is := []int{0, 1, 1 << 29, 1<<30 - 1, 1 << 30}
	for k := 0; k < n; k++ {
		is = append(is, rng.Intn(1<<30+1))
	}
	for _, i := range is {
		c.Eval(fmt.Sprintf("ijToSTMin %d", i), true)
		g.check("ijToSTMin", fmt.Sprint(i), feq(vkit.App("s2_ijToSTMin", vkit.Z(int64(i))), s2.VerifC12IJToSTMin(i)))
	}
	for k := 0; k < 6*n; k++ {
		i, j, l := rng.Intn(1<<30), rng.Intn(1<<30), k%31
		switch rng.Intn(6) {
		case 0:
			i = 0
		case 1:
			i = 1<<30 - 1
		case 2:
			j = 1<<30 - 1
		}
		c.Eval(fmt.Sprintf("ijLevelToBoundUV %d %d %d", i, j, l), true)
		g.check("ijLevelToBoundUV", fmt.Sprintf("%d %d %d", i, j, l), vkit.App("r2_Rect_eqbits",
			vkit.App("s2_ijLevelToBoundUV", vkit.Z(int64(i)), vkit.Z(int64(j)), vkit.Z(int64(l))), r2rectT(s2.VerifC12IJLevelToBoundUV(i, j, l))))
	}
	c.Class("leaf:siTiToST/ijToSTMin/ijLevelToBoundUV")
	// face transforms on a pool of special and random points
	pts := []s2.Point{}
	for k := 0; k < 2*n; k++ {
		switch k % 5 {
		case 0:
			pts = append(pts, g.perm(1, 1, 1), nz(g.perm(1, 1, 1)))
		case 1:
			pts = append(pts, g.perm(1, g.tiny(), math.Copysign(0, g.sgn())))
		case 2:
			pts = append(pts, g.perm(1, 1, rng.Range(-1, 1)))
		case 3:
			pts = append(pts, g.randPoint())
		case 4:
			pts = append(pts, pxyz(rng.Range(-3, 3), rng.Range(-3, 3), rng.Range(-3, 3)))
		}
	}
	for _, p := range pts {
		ff, fu, fv := s2.VerifC12XYZToFaceUV(p)
		g.check("xyzToFaceUV", ptKey(p), "(let '(f_, u_, v_) := s2_xyzToFaceUV "+vecT(p.Vector)+" in "+and(zeq("f_", int64(ff)), feq("u_", fu), feq("v_", fv))+")")
	}
	for k, p := range pts {
		for f := 0; f < 6; f++ {
			if (k+f)%2 == 0 {
				continue
			}
			key := fmt.Sprintf("%d %s", f, ptKey(p))
			c.Eval("faceXYZ "+key, true)
			u, v, ok := s2.VerifC12FaceXYZToUV(f, p)
			g.check("faceXYZToUV", key, "(let '(u_, v_, ok_) := s2_faceXYZToUV "+vkit.Z(int64(f))+" "+ptT(p)+" in "+
				and(feq("u_", u), feq("v_", v), beq("ok_", ok))+")")
			g.check("faceXYZtoUVW", key, vkit.App("s2_Point_eqbits", vkit.App("s2_faceXYZtoUVW", vkit.Z(int64(f)), ptT(p)), ptT(s2.VerifC12FaceXYZtoUVW(f, p))))
			g.check("faceUVToXYZ", key, vkit.App("r3_Vector_eqbits", vkit.App("s2_faceUVToXYZ", vkit.Z(int64(f)), vkit.F(p.X), vkit.F(p.Y)), vecT(fuv(f, p.X, p.Y).Vector)))
		}
	}
	c.Class("leaf:faceXYZToUV/faceXYZtoUVW/faceUVToXYZ")
	// the encode direction (hand model of cellIDFromFaceIJ) and the translated cellIDFromPoint
	for k := 0; k < 12*n; k++ {
		f, i, j := k%6, rng.Intn(1<<30), rng.Intn(1<<30)
		switch rng.Intn(8) {
		case 0:
			i, j = 0, 0
		case 1:
			i, j = 1<<30-1, 1<<30-1
		case 2:
			i = 1<<30 - 1
		case 3:
			j = 0
		case 4:
			i, j = i&^(1<<uint(rng.Intn(30))-1), j|(1<<uint(rng.Intn(30))-1)
		}
		c.Eval(fmt.Sprintf("cellIDFromFaceIJ %d %d %d", f, i, j), true)
		id := s2.VerifC12CellIDFromFaceIJ(f, i, j)
		g.check("cellIDFromFaceIJ", fmt.Sprintf("%d %d %d", f, i, j), vkit.App("Z.eqb",
			vkit.App("s2_cellIDFromFaceIJ", vkit.Z(int64(f)), vkit.Z(int64(i)), vkit.Z(int64(j))), vkit.U(uint64(id))))
	}
	for _, p := range pts {
		if p.X == 0 && p.Y == 0 && p.Z == 0 {
			continue
		}
		c.Eval("cellIDFromPoint "+ptKey(p), true)
		g.check("cellIDFromPoint", ptKey(p), vkit.App("Z.eqb", vkit.App("s2_cellIDFromPoint", ptT(p)), vkit.U(uint64(s2.VerifC12CellIDFromPoint(p)))))
	}
	c.Class("leaf:cellIDFromFaceIJ/cellIDFromPoint")
}

// ---------------------------------------------------------------- [T] 3: cell x point

func (g *gen) tCellPoint() {
	c := g.c
	cells := g.cellPool(48 * g.budget)
	for ci, nc := range cells {
		cell := nc.c
		f, uv := cellFUV(cell)
		C := cellT(cell)
		ckey := fmt.Sprintf("%x", uint64(cell.ID()))
		c.Class("T.cell:" + nc.cat)
		c.Class(fmt.Sprintf("T.cell:level%02d", cell.Level()))
		// per cell
		var vt, vrt, et []string
		for k := 0; k < 4; k++ {
			K := vkit.Z(int64(k))
			vt = append(vt, vkit.App("s2_Point_eqbits", vkit.App("s2_Cell_Vertex", C, K), ptT(cell.Vertex(k))))
			vrt = append(vrt, vkit.App("s2_Point_eqbits", vkit.App("s2_Cell_VertexRaw", C, K), ptT(cell.VertexRaw(k))))
			et = append(et, vkit.App("s2_Point_eqbits", vkit.App("s2_Cell_EdgeRaw", C, K), ptT(cell.EdgeRaw(k))))
		}
		c.Eval("cell "+ckey, true)
		g.check("Vertex", ckey, and(vt...))
		g.check("VertexRaw", ckey, and(vrt...))
		g.check("EdgeRaw", ckey, and(et...))
		g.check("CapBound", ckey, vkit.App("s2_Cap_eqbits", vkit.App("s2_Cell_CapBound", C), capT(cell.CapBound())))
		if ci%2 == 0 || cell.Level() == 0 {
			g.check("RectBound", ckey, vkit.App("s2_Rect_eqbits", vkit.App("s2_Cell_RectBound", C), rectT(cell.RectBound())))
		}
		if ci%3 == 0 {
			var lt []string
			for k := 0; k < 4; k++ {
				I, J := vkit.Z(int64(k&1)), vkit.Z(int64(k>>1))
				lt = append(lt, feq(vkit.App("s2_Cell_latitude", C, I, J), s2.VerifC12Latitude(cell, k&1, k>>1)))
				lt = append(lt, feq(vkit.App("s2_Cell_longitude", C, I, J), s2.VerifC12Longitude(cell, k&1, k>>1)))
			}
			g.check("latitude/longitude", ckey, and(lt...))
		}
		rb, cb := cell.RectBound(), cell.CapBound()
		// per cell and target point
		tps := g.pickPoints(cell, false, 9, ci*9)
		if cell.Level() == 0 { // directed NaN cases: the model must reproduce them bit for bit
			d := directedPoleTargets(cell)
			tps = append(tps, d[1], d[4+(ci*7)%36], d[4+(ci*7+13)%36])
		}
		for _, tp := range tps {
			p := tp.p
			P := ptT(p)
			key := ckey + " " + ptKey(p)
			t := s2.VerifC12FaceXYZtoUVW(f, p)
			TP := ptT(t)
			br := distBranch(cell, p)
			c.Class("T.point:" + tp.cat)
			c.Class("T.Distance.branch:" + br)
			c.Class("T.MaxDistance.branch:" + maxBranch(cell, p))
			c.Eval("cellpoint "+key, true)
			g.check("ContainsPoint", key, beq(vkit.App("s2_Cell_ContainsPoint", C, P), cell.ContainsPoint(p)))
			if !math.IsNaN(p.X + p.Y + p.Z) {
				ll := s2.LatLngFromPoint(p)
				LL := vkit.App("mk_s2_LatLng", vkit.F(float64(ll.Lat)), vkit.F(float64(ll.Lng)))
				g.check("Rect/Cap.Contains", key, and(beq(vkit.App("s2_Rect_ContainsLatLng", rectT(rb), LL), rb.ContainsLatLng(ll)),
					beq(vkit.App("s2_Cap_ContainsPoint", capT(cb), P), cb.ContainsPoint(p))))
			}
			var vd, cl []string
			for k := 0; k < 4; k++ {
				xh, yh := k&1 == 1, k>>1 == 1
				vd = append(vd, feq(vkit.App("s2_Cell_vertexChordDist2", C, TP, vkit.B(xh), vkit.B(yh)), float64(s2.VerifC12VertexChordDist2(cell, t, xh, yh))))
			}
			g.check("vertexChordDist2", key, and(vd...))
			for _, hi := range []bool{false, true} {
				cl = append(cl, beq(vkit.App("s2_Cell_uEdgeIsClosest", C, TP, vkit.B(hi)), s2.VerifC12UEdgeIsClosest(cell, t, hi)))
				cl = append(cl, beq(vkit.App("s2_Cell_vEdgeIsClosest", C, TP, vkit.B(hi)), s2.VerifC12VEdgeIsClosest(cell, t, hi)))
			}
			g.check("uv-EdgeIsClosest", key, and(cl...))
			dirs := [4][2]float64{{-(t.X - t.Z*uv.X.Lo), uv.X.Lo}, {t.X - t.Z*uv.X.Hi, uv.X.Hi}, {-(t.Y - t.Z*uv.Y.Lo), uv.Y.Lo}, {t.Y - t.Z*uv.Y.Hi, uv.Y.Hi}}
			var ed []string
			for _, d := range dirs {
				ed = append(ed, feq(vkit.App("s2_edgeDistance", vkit.F(d[0]), vkit.F(d[1])), float64(s2.VerifC12EdgeDistance(d[0], d[1]))))
			}
			g.check("edgeDistance", key, and(ed...))
			dI := s2.VerifC12DistanceInternal(cell, p, true)
			dB := s2.VerifC12DistanceInternal(cell, p, false)
			g.check("distanceInternal(interior)", key+" "+br, and(feq(vkit.App("s2_Cell_distanceInternal", C, P, "true"), float64(dI)),
				feq(vkit.App("s2_Cell_Distance", C, P), float64(cell.Distance(p)))))
			g.check("distanceInternal(boundary)", key+" "+br, and(feq(vkit.App("s2_Cell_distanceInternal", C, P, "false"), float64(dB)),
				feq(vkit.App("s2_Cell_BoundaryDistance", C, P), float64(cell.BoundaryDistance(p)))))
			g.check("MaxDistance", key, feq(vkit.App("s2_Cell_MaxDistance", C, P), float64(cell.MaxDistance(p))))
			if ci < 3 {
				g.sample(map[string]interface{}{"type": "cell-point", "cell": cell.ID().ToToken(), "level": cell.Level(), "cat": tp.cat, "p": []float64{p.X, p.Y, p.Z},
					"Distance": float64(dI), "BoundaryDistance": float64(dB), "MaxDistance": float64(cell.MaxDistance(p)), "branch": br})
			}
		}
	}
}

// ---------------------------------------------------------------- edge targets

type tedge struct {
	cat  string
	a, b s2.Point
}

// edgeTargets builds adversarial target edges for a cell.  strict: only inputs the
// [S] oracle accepts (unit length, endpoints not within 0.05 rad of antipodal).
func (g *gen) edgeTargets(cell s2.Cell, strict bool) []tedge {
	f, uv := cellFUV(cell)
	rng := g.rng
	out := []tedge{}
	add := func(cat string, a, b s2.Point) {
		a, b = nz(a), nz(b)
		if math.IsNaN(a.X+b.X) || (strict && a.Dot(b.Vector) < -0.99875) {
			return
		}
		out = append(out, tedge{cat, a, b})
	}
	ur := func() float64 { return rng.Range(uv.X.Lo, uv.X.Hi) }
	vr := func() float64 { return rng.Range(uv.Y.Lo, uv.Y.Hi) }
	su, sv := uv.X.Hi-uv.X.Lo, uv.Y.Hi-uv.Y.Lo
	xs := [2]float64{uv.X.Lo, uv.X.Hi}
	ys := [2]float64{uv.Y.Lo, uv.Y.Hi}
	sc := func() float64 { return rng.Pick([]float64{1e-9, 1e-3, 0.1, 0.5, 2, 10}) }
	// through / grazing a vertex: b is the mirror image of a in the vertex, +- ulps
	for t := 0; t < 2; t++ {
		k := rng.Intn(4)
		v := cell.Vertex(k)
		a := nz(fuv(f, xs[k&1]+g.sgn()*sc()*su, ys[k>>1]+g.sgn()*sc()*sv))
		b := nz(s2.Point{Vector: v.Mul(2 * a.Dot(v.Vector)).Sub(a.Vector)})
		b = pxyz(vkit.Ulps(b.X, rng.Intn(7)-3), vkit.Ulps(b.Y, rng.Intn(7)-3), vkit.Ulps(b.Z, rng.Intn(7)-3))
		add("grazeVertex", a, b)
		if t == 0 {
			add("antipodal:grazeVertex", neg(a), neg(b))
		}
	}
	// one endpoint inside
	in := fuv(f, ur(), vr())
	add("endpointInside", in, s2.Point{Vector: nz(in).Add(g.randPoint().Mul(sc() * math.Max(su, sv)))})
	add("endpointInside", g.randPoint(), in)
	add("bothInside", fuv(f, ur(), vr()), fuv(f, ur(), vr()))
	// crossing without an endpoint inside
	a := fuv(f, xs[0]-sc()*su, vr())
	b := fuv(f, xs[1]+sc()*su, vr())
	add("crossing", a, b)
	add("antipodal:crossing", neg(a), neg(b))
	add("crossing", fuv(f, ur(), ys[0]-sc()*sv), fuv(f, xs[1]+sc()*su, vr())) // cuts a corner
	// along a side (collinear with it), +- ulps
	i := rng.Intn(2)
	add("alongSide", fuv(f, xs[i], ys[0]-sc()*sv), fuv(f, xs[i], ys[1]+sc()*sv))
	add("alongSide", fuv(f, vkit.Ulps(xs[i], rng.Intn(5)-2), ys[0]+0.25*sv), fuv(f, vkit.Ulps(xs[i], rng.Intn(5)-2), ys[1]+sc()*sv))
	add("alongSide", fuv(f, xs[0]-sc()*su, ys[i]), fuv(f, xs[1]-0.5*su, ys[i]))
	// outside, near one side / one corner
	d := sc()
	add("nearOutside", fuv(f, xs[1]+d*su, vr()), fuv(f, xs[1]+sc()*su, ys[1]+sc()*sv))
	add("nearOutside", fuv(f, ur(), ys[0]-d*sv), fuv(f, xs[0]-sc()*su, ys[0]-sc()*sv))
	k := rng.Intn(4)
	cx, cy := xs[k&1]+d*su*(2*float64(k&1)-1), ys[k>>1]+d*sv*(2*float64(k>>1)-1)
	add("nearCorner", fuv(f, cx+d*su*(2*float64(k&1)-1), cy-d*sv*(2*float64(k>>1)-1)), fuv(f, cx-d*su*(2*float64(k&1)-1), cy+d*sv*(2*float64(k>>1)-1)))
	// far, long, degenerate, antipodal
	p := g.randPoint()
	add("far", p, s2.Point{Vector: p.Add(g.randPoint().Mul(rng.Pick([]float64{1e-6, 0.01, 0.5})))})
	add("long", g.randPoint(), g.randPoint())
	add("long", s2.Point{Vector: nz(in).Add(g.randPoint().Mul(1.5))}, s2.Point{Vector: nz(in).Sub(g.randPoint().Mul(1.5))})
	dg := []s2.Point{cell.Vertex(rng.Intn(4)), in, g.randPoint(), neg(cell.Center()), neg(cell.Vertex(rng.Intn(4)))}
	x := dg[rng.Intn(len(dg))]
	add("degenerate", x, x)
	add("antipodal:inside", neg(in), s2.Point{Vector: neg(nz(in)).Add(g.randPoint().Mul(sc() * math.Max(su, sv)))})
	add("antipodal:near", neg(fuv(f, xs[1]+d*su, vr())), neg(fuv(f, xs[1]+sc()*su, ys[1]+sc()*sv)))
	// about 90 degrees away
	v := cell.Vertex(rng.Intn(4))
	w := nz(s2.Point{Vector: v.Cross(g.randPoint().Vector)})
	add("right90", s2.Point{Vector: w.Add(v.Mul(rng.Pick([]float64{0, 1e-16, 1e-9, 1e-2}) * g.sgn()))}, s2.Point{Vector: w.Add(g.randPoint().Mul(rng.Pick([]float64{1e-9, 1e-2, 0.3})))})
	// an endpoint about 90 degrees from a whole side (outward pole of the side's great circle)
	{
		k := rng.Intn(4)
		n := nz(neg(cell.EdgeRaw(k)))
		var m s2.Point
		if k&1 == 0 {
			m = nz(fuv(f, ur(), ys[k>>1]))
		} else {
			m = nz(fuv(f, xs[1-k>>1], vr()))
		}
		pa := s2.Point{Vector: n.Add(m.Mul(rng.Pick([]float64{0, 1e-15, 1e-12, 1e-9, 1e-6, 1e-3}) * g.sgn()))}
		add("endpointPoleOfSide", pa, s2.Point{Vector: nz(pa).Sub(m.Mul(rng.Pick([]float64{1e-9, 1e-3, 0.2})))})
		// ... and the other endpoint just beside another side of the cell
		j := rng.Intn(2)
		pb := fuv(f, xs[j]+rng.Pick([]float64{1e-6, 1e-2, 0.3})*su*(2*float64(j)-1), vr())
		if rng.Bool() {
			pb = fuv(f, ur(), ys[j]+rng.Pick([]float64{1e-6, 1e-2, 0.3})*sv*(2*float64(j)-1))
		}
		pa = s2.Point{Vector: n.Add(m.Mul(rng.Pick([]float64{0, 1e-16, 1e-15, 1e-12, 1e-10}) * g.sgn()))}
		if rng.Bool() {
			add("poleOfSideToBeside", pa, pb)
		} else {
			add("poleOfSideToBeside", pb, pa)
		}
	}
	// endpoints nearly antipodal to each other
	e := rng.Pick([]float64{0.06, 0.2})
	if !strict {
		e = rng.Pick([]float64{1e-15, 1e-8, 1e-3, 0.06})
	}
	q := g.randPoint()
	if rng.Bool() {
		q = nz(in)
	}
	add("nearlyAntipodalEndpoints", q, s2.Point{Vector: neg(q).Add(g.randPoint().Mul(e))})
	return out
}

// crosses evaluates the loop of Cell.DistanceToEdge on the real EdgeCrosser.
func crosses(cell s2.Cell, a, b s2.Point) bool {
	cr := s2.NewChainEdgeCrosser(a, b, cell.Vertex(3))
	r := false
	for i := 0; i < 4; i++ {
		if cr.ChainCrossingSign(cell.Vertex(i)) != s2.DoNotCross {
			r = true
		}
	}
	return r
}

// ---------------------------------------------------------------- [T] 4: edges

func (g *gen) tEdges() {
	c, rng := g.c, g.rng
	cells := g.cellPool(30 * g.budget)
	for ci, nc := range cells {
		cell := nc.c
		C := cellT(cell)
		ckey := fmt.Sprintf("%x", uint64(cell.ID()))
		es := g.edgeTargets(cell, false)
		for t := 0; t < 6; t++ {
			e := es[(ci*6+t)%len(es)]
			a, b := e.a, e.b
			if rng.Intn(8) == 0 { // unnormalised inputs: only model = implementation is compared
				a = s2.Point{Vector: a.Mul(rng.Range(0.5, 2))}
			}
			A, B := ptT(a), ptT(b)
			key := ckey + " " + ptKey(a) + " " + ptKey(b)
			c.Class("T.edge:" + e.cat)
			c.Eval("celledge "+key, true)
			// the point the distance is taken from: a cell vertex, or some other target
			x := cell.Vertex(t & 3)
			if t >= 4 {
				ps := g.pickPoints(cell, false, 1, rng.Intn(len(pointCats)))
				x = ps[0].p
			}
			X := ptT(x)
			lim := []s1.ChordAngle{s1.InfChordAngle(), cell.Distance(a), 0, s1.ChordAngle(rng.Range(0, 4)), s2.ChordAngleBetweenPoints(x, a)}[rng.Intn(5)]
			d, ok := s2.UpdateMinDistance(x, a, b, lim)
			g.check("UpdateMinDistance", key, pairFB(vkit.App("s2_UpdateMinDistance", X, A, B, vkit.F(float64(lim))), float64(d), ok))
			d, ok = s2.VerifC12UpdateMinDistance(x, a, b, lim, true)
			g.check("updateMinDistance(always)", key, pairFB(vkit.App("s2_updateMinDistance", X, A, B, vkit.F(float64(lim)), "true"), float64(d), ok))
			d, ok = s2.VerifC12InteriorDist(x, a, b, lim, false)
			d2, ok2 := s2.VerifC12InteriorDist(x, a, b, lim, true)
			g.check("interiorDist", key, and(pairFB(vkit.App("s2_interiorDist", X, A, B, vkit.F(float64(lim)), "false"), float64(d), ok),
				pairFB(vkit.App("s2_interiorDist", X, A, B, vkit.F(float64(lim)), "true"), float64(d2), ok2)))
			c.Class(fmt.Sprintf("T.interiorDist:interior=%v", ok2))
			ml := []s1.ChordAngle{s1.NegativeChordAngle, s1.ChordAngle(rng.Range(0, 4)), s1.StraightChordAngle, s2.ChordAngleBetweenPoints(x, b)}[rng.Intn(4)]
			d, ok = s2.UpdateMaxDistance(x, a, b, ml)
			g.check("UpdateMaxDistance", key, pairFB(vkit.App("s2_UpdateMaxDistance", X, A, B, vkit.F(float64(ml))), float64(d), ok))
			cr := crosses(cell, a, b)
			de := cell.DistanceToEdge(a, b)
			g.check("DistanceToEdge", key, feq(vkit.App("cell_DistanceToEdge", vkit.B(cr), C, A, B), float64(de)))
			cra := crosses(cell, neg(a), neg(b))
			me := cell.MaxDistanceToEdge(a, b)
			g.check("MaxDistanceToEdge", key, feq(vkit.App("cell_MaxDistanceToEdge", vkit.B(cra), C, A, B), float64(me)))
			switch {
			case math.Min(float64(cell.Distance(a)), float64(cell.Distance(b))) == 0:
				c.Class("T.DistanceToEdge.branch:endpointInside")
			case cr:
				c.Class("T.DistanceToEdge.branch:crosses")
			default:
				c.Class("T.DistanceToEdge.branch:vertexEdge")
			}
			if math.Max(float64(cell.MaxDistance(a)), float64(cell.MaxDistance(b))) <= 2 {
				c.Class("T.MaxDistanceToEdge.branch:endpoints")
			} else {
				c.Class("T.MaxDistanceToEdge.branch:antipodal")
			}
			if ci < 2 && t == 0 {
				g.sample(map[string]interface{}{"type": "cell-edge", "cell": cell.ID().ToToken(), "cat": e.cat, "a": []float64{a.X, a.Y, a.Z}, "b": []float64{b.X, b.Y, b.Z},
					"crosses": cr, "DistanceToEdge": float64(de), "MaxDistanceToEdge": float64(me)})
			}
		}
	}
}

// ---------------------------------------------------------------- cell targets

type tcell struct {
	cat string
	o   s2.Cell
}

func (g *gen) cellTargets(cell s2.Cell) []tcell {
	rng := g.rng
	id := cell.ID()
	lvl := id.Level()
	out := []tcell{}
	add := func(cat string, o s2.CellID) {
		if !o.IsValid() {
			return
		}
		if o != id && (o.Contains(id) || id.Contains(o)) {
			cat = "nested"
		}
		out = append(out, tcell{cat, s2.CellFromCellID(o)})
	}
	desc := func(o s2.CellID, l int) s2.CellID { // a descendant of o at level l >= level(o)
		for o.Level() < l {
			o = o.Children()[rng.Intn(4)]
		}
		return o
	}
	en := id.EdgeNeighbors()
	edge := map[s2.CellID]bool{}
	for _, n := range en {
		edge[n] = true
	}
	add("edgeNeighbor", en[rng.Intn(4)])
	n := en[rng.Intn(4)]
	add("edgeNeighborDescendant", desc(n, min(30, lvl+1+rng.Intn(3))))
	if lvl > 0 {
		add("edgeNeighborAncestor", n.Parent(rng.Intn(lvl+1)))
	}
	corner := []s2.CellID{}
	for _, o := range id.AllNeighbors(lvl) {
		if !edge[o] && o != id {
			corner = append(corner, o)
		}
	}
	if len(corner) > 0 {
		o := corner[rng.Intn(len(corner))]
		add("cornerNeighbor", o)
		add("cornerNeighborDescendant", desc(o, min(30, lvl+1+rng.Intn(3))))
	}
	add("same", id)
	if lvl > 0 {
		add("nested", id.Parent(rng.Intn(lvl)))
	}
	if lvl < 30 {
		add("nested", desc(id, lvl+1+rng.Intn(30-lvl)))
	}
	add("sameFace", s2.CellIDFromFacePosLevel(id.Face(), rng.U64()>>3, rng.Intn(31)))
	add("sameFace", s2.CellIDFromFacePosLevel(id.Face(), rng.U64()>>3, min(30, lvl+rng.Intn(2))))
	add("otherFace", s2.CellIDFromFacePosLevel((id.Face()+1+rng.Intn(5))%6, rng.U64()>>3, rng.Intn(31)))
	add("adjacentFace", s2.CellIDFromFacePosLevel((id.Face()+1+rng.Intn(2))%6, rng.U64()>>3, rng.Intn(4)))
	anti := s2.VerifC12CellIDFromPoint(neg(cell.Center()))
	add("antipodalOverlap", anti.Parent(rng.Intn(31)))
	add("antipodalOverlap", anti.Parent(lvl))
	ao := anti.Parent(lvl)
	add("antipodalNeighbor", ao.EdgeNeighbors()[rng.Intn(4)])
	add("antipodalNeighbor", desc(ao.EdgeNeighbors()[rng.Intn(4)], min(30, lvl+rng.Intn(3))))
	add("oppositeFace", s2.CellIDFromFacePosLevel((id.Face()+3)%6, rng.U64()>>3, rng.Intn(31)))
	add("random", s2.CellIDFromFacePosLevel(rng.Intn(6), rng.U64()>>3, rng.Intn(31)))
	return out
}

// ---------------------------------------------------------------- [T] 5: cells

func (g *gen) tCells() {
	c := g.c
	cells := g.cellPool(40 * g.budget)
	for ci, nc := range cells {
		cell := nc.c
		C := cellT(cell)
		ts := g.cellTargets(cell)
		for t := 0; t < 6; t++ {
			tc := ts[(ci*6+t)%len(ts)]
			o := tc.o
			O := cellT(o)
			key := fmt.Sprintf("%x %x", uint64(cell.ID()), uint64(o.ID()))
			c.Class("T.cellpair:" + tc.cat)
			c.Eval("cellcell "+key, true)
			d := cell.DistanceToCell(o)
			m := cell.MaxDistanceToCell(o)
			g.check("DistanceToCell", key+" "+tc.cat, feq(vkit.App("s2_Cell_DistanceToCell", C, O), float64(d)))
			g.check("MaxDistanceToCell", key+" "+tc.cat, feq(vkit.App("s2_Cell_MaxDistanceToCell", C, O), float64(m)))
			if d == 0 {
				c.Class("T.DistanceToCell.branch:uvIntersect-or-zero")
			} else {
				c.Class("T.DistanceToCell.branch:vertexEdge")
			}
			if m == s1.StraightChordAngle {
				c.Class("T.MaxDistanceToCell.branch:straight")
			} else if m > s1.RightChordAngle {
				c.Class("T.MaxDistanceToCell.branch:beyond90")
			} else {
				c.Class("T.MaxDistanceToCell.branch:within90")
			}
			if ci == 0 && t < 2 {
				g.sample(map[string]interface{}{"type": "cell-cell", "a": cell.ID().ToToken(), "b": o.ID().ToToken(), "cat": tc.cat, "DistanceToCell": float64(d), "MaxDistanceToCell": float64(m)})
			}
		}
	}
}

// san makes a value JSON-encodable: NaN / infinities become strings.
func san(v interface{}) interface{} {
	switch x := v.(type) {
	case float64:
		if math.IsNaN(x) || math.IsInf(x, 0) {
			return fmt.Sprint(x)
		}
		return x
	case []float64:
		out := make([]interface{}, len(x))
		for i, y := range x {
			out[i] = san(y)
		}
		return out
	case []interface{}:
		out := make([]interface{}, len(x))
		for i, y := range x {
			out[i] = san(y)
		}
		return out
	case map[string]interface{}:
		out := map[string]interface{}{}
		for k, y := range x {
			out[k] = san(y)
		}
		return out
	case map[string]float64:
		out := map[string]interface{}{}
		for k, y := range x {
			out[k] = san(y)
		}
		return out
	}
	return v
}

// evalH counts an evaluation under a short (hashed) key, for the high-volume cheap searches.
func (g *gen) evalH(key string) {
	h := uint64(14695981039346656037)
	for i := 0; i < len(key); i++ {
		h = (h ^ uint64(key[i])) * 1099511628211
	}
	g.c.Eval(fmt.Sprintf("%x", h), true)
}

func (g *gen) sample(m map[string]interface{}) { g.c.Sample(san(m)) }
func (g *gen) violate(kind, desc string, replay map[string]interface{}) {
	// the collector keeps 20 replays: one per kind always, a second one while there is room,
	// so that one defect cannot crowd out the others (all counts are in Extra)
	g.st.violByKind[kind]++
	if n := g.st.violByKind[kind]; n == 1 || (n == 2 && len(g.c.Violations) < 12) {
		g.c.Violate(kind, desc, san(replay))
	}
}
