// Observer for C16: s2.Intersection is accurate and order-independent.
//
// [T] bit-exact correspondence of the translated float path (Gen.Isect), of the hand model of
// intersectionExact / Intersection (Model.IsectExact) and of which path decided, for all 8
// argument orders of every generated crossing pair.
// [S] on the real code, oracle = math/big (exact cross products of the float inputs, 400-bit
// normalisation; no trigonometry: the sine of the angle is |r x t| / (|r| |t|)):
// (i) order independence, (ii) accuracy, (iii) unit length, (iv) hemisphere, (v) collinear rule.
package main

import (
	"fmt"
	"math"
	"math/big"
	"strconv"

	"github.com/golang/geo/r3"
	"github.com/golang/geo/s2"
	"verifharness/internal/vkit"
)

func main() { vkit.Main("C16", []string{"Gen.Isect", "Model.IsectExact"}, run) }

func vec(v r3.Vector) string { return vkit.App("mk_r3_Vector", vkit.F(v.X), vkit.F(v.Y), vkit.F(v.Z)) }
func pt(p s2.Point) string   { return vkit.App("mk_s2_Point", vec(p.Vector)) }

type quad [4]s2.Point

func (q quad) args() string { return pt(q[0]) + " " + pt(q[1]) + " " + pt(q[2]) + " " + pt(q[3]) }
func (q quad) key() string {
	s := ""
	for _, p := range q {
		s += fmt.Sprintf("%x.%x.%x/", math.Float64bits(p.X), math.Float64bits(p.Y), math.Float64bits(p.Z))
	}
	return s
}
func (q quad) replay() interface{} {
	out := [][]string{}
	for _, p := range q {
		out = append(out, []string{hex(p.X), hex(p.Y), hex(p.Z)})
	}
	return out
}
func hex(f float64) string { return fmt.Sprintf("%x", f) }

// the 8 argument orders: reverse a, reverse b, swap the edges
func (q quad) orders() [8]quad {
	a0, a1, b0, b1 := q[0], q[1], q[2], q[3]
	return [8]quad{{a0, a1, b0, b1}, {a1, a0, b0, b1}, {a0, a1, b1, b0}, {a1, a0, b1, b0},
		{b0, b1, a0, a1}, {b1, b0, a0, a1}, {b0, b1, a1, a0}, {b1, b0, a1, a0}}
}

// ---------------------------------------------------------------- exact / high-precision oracle

const exactPrec = 9000 // sums of products of four float64 values are exact at this precision
const hp = 400

func bf(x float64) *big.Float { return new(big.Float).SetPrec(exactPrec).SetFloat64(x) }
func bmul(a, b *big.Float) *big.Float {
	return new(big.Float).SetPrec(exactPrec).Mul(a, b)
}
func bsub(a, b *big.Float) *big.Float { return new(big.Float).SetPrec(exactPrec).Sub(a, b) }
func badd(a, b *big.Float) *big.Float { return new(big.Float).SetPrec(exactPrec).Add(a, b) }

type bv [3]*big.Float

func bvOf(v r3.Vector) bv { return bv{bf(v.X), bf(v.Y), bf(v.Z)} }
func bcross(a, b bv) bv {
	return bv{bsub(bmul(a[1], b[2]), bmul(a[2], b[1])), bsub(bmul(a[2], b[0]), bmul(a[0], b[2])), bsub(bmul(a[0], b[1]), bmul(a[1], b[0]))}
}
func bdot(a, b bv) *big.Float {
	return badd(bmul(a[0], b[0]), badd(bmul(a[1], b[1]), bmul(a[2], b[2])))
}
func bvadd(a, b bv) bv    { return bv{badd(a[0], b[0]), badd(a[1], b[1]), badd(a[2], b[2])} }
func (a bv) isZero() bool { return a[0].Sign() == 0 && a[1].Sign() == 0 && a[2].Sign() == 0 }

// round to hp bits and rescale so that the largest component has exponent 0 (keeps later
// products far away from any exponent limit and cheap)
func (a bv) reduced() bv {
	maxExp, any := 0, false
	for _, c := range a {
		if c.Sign() != 0 {
			if e := c.MantExp(nil); !any || e > maxExp {
				maxExp, any = e, true
			}
		}
	}
	out := bv{}
	for i, c := range a {
		t := new(big.Float).SetPrec(hp).Set(c)
		out[i] = new(big.Float).SetPrec(hp).SetMantExp(t, -maxExp)
	}
	return out
}
func hmul(a, b *big.Float) *big.Float { return new(big.Float).SetPrec(hp).Mul(a, b) }
func hdot(a, b bv) *big.Float {
	s := new(big.Float).SetPrec(hp)
	for i := 0; i < 3; i++ {
		s.Add(s, hmul(a[i], b[i]))
	}
	return s
}
func hcross(a, b bv) bv {
	f := func(p, q, r, s *big.Float) *big.Float { return new(big.Float).SetPrec(hp).Sub(hmul(p, q), hmul(r, s)) }
	return bv{f(a[1], b[2], a[2], b[1]), f(a[2], b[0], a[0], b[2]), f(a[0], b[1], a[1], b[0])}
}

// sin^2 of the angle between two (non-zero) vectors, as float64 (only compared with ~1e-31)
func sin2Angle(a, b bv) float64 {
	a, b = a.reduced(), b.reduced()
	c := hcross(a, b)
	num := hdot(c, c)
	den := hmul(hdot(a, a), hdot(b, b))
	q, _ := new(big.Float).SetPrec(hp).Quo(num, den).Float64()
	return q
}

func approx(a bv) [3]float64 {
	a = a.reduced()
	n := new(big.Float).SetPrec(hp).Sqrt(hdot(a, a))
	var out [3]float64
	for i := range a {
		out[i], _ = new(big.Float).SetPrec(hp).Quo(a[i], n).Float64()
	}
	return out
}

var perKind = map[string]int{}

// at most 3 reports per kind, so that one frequent kind cannot crowd out the others
func violate(c *vkit.Collector, kind, desc string, replay interface{}) {
	perKind[kind]++
	if perKind[kind] <= 3 {
		c.Violate(kind, desc, replay)
	}
}

func lexLess(a, b r3.Vector) bool {
	if a.X != b.X {
		return a.X < b.X
	}
	if a.Y != b.Y {
		return a.Y < b.Y
	}
	return a.Z < b.Z
}

// p strictly inside the (shorter) arc c..d of a great circle all three lie on (exact)
func strictlyInside(p, c, d bv) bool {
	n := bcross(c, d)
	return bdot(bcross(c, p), n).Sign() > 0 && bdot(bcross(p, d), n).Sign() > 0
}

var (
	bound     = 0x1p-50 // the property's bound: 8 * 2^-53 rad (NOT read from the code under test)
	margin    = 1e-6
	maxSinSt  float64
	maxSinEx  float64
	maxNorm2  float64
	zeroSigns int
)

// checkQuad runs every [S] sentence on one crossing pair (and all its argument orders).
func checkQuad(c *vkit.Collector, class string, q quad) {
	ords := q.orders()
	r := s2.Intersection(q[0], q[1], q[2], q[3])
	_, stableOK := s2.VerifIntersectionStable(q[0], q[1], q[2], q[3])
	path := "intersectionExact"
	if stableOK {
		path = "intersectionStable"
	}
	rep := map[string]interface{}{"class": class, "points_hex": q.replay(), "path": path,
		"a0": q[0].Vector, "a1": q[1].Vector, "b0": q[2].Vector, "b1": q[3].Vector, "result": r.Vector}

	A0, A1, B0, B1 := bvOf(q[0].Vector), bvOf(q[1].Vector), bvOf(q[2].Vector), bvOf(q[3].Vector)
	xP := bcross(bcross(A0, A1), bcross(B0, B1))
	kindOrder := "Intersection.orderDependent"
	if xP.isZero() {
		path = "intersectionExact.collinear"
		kindOrder = "intersectionExact.collinear.orderDependent"
	}

	// (i) order independence: the implementation against itself
	for k, o := range ords {
		rk := s2.Intersection(o[0], o[1], o[2], o[3])
		if rk.Vector != r.Vector { // Go ==
			rep["order"], rep["result_other"] = k, rk.Vector
			violate(c, kindOrder, "Intersection differs (Go ==) under reversing/swapping the edges", rep)
			break
		}
		if math.Float64bits(rk.X) != math.Float64bits(r.X) || math.Float64bits(rk.Y) != math.Float64bits(r.Y) || math.Float64bits(rk.Z) != math.Float64bits(r.Z) {
			zeroSigns++
			rep2 := map[string]interface{}{"class": class, "points_hex": q.replay(), "order": k,
				"result_hex": []string{hex(r.X), hex(r.Y), hex(r.Z)}, "result_other_hex": []string{hex(rk.X), hex(rk.Y), hex(rk.Z)}}
			violate(c, "Intersection.zeroSignOrderDependent", "Intersection is == but not bit-identical (+0 / -0 coordinate) under reversing/swapping the edges", rep2)
			break
		}
	}

	R := bvOf(r.Vector)

	// (iii) unit length: | |r|^2 - 1 | <= 4 * 2^-52  (i.e. | |r| - 1 | <= 2 * 2^-52)
	n2, _ := bsub(bdot(R, R), bf(1)).Float64()
	if math.Abs(n2) > maxNorm2 {
		maxNorm2 = math.Abs(n2)
	}
	if !(math.Abs(n2) <= 4*0x1p-52*(1+margin)) {
		rep["norm2_minus_1"] = n2
		violate(c, path+".unitLength", "result is not unit length (| |r|^2 - 1 | > 4*2^-52)", rep)
	}

	if xP.isZero() {
		// (v) exactly collinear: the documented answer is the lexicographically smallest of the
		// endpoints that lie strictly inside the other edge
		var best *r3.Vector
		cands := []struct {
			p    s2.Point
			P    bv
			c, d bv
		}{{q[0], A0, B0, B1}, {q[1], A1, B0, B1}, {q[2], B0, A0, A1}, {q[3], B1, A0, A1}}
		n := 0
		for _, cd := range cands {
			if strictlyInside(cd.P, cd.c, cd.d) {
				n++
				v := cd.p.Vector
				if best == nil || lexLess(v, *best) {
					best = &v
				}
			}
		}
		c.Class(fmt.Sprintf("collinear:interior-endpoints=%d", n))
		if best == nil || r.Vector != *best {
			rep["expected"] = best
			violate(c, "intersectionExact.collinear.notMinInterior", "collinear overlapping edges: result is not the smallest interior endpoint", rep)
		}
		return
	}
	// (ii)+(iv) accuracy and hemisphere against the exact crossing point.  For crossing edges the
	// four orientations ACB, CBD, BDA, DAC are equal (= s) and the crossing point is exactly
	// s * (a0 x a1) x (b0 x b1) / |..| (p = alpha a0 + beta a1 with alpha, beta > 0 on b's plane).
	// This does not use a0+a1, whose direction is meaningless in exact arithmetic when the
	// endpoints are nearly antipodal and only unit up to rounding.
	s := bdot(bcross(A0, B0), A1).Sign()
	if s == 0 || bdot(bcross(B0, A1), B1).Sign() != s || bdot(bcross(A1, B1), A0).Sign() != s || bdot(bcross(B1, A0), B0).Sign() != s {
		c.Class("oracle:crossing-only-by-perturbation")
		return
	}
	if s < 0 {
		for i := range xP {
			xP[i] = new(big.Float).SetPrec(exactPrec).Neg(xP[i])
		}
	}
	s2a := sin2Angle(R, xP)
	sn := math.Sqrt(s2a)
	if bdot(R, xP).Sign() <= 0 {
		rep["true_direction"] = approx(xP)
		// known finding "Intersection.antipode": ONLY if some edge is within 1e-6 rad of 180 degrees
		// (|a0+a1| = 2 sin(delta/2)) and the result is the antipode of the true point up to the bound
		ma, mb := bvadd(A0, A1), bvadd(B0, B1)
		near := bdot(ma, ma).Cmp(bf(1e-12)) < 0 || bdot(mb, mb).Cmp(bf(1e-12)) < 0
		if near && math.Sqrt(sin2Angle(R, xP)) <= bound*(1+margin) {
			c.Class("known:antipode(edge within 1e-6 rad of 180 degrees)")
			violate(c, "Intersection.antipode", "an edge is within 1e-6 rad of 180 degrees and the result is the antipode of the crossing point", rep)
		} else {
			violate(c, "Intersection.wrongHemisphere", "result is on the opposite side of the sphere from the crossing point", rep)
		}
		return
	}
	if stableOK && sn > maxSinSt {
		maxSinSt = sn
	}
	if !stableOK && sn > maxSinEx {
		maxSinEx = sn
	}
	if !(sn <= bound*(1+margin)) {
		rep["sin_angle_to_true_point"] = sn
		rep["bound"] = bound
		violate(c, path+".accuracy", "result is farther than intersectionError from the exact intersection point", rep)
	}
}

// ---------------------------------------------------------------- [T]

func corr(c *vkit.Collector, q quad, full bool) {
	ords := q.orders()
	n := 1
	if full {
		n = 8
	}
	anyExact := false
	for k := 0; k < n; k++ {
		o := ords[k]
		key := fmt.Sprintf("%d %s", k, q.key())
		sp, ok := s2.VerifIntersectionStable(o[0], o[1], o[2], o[3])
		c.Check("intersectionStable "+key, vkit.App("pair_beq s2_Point_eqbits Bool.eqb", vkit.App("s2_intersectionStable", o.args()), vkit.Pair(pt(sp), vkit.B(ok))))
		if !ok {
			anyExact = true
		}
		if !ok || k == 0 {
			ep := s2.VerifIntersectionExact(o[0], o[1], o[2], o[3])
			c.Check("intersectionExact "+key, vkit.App("s2_Point_eqbits", vkit.App("s2_intersectionExact", o.args()), pt(ep)))
		}
		ip := s2.Intersection(o[0], o[1], o[2], o[3])
		c.Check("Intersection "+key, vkit.App("s2_Point_eqbits", vkit.App("s2_Intersection", o.args()), pt(ip)))
	}
	if anyExact {
		c.Class("path:exact")
	} else {
		c.Class("path:stable")
	}
	// the leaves, on the values the stable path feeds them
	key := q.key()
	c.Check("compareEdges "+key, vkit.App("Bool.eqb", vkit.App("s2_compareEdges", q.args()), vkit.B(s2.VerifCompareEdges(q[0], q[1], q[2], q[3]))))
	nv, nl := s2.VerifRobustNormalWithLength(q[0].Vector, q[1].Vector)
	c.Check("robustNormalWithLength "+key, vkit.App("pair_beq r3_Vector_eqbits fbiteq", vkit.App("s2_robustNormalWithLength", vec(q[0].Vector), vec(q[1].Vector)), vkit.Pair(vec(nv), vkit.F(nl))))
	aNorm := q[0].Sub(q[1].Vector).Cross(q[0].Add(q[1].Vector))
	pj, pb := s2.VerifProjection(q[2].Vector, aNorm, aNorm.Norm(), q[0], q[1])
	c.Check("projection "+key, vkit.App("pair_beq fbiteq fbiteq", vkit.App("s2_projection", vec(q[2].Vector), vec(aNorm), vkit.F(aNorm.Norm()), pt(q[0]), pt(q[1])), vkit.Pair(vkit.F(pj), vkit.F(pb))))
}

// ---------------------------------------------------------------- generators

func P(x, y, z float64) s2.Point { return s2.Point{Vector: r3.Vector{X: x, Y: y, Z: z}} }

func randUnit(rng *vkit.Rng) r3.Vector {
	for {
		v := r3.Vector{X: rng.Range(-1, 1), Y: rng.Range(-1, 1), Z: rng.Range(-1, 1)}
		if n := v.Norm2(); n > 0.01 && n < 1 {
			return v.Normalize()
		}
	}
}
func logU(rng *vkit.Rng, lo, hi float64) float64 { return math.Pow(10, -rng.Range(lo, hi)) }

// permute/flip coordinate axes (exact operations)
func axisMap(rng *vkit.Rng) func(s2.Point) s2.Point {
	perm := [][3]int{{0, 1, 2}, {1, 2, 0}, {2, 0, 1}, {0, 2, 1}, {2, 1, 0}, {1, 0, 2}}[rng.Intn(6)]
	sg := [3]float64{1, 1, 1}
	for i := range sg {
		if rng.Bool() {
			sg[i] = -1
		}
	}
	return func(p s2.Point) s2.Point {
		c := [3]float64{p.X, p.Y, p.Z}
		return P(sg[0]*c[perm[0]], sg[1]*c[perm[1]], sg[2]*c[perm[2]])
	}
}

// a point x, two great circles through it at angle theta, endpoints at arc distances either side
func genAngle(rng *vkit.Rng, theta float64, long bool) quad {
	x := randUnit(rng)
	u := x.Cross(randUnit(rng)).Normalize()
	v := x.Cross(u).Normalize()
	dB := u.Mul(math.Cos(theta)).Add(v.Mul(math.Sin(theta)))
	dist := func() float64 {
		if long {
			return math.Pi/2 - logU(rng, 1, 16)
		}
		if rng.Intn(3) == 0 {
			return rng.Range(0.01, 1.5)
		}
		return logU(rng, 0, 15)
	}
	at := func(d r3.Vector, s float64) s2.Point {
		return s2.Point{Vector: x.Mul(math.Cos(s)).Add(d.Mul(math.Sin(s))).Normalize()}
	}
	return quad{at(u, -dist()), at(u, dist()), at(dB, -dist()), at(dB, dist())}
}

// tiny edges next to a coordinate axis point, coordinates exact: lengths 1e-9 .. 1e-300
func genAxisTiny(rng *vkit.Rng, theta float64) quad {
	m := axisMap(rng)
	phi := rng.Range(0, 2*math.Pi)
	if rng.Intn(3) == 0 {
		phi = 0
	}
	lo := rng.Range(9, 300)
	s := func() float64 { return math.Pow(10, -math.Min(lo+rng.Range(0, 3), 305)) }
	dA := [2]float64{math.Cos(phi), math.Sin(phi)}
	dB := [2]float64{math.Cos(phi + theta), math.Sin(phi + theta)}
	sa0, sa1 := s(), s()
	t := rng.Range(-0.9, 0.9)
	if t < 0 {
		t *= sa0
	} else {
		t *= sa1
	}
	cx, cy := dA[0]*t, dA[1]*t
	sb0, sb1 := s(), s()
	return quad{m(P(1, -dA[0]*sa0, -dA[1]*sa0)), m(P(1, dA[0]*sa1, dA[1]*sa1)),
		m(P(1, cx-dB[0]*sb0, cy-dB[1]*sb0)), m(P(1, cx+dB[0]*sb1, cy+dB[1]*sb1))}
}

func circ(t float64) r3.Vector { return r3.Vector{X: math.Cos(t), Y: math.Sin(t), Z: 0}.Normalize() }

// edge a on a coordinate great circle, edge b leaving that plane by -d0 / +d1: plane angles down to 1e-300
func genPlane(rng *vkit.Rng) quad {
	m := axisMap(rng)
	t0 := rng.Range(0, 2*math.Pi)
	span := rng.Range(0.05, 3.0)
	if rng.Intn(3) == 0 {
		span = logU(rng, 1, 8)
	}
	a0, a1 := circ(t0), circ(t0+span)
	u0, u1 := rng.Range(0.02, 0.98), rng.Range(0.02, 0.98)
	if rng.Intn(4) == 0 {
		u0, u1 = 0, 1 // b's endpoints exactly above/below a's endpoints
	}
	b0, b1 := circ(t0+span*math.Min(u0, u1)), circ(t0+span*math.Max(u0, u1))
	if rng.Intn(3) == 0 { // b sticks out of a on one side, crossing still inside a
		b1 = circ(t0 + span*(1+rng.Range(0.1, 0.5)))
	}
	e := rng.Range(14, 300)
	d0, d1 := math.Pow(10, -e), math.Pow(10, -math.Min(e+rng.Range(-2, 2), 320))
	if rng.Intn(3) == 0 {
		d1 = d0
	}
	b0.Z, b1.Z = -d0, d1
	return quad{m(s2.Point{Vector: a0}), m(s2.Point{Vector: a1}), m(s2.Point{Vector: b0}), m(s2.Point{Vector: b1})}
}

// exactly collinear overlapping edges on a coordinate great circle (third coordinate exactly 0)
func genCollinear(rng *vkit.Rng) (quad, bool) {
	m := axisMap(rng)
	var ts [4]float64
	tiny := rng.Intn(3) == 0
	base, span := rng.Range(0, 2*math.Pi), rng.Range(0.01, 3.0)
	if rng.Intn(3) == 0 {
		span = logU(rng, 2, 14)
	}
	for i := range ts {
		ts[i] = rng.Float()
	}
	for i := range ts {
		for j := i + 1; j < 4; j++ {
			if ts[j] < ts[i] {
				ts[i], ts[j] = ts[j], ts[i]
			}
		}
	}
	var p [4]s2.Point
	tinyScale := math.Pow(10, -rng.Range(9, 300))
	for i, t := range ts {
		if tiny {
			p[i] = P(1, (t-0.5)*tinyScale, 0)
		} else {
			p[i] = s2.Point{Vector: circ(base + span*t)}
		}
	}
	var q quad
	if rng.Bool() {
		q = quad{p[0], p[2], p[1], p[3]} // overlapping
	} else {
		q = quad{p[0], p[3], p[1], p[2]} // nested
	}
	if rng.Bool() {
		q[0], q[1] = q[1], q[0]
	}
	if rng.Bool() {
		q[2], q[3] = q[3], q[2]
	}
	if rng.Bool() {
		q = quad{q[2], q[3], q[0], q[1]}
	}
	for i := range q {
		q[i] = m(q[i])
	}
	return q, tiny
}

// mirror-symmetric pairs: equal edge lengths (compareEdges decides), equidistant endpoints
// (projection's Cmp tie-break decides), exact cancellations (+0 / -0)
func genSymmetric(rng *vkit.Rng) quad {
	m := axisMap(rng)
	s := logU(rng, 0, 12)
	if rng.Intn(4) == 0 {
		s = math.Pow(10, -rng.Range(12, 200))
	}
	c := math.Sqrt(1 - s*s)
	q := quad{P(c, s, 0), P(c, -s, 0), P(c, 0, s), P(c, 0, -s)}
	switch rng.Intn(4) {
	case 0: // rotate b about x by 45 degrees: still equal lengths up to rounding
		h := s * math.Sqrt(0.5)
		q[2], q[3] = P(c, h, h), P(c, -h, -h)
	case 1: // b not centred
		q[2], q[3] = P(c, s/2, s), P(c, s/2, -s)
	}
	for i := range q {
		q[i] = m(q[i])
	}
	return q
}

// coordinate-permutation symmetric pairs: a1 is the mirror image of a0 in a plane x_i = s*x_j
// (two coordinates exchanged, optionally both negated) and b0 lies exactly in that plane, so the
// COMPUTED squared distances |b0-a0|^2 and |b0-a1|^2 are bit-equal (always for the X<->Y swap,
// whose squares are added in a commutative position; often for the others) and projection's
// Cmp tie-break decides which endpoint is subtracted.  tie reports whether the tie is exact.
func genPermSymmetric(rng *vkit.Rng) (q quad, tie bool) {
	v := randUnit(rng)
	i, j := [][2]int{{0, 1}, {0, 1}, {0, 2}, {1, 2}}[rng.Intn(4)][0], 0
	switch i {
	case 0:
		j = 1 + rng.Intn(2)
	default:
		j = 2
	}
	if rng.Intn(2) == 0 {
		i, j = 0, 1
	}
	sg := 1.0
	if rng.Intn(3) == 0 {
		sg = -1
	}
	get := func(u r3.Vector) [3]float64 { return [3]float64{u.X, u.Y, u.Z} }
	mk := func(c [3]float64) r3.Vector { return r3.Vector{X: c[0], Y: c[1], Z: c[2]} }
	c0 := get(v)
	c1 := c0
	c1[i], c1[j] = sg*c0[j], sg*c0[i]
	a0, a1 := s2.Point{Vector: v}, s2.Point{Vector: mk(c1)}
	if a0 == a1 {
		return q, false
	}
	m := a0.Add(a1.Vector).Normalize()
	var nc [3]float64
	nc[i], nc[j] = 1, -sg
	n := mk(nc).Normalize()
	d := m.Cross(n).Normalize()
	h, k := math.Pow(10, -rng.Range(1, 5)), math.Pow(10, -rng.Range(1, 5))
	if rng.Intn(4) == 0 {
		h = math.Pow(10, -rng.Range(5, 12))
	}
	w := get(m.Add(d.Mul(h)))
	w[j] = sg * w[i] // exactly in the mirror plane; Normalize keeps it there (same factor)
	b0 := s2.Point{Vector: mk(w).Normalize()}
	b1 := s2.Point{Vector: m.Sub(d.Mul(k)).Add(n.Mul(k * (rng.Float() - 0.5))).Normalize()}
	q = quad{a0, a1, b0, b1}
	if rng.Bool() {
		q = quad{a0, a1, b1, b0}
	}
	tie = b0.Sub(a0.Vector).Norm2() == b0.Sub(a1.Vector).Norm2()
	return q, tie
}

// move one endpoint of b next to the crossing point (k ulps)
// four points on the great circle of the plane x+y+z=0 (hexagon directions, coordinates +-sqrt(1/2)
// and 0, so the unperturbed points are EXACTLY coplanar), b's endpoints pushed off the plane by
// +k1*delta and -k2*delta in their zero coordinate: the edges cross at an angle of about delta and the
// exact path has to cancel terms that are more than 1000 binary digits apart (delta down to 2^-1074)
func genPlaneMixed(i int, k1, k2, delta float64) quad {
	s := math.Sqrt(0.5)
	h := [6][3]float64{{1, -1, 0}, {1, 0, -1}, {0, 1, -1}, {-1, 1, 0}, {-1, 0, 1}, {0, -1, 1}}
	mk := func(j int, off float64) s2.Point {
		v := h[((j%6)+6)%6]
		var w [3]float64
		for t := 0; t < 3; t++ {
			if v[t] == 0 {
				w[t] = off
			} else {
				w[t] = v[t] * s
			}
		}
		return P(w[0], w[1], w[2])
	}
	return quad{mk(i+1, 0), mk(i+3, 0), mk(i, k1*delta), mk(i+2, -k2*delta)}
}

func nearEndpoint(rng *vkit.Rng, q quad) quad {
	x := s2.Intersection(q[0], q[1], q[2], q[3])
	k := func() int { return rng.Intn(9) - 4 }
	p := P(vkit.Ulps(x.X, k()), vkit.Ulps(x.Y, k()), vkit.Ulps(x.Z, k()))
	i := rng.Intn(4)
	q[i] = p
	return q
}

func run(c *vkit.Collector, rng *vkit.Rng, budget int) {
	// constants the translation replaced by literals / the oracle uses
	c.Check("roundingEpsilon(float64) = 2^-53", vkit.App("fbiteq", vkit.F(s2.VerifRoundingEpsilon()), "(0x1p-53)%float"))

	c.Check("intersectionError = 8*dblError", vkit.App("fbiteq", vkit.F(s2.VerifIntersectionError()), "(0x1.ffffffffffffcp-51)%float"))
	if !(s2.VerifIntersectionError() <= bound) {
		violate(c, "intersectionError.constant", "the acceptance threshold of the stable path exceeds the documented 8*2^-53", s2.VerifIntersectionError())
	}

	fullEvery := 1
	emit := func(class string, q quad) bool {
		if s2.CrossingSign(q[0], q[1], q[2], q[3]) != s2.Cross {
			c.Class("rejected(not Cross):" + class)
			return false
		}
		c.Class(class)
		_, ok := s2.VerifIntersectionStable(q[0], q[1], q[2], q[3])
		c.Eval(q.key(), true)
		c.Sample(map[string]interface{}{"class": class, "a0": q[0].Vector, "a1": q[1].Vector, "b0": q[2].Vector, "b1": q[3].Vector, "stable": ok})
		checkQuad(c, class, q)
		corr(c, q, c.Evals%fullEvery == 0)
		return true
	}
	// regression corpus: the inputs of the findings made with this property (all repaired in
	// /repo except the antipode one), always run first
	hx := func(s string) float64 { f, _ := strconv.ParseFloat(s, 64); return f }
	for _, d := range []float64{1e-150, 1e-155, 1e-158, 1e-160, 1e-162, 1e-170, 1e-300} {
		emit("corpus:plane-angle-underflow", quad{P(1, 0, 0), P(0, 1, 0), P(1, 0, -d), P(0, 1, d)})
	}
	for _, L := range []float64{1e-60, 1e-78, 1e-100, 1e-170, 1e-300} {
		emit("corpus:zero-sign", quad{P(1, -L, 0), P(1, L, 0), P(1, 0, -L), P(1, L/2, L)})
	}
	emit("corpus:collinear-0,0.2/0.1,0.3", quad{s2.Point{Vector: circ(0)}, s2.Point{Vector: circ(0.2)}, s2.Point{Vector: circ(0.1)}, s2.Point{Vector: circ(0.3)}})
	emit("corpus:collinear-tiny", quad{P(hx("-0x1.a247fd5a21685p-752"), 0, 1), P(hx("-0x1.eaaac319bda5bp-750"), 0, 1), P(hx("0x1.041b86a6aeeep-749"), 0, 1), P(hx("-0x1.3208700fb21bp-751"), 0, 1)})
	emit("corpus:collinear-tiny", quad{P(-1, hx("-0x1.5857873480b53p-974"), 0), P(-1, hx("0x1.40638f5ca5d59p-971"), 0), P(-1, hx("0x1.a7ef04494eb83p-977"), 0), P(-1, hx("-0x1.0756600653c4cp-972"), 0)})
	emit("corpus:threshold-rejected(9.25*dblError)", quad{
		P(hx("-0x1.cf12b00871e7ap-01"), hx("-0x1.0a5a922fb81aap-02"), hx("-0x1.5a3e9718142dep-02")),
		P(hx("-0x1.1b1a2d5ef2ff3p-01"), hx("-0x1.823bfec4d882bp-01"), hx("0x1.6a5399efba4f5p-02")),
		P(hx("-0x1.ad84c3aae6182p-01"), hx("-0x1.13cb0de1eb61p-01"), hx("-0x1.3f96944803428p-04")),
		P(hx("-0x1.6d87778935d1ap-01"), hx("-0x1.34f99f1216938p-01"), hx("0x1.6baf8b33bfe12p-02"))})
	emit("corpus:antipode(known)", quad{
		P(hx("0x1.95909c3e8f0fep-01"), hx("-0x1.f2a763749576p-02"), hx("-0x1.78d0655c03954p-02")),
		P(hx("-0x1.95909c3e9063dp-01"), hx("0x1.f2a76374960d6p-02"), hx("0x1.78d0655bfd158p-02")),
		P(hx("0x1.95909c3e859d8p-01"), hx("-0x1.f2a76374bc30ep-02"), hx("-0x1.78d0655bf9001p-02")),
		P(hx("-0x1.95909c3e85a31p-01"), hx("0x1.f2a76374bc336p-02"), hx("0x1.78d0655bf8e4cp-02"))})

	// exactly coplanar hexagon points with denormal-scale offsets: mixed exponents in the exact path
	for i := 0; i < 6; i++ {
		for _, d := range []float64{0x1p-1074, 1e-310, 1e-300, 0x1p-980, 1e-250, 1e-200, 1e-160} {
			for _, k := range [][2]float64{{2, 1}, {3, 2}, {3, 1}} {
				emit("plane-mixed-exponent", genPlaneMixed(i, k[0], k[1], d))
				if i%2 == 0 {
					emit("plane-mixed-exponent", genPlaneMixed(i, -k[0], -k[1], d))
				}
			}
		}
	}
	thetas := []float64{math.Pi / 2, 1, 0.1, 1e-2, 1e-3, 1e-4, 1e-5, 1e-6, 1e-7, 1e-8, 1e-9, 1e-10, 1e-11, 1e-12, 1e-13, 1e-14, 3e-15, 1e-15}
	n := 5 * budget
	for _, th := range thetas {
		for k := 0; k < n; k++ {
			q := genAngle(rng, th, false)
			if emit(fmt.Sprintf("angle:%.0e", th), q) && k%2 == 0 {
				emit(fmt.Sprintf("endpoint:%.0e", th), nearEndpoint(rng, q))
			}
		}
		for k := 0; k < (n+1)/2; k++ {
			emit(fmt.Sprintf("antipodal:%.0e", th), genAngle(rng, th, true))
			emit(fmt.Sprintf("axis-tiny:%.0e", th), genAxisTiny(rng, th))
		}
	}
	for k := 0; k < 40*budget; k++ {
		emit("plane-angle<1e-14", genPlane(rng))
	}
	for k := 0; k < 60*budget; k++ {
		q, tiny := genCollinear(rng)
		if tiny {
			emit("collinear-tiny", q)
		} else {
			emit("collinear", q)
		}
	}
	for k := 0; k < 30*budget; k++ {
		emit("symmetric", genSymmetric(rng))
	}
	// exact ties in projection: [S] on many pairs (cheap), [T] on a few
	for k := 0; k < 600*budget; k++ {
		q, tie := genPermSymmetric(rng)
		class := "perm-symmetric:no-exact-tie"
		if tie {
			class = "perm-symmetric:exact-tie"
		}
		if k < 12*budget {
			emit(class, q)
			continue
		}
		if s2.CrossingSign(q[0], q[1], q[2], q[3]) != s2.Cross {
			c.Class("rejected(not Cross):perm-symmetric")
			continue
		}
		c.Class(class + "([S] only)")
		c.Eval(q.key(), true)
		checkQuad(c, class, q)
	}
	// compareEdges on arbitrary (also non-crossing, vertex-sharing) quadruples: total order facts
	pool := []s2.Point{P(1, 0, 0), P(0, 1, 0), P(0, 0, 1), P(-1, 0, 0), P(1, 0, math.Copysign(0, -1)), P(0.6, 0.8, 0), P(0.6, 0, 0.8), P(0.6, 0.8, 1e-300)}
	for k := 0; k < 60*budget; k++ {
		q := quad{pool[rng.Intn(len(pool))], pool[rng.Intn(len(pool))], pool[rng.Intn(len(pool))], pool[rng.Intn(len(pool))]}
		c.Check("compareEdges pool "+q.key(), vkit.App("Bool.eqb", vkit.App("s2_compareEdges", q.args()), vkit.B(s2.VerifCompareEdges(q[0], q[1], q[2], q[3]))))
	}
	c.Extra["max_sin_angle_over_2^-53_stable"] = maxSinSt / 0x1p-53
	c.Extra["max_sin_angle_over_2^-53_exact"] = maxSinEx / 0x1p-53
	c.Extra["max_abs_norm2_minus_1_over_2^-52"] = maxNorm2 / 0x1p-52
	c.Extra["bound_over_2^-53"] = bound / 0x1p-53
	c.Extra["margin"] = margin
	c.Extra["zero_sign_only_order_differences"] = zeroSigns
	c.Extra["violations_per_kind"] = perKind
}
