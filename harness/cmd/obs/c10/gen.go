package main

import (
	"math"

	"github.com/golang/geo/r1"
	"github.com/golang/geo/r3"
	"github.com/golang/geo/s1"
	"github.com/golang/geo/s2"
	"verifharness/internal/vkit"
)

type gen struct {
	rng *vkit.Rng
	c   *vkit.Collector
}

func P(x, y, z float64) s2.Point   { return s2.Point{Vector: r3.Vector{X: x, Y: y, Z: z}.Normalize()} }
func raw(x, y, z float64) s2.Point { return s2.Point{Vector: r3.Vector{X: x, Y: y, Z: z}} }

func (g *gen) tiny() float64 {
	return math.Pow(10, -float64(9+g.rng.Intn(8))) * g.rng.Range(0.5, 2) // 1e-9 .. 1e-16
}
func (g *gen) sgn() float64 {
	if g.rng.Bool() {
		return 1
	}
	return -1
}

func (g *gen) point() s2.Point {
	switch g.rng.Intn(8) {
	case 0: // near a pole
		d, th := g.tiny(), g.rng.Range(-math.Pi, math.Pi)
		return P(d*math.Cos(th), d*math.Sin(th), g.sgn())
	case 1: // exactly a pole or axis point
		ax := []s2.Point{north, south, raw(1, 0, 0), raw(-1, 0, 0), raw(0, 1, 0), raw(0, -1, 0)}
		return ax[g.rng.Intn(len(ax))]
	case 2: // on the equator / within nanometres of it
		th := g.rng.Range(-math.Pi, math.Pi)
		z := []float64{0, g.tiny(), -g.tiny()}[g.rng.Intn(3)]
		return P(math.Cos(th), math.Sin(th), z)
	case 3: // near the +-180 meridian
		lat := g.rng.Range(-1.5, 1.5)
		return P(-math.Cos(lat), []float64{0, g.tiny(), -g.tiny()}[g.rng.Intn(3)]*math.Cos(lat), math.Sin(lat))
	default:
		return s2.PointFromCoords(g.rng.Range(-1, 1), g.rng.Range(-1, 1), g.rng.Range(-1, 1))
	}
}

// perturb returns a unit point at distance about d from p in a random direction.
func (g *gen) perturb(p s2.Point, d float64) s2.Point {
	o := s2.Ortho(p)
	o2 := p.Cross(o.Vector).Normalize()
	th := g.rng.Range(0, 2*math.Pi)
	return s2.Point{Vector: p.Add(o.Mul(d * math.Cos(th))).Add(o2.Mul(d * math.Sin(th))).Normalize()}
}

// partner returns a second endpoint for an edge starting at a, from the adversarial classes.
func (g *gen) partner(a s2.Point) (s2.Point, string) {
	switch g.rng.Intn(13) {
	case 12: // nearly antipodal, rotated inside the plane through a and the pole (near-polar great circle)
		z := r3.Vector{X: 0, Y: 0, Z: 1}
		t := z.Sub(a.Mul(z.Dot(a.Vector)))
		if t.Norm() < 1e-9 {
			return g.point(), "random"
		}
		t = t.Normalize()
		th := math.Pow(10, -8-7*g.rng.Float())
		return s2.Point{Vector: a.Mul(-math.Cos(th)).Add(t.Mul(math.Sin(th))).Normalize()}, "near-antipodal-polar-circle"
	case 0:
		return a, "identical"
	case 1: // nearly identical around the 1.91346e-15 threshold: |n| = 2 sin(angle)
		return g.perturb(a, 0.95673e-15*g.rng.Range(0.7, 1.4)), "near-identical@threshold"
	case 2:
		return g.perturb(a, g.tiny()), "near-identical"
	case 3:
		return s2.Point{Vector: a.Mul(-1)}, "antipodal"
	case 4:
		return s2.Point{Vector: g.perturb(a, 0.95673e-15*g.rng.Range(0.7, 1.4)).Mul(-1)}, "near-antipodal@threshold"
	case 5:
		return s2.Point{Vector: g.perturb(a, g.tiny()).Mul(-1)}, "near-antipodal"
	case 6: // same meridian plane, other side of a pole
		ll := s2.LatLngFromPoint(a)
		lat := g.rng.Range(-1.5, 1.5)
		lng := float64(ll.Lng) + math.Pi + []float64{0, g.tiny(), -g.tiny()}[g.rng.Intn(3)]
		return P(math.Cos(lat)*math.Cos(lng), math.Cos(lat)*math.Sin(lng), math.Sin(lat)), "lng-span~180"
	case 7: // exactly through the pole: (x,y,z) -> (-x*k,-y*k,z')
		k := g.rng.Range(0.1, 3)
		return P(-a.X*k, -a.Y*k, g.rng.Range(-1, 1)), "through-pole"
	case 8: // passes within nanometres of a pole
		ll := s2.LatLngFromPoint(a)
		lng := float64(ll.Lng) + math.Pi + g.sgn()*g.tiny()
		lat := math.Abs(float64(ll.Lat)) * g.sgn()
		return P(math.Cos(lat)*math.Cos(lng), math.Cos(lat)*math.Sin(lng), math.Sin(lat)), "near-pole-pass"
	case 9: // same latitude, wide longitude difference (interior latitude extremum)
		ll := s2.LatLngFromPoint(a)
		lng := float64(ll.Lng) + g.rng.Range(-3.1, 3.1)
		lat := float64(ll.Lat) + []float64{0, g.tiny(), -g.tiny()}[g.rng.Intn(3)]
		return P(math.Cos(lat)*math.Cos(lng), math.Cos(lat)*math.Sin(lng), math.Sin(lat)), "same-lat"
	default:
		return g.point(), "random"
	}
}

func (g *gen) chain() ([]s2.Point, string) {
	n := 2 + g.rng.Intn(4)
	a := g.point()
	chain := []s2.Point{a}
	class := ""
	for len(chain) < n {
		b, cl := g.partner(chain[len(chain)-1])
		if class == "" {
			class = cl
		}
		chain = append(chain, b)
	}
	if g.rng.Intn(10) == 0 {
		// equatorial strip spanning a wide longitude range
		h := g.tiny() * 1e6
		chain = []s2.Point{P(math.Cos(-1.8), math.Sin(-1.8), -h), P(math.Cos(1.8), math.Sin(1.8), -h), P(math.Cos(1.8), math.Sin(1.8), h), P(math.Cos(-1.8), math.Sin(-1.8), h)}
		class = "equatorial-strip"
	}
	return chain, class
}

func (g *gen) rect() s2.Rect {
	lats := []float64{-math.Pi / 2, math.Pi / 2, 0, 1e-16, -1e-16, 0.5, -0.5, 1, -1, math.Pi/2 - 1e-15, -math.Pi/2 + 1e-15, 7e-16, -7e-16}
	lngs := []float64{-math.Pi, math.Pi, 0, math.Pi / 2, -math.Pi / 2, 1, -1, 3, -3, math.Pi - 1e-15, -math.Pi + 1e-15, 1e-16, math.Pi / 2 * (1 + 1e-15)}
	switch g.rng.Intn(12) {
	case 10, 11: // wider than 180 degrees in longitude and tall in latitude (e.g. lat [-30,30] x lng [-95,95])
		span := g.rng.Range(math.Pi*1.01, math.Pi*1.95)
		c0 := g.rng.Range(-math.Pi, math.Pi)
		lo, hi := -g.rng.Range(0.1, 1.2), g.rng.Range(0.1, 1.2)
		if g.rng.Intn(4) == 0 {
			lo = hi - g.rng.Range(0.05, 0.5)
		}
		g.c.Class("rect:wide-tall")
		return s2.Rect{Lat: r1.Interval{Lo: lo, Hi: hi}, Lng: s1.IntervalFromEndpoints(math.Remainder(c0-span/2, 2*math.Pi), math.Remainder(c0+span/2, 2*math.Pi))}
	case 0:
		return s2.EmptyRect()
	case 1:
		return s2.FullRect()
	case 2: // bounds produced by the real bounder
		ch, _ := g.chain()
		b := s2.NewRectBounder()
		for _, p := range ch {
			b.AddPoint(p)
		}
		return b.RectBound()
	case 3: // thin strips straddling the equator with a wide longitude span
		h := g.tiny()
		w := math.Pi - g.tiny()*[]float64{0, 1, 10}[g.rng.Intn(3)]
		return s2.Rect{Lat: r1.Interval{Lo: -h, Hi: h * g.rng.Range(0, 2)}, Lng: s1.Interval{Lo: -w / 2, Hi: w / 2}}
	}
	lo, hi := g.rng.Pick(lats), g.rng.Pick(lats)
	if g.rng.Intn(3) == 0 {
		lo, hi = g.rng.Range(-1.57, 1.57), g.rng.Range(-1.57, 1.57)
	}
	if lo > hi {
		lo, hi = hi, lo
	}
	l0, l1 := g.rng.Pick(lngs), g.rng.Pick(lngs)
	if g.rng.Intn(3) == 0 {
		l0, l1 = g.rng.Range(-3.14, 3.14), g.rng.Range(-3.14, 3.14)
	}
	return s2.Rect{Lat: r1.Interval{Lo: lo, Hi: hi}, Lng: s1.IntervalFromEndpoints(l0, l1)}
}

func (g *gen) cap() s2.Cap {
	ctr := g.point()
	switch g.rng.Intn(13) {
	case 10, 11, 12: // centred within its radius of the +-180 meridian, on either side, many radii
		rad := []float64{1e-9, 1e-6, 0.0175, 0.35, 1.0}[g.rng.Intn(5)] * g.rng.Range(0.5, 1.5)
		lat := g.rng.Range(-1.2, 1.2)
		if math.Abs(lat)+rad > 1.5 {
			lat = g.rng.Range(-0.5, 0.5)
		}
		off := rad / math.Cos(lat) * g.rng.Range(0, 0.95) * g.sgn()
		lng := math.Remainder(math.Pi+off, 2*math.Pi)
		g.c.Class("cap:near-antimeridian")
		return s2.CapFromCenterAngle(s2.PointFromLatLng(s2.LatLng{Lat: s1.Angle(lat), Lng: s1.Angle(lng)}), s1.Angle(rad))
	case 0:
		return s2.EmptyCap()
	case 1:
		return s2.FullCap()
	case 2:
		return s2.CapFromPoint(ctr)
	case 3: // touches a pole within rounding
		lat := float64(s2.LatLngFromPoint(ctr).Lat)
		return s2.CapFromCenterAngle(ctr, s1.Angle(math.Pi/2-math.Abs(lat)+g.sgn()*g.tiny()))
	case 4:
		return s2.CapFromCenterAngle(ctr, s1.Angle(g.tiny()))
	case 5:
		return s2.CapFromCenterAngle(ctr, s1.Angle(math.Pi/2+g.sgn()*g.tiny()))
	case 6:
		return s2.CapFromCenterAngle(ctr, s1.Angle(math.Pi-g.tiny()))
	}
	return s2.CapFromCenterAngle(ctr, s1.Angle(g.rng.Range(0, 3.2)))
}

// pointNearCap returns a point on, just inside or just outside the boundary of the cap, or random.
func (g *gen) pointNearCap(c s2.Cap) s2.Point {
	if c.IsEmpty() || c.IsFull() || g.rng.Intn(4) == 0 {
		return g.point()
	}
	r := float64(c.Radius())
	ctr := c.Center()
	o := s2.Ortho(ctr)
	o2 := ctr.Cross(o.Vector).Normalize()
	th := g.rng.Range(0, 2*math.Pi)
	rr := r * []float64{1, 1 - 1e-16, 1 + 1e-16, 1 - 1e-15, 0.5, 1 + 1e-9}[g.rng.Intn(6)]
	d := o.Mul(math.Cos(th)).Add(o2.Mul(math.Sin(th)))
	return s2.Point{Vector: ctr.Mul(math.Cos(rr)).Add(d.Mul(math.Sin(rr))).Normalize()}
}

// loopVertices: regular loops (small/large), loops around or through a pole, thin loops
// crossing the 180 meridian, loops with nearly antipodal consecutive vertices.
func (g *gen) loopVertices() ([]s2.Point, string) {
	switch g.rng.Intn(10) {
	case 8, 9: // a long edge (150..179.999 degrees) through or within nanometres of a pole
		z := g.sgn()
		lng := g.rng.Range(-3, 3)
		lat := []float64{0.26, 0.05, 1e-3, 1e-6}[g.rng.Intn(4)] * z
		off := []float64{0, 0, g.tiny(), -g.tiny()}[g.rng.Intn(4)]
		a := P(math.Cos(lat)*math.Cos(lng), math.Cos(lat)*math.Sin(lng), math.Sin(lat))
		lat2 := lat * g.rng.Range(0.5, 1.5)
		b := P(math.Cos(lat2)*math.Cos(lng+math.Pi+off), math.Cos(lat2)*math.Sin(lng+math.Pi+off), math.Sin(lat2))
		if g.rng.Bool() { // exactly the same meridian plane
			b = P(-a.X*g.rng.Range(0.5, 2), -a.Y, a.Z)
			b = s2.Point{Vector: r3.Vector{X: -a.X, Y: -a.Y, Z: a.Z * g.rng.Range(0.5, 1.5)}.Normalize()}
		}
		third := P(math.Cos(lng+1.5), math.Sin(lng+1.5), -0.5*z)
		if g.rng.Bool() {
			return []s2.Point{a, b, third}, "long-edge-near-pole"
		}
		return []s2.Point{b, a, third}, "long-edge-near-pole"
	case 0: // regular loop centred exactly on / within nanometres of a pole
		d := []float64{0, g.tiny()}[g.rng.Intn(2)]
		ctr := P(d, d*0.3, g.sgn())
		l := s2.RegularLoop(ctr, s1.Angle(g.rng.Range(1e-3, 1.4)), 3+g.rng.Intn(6))
		return l.Vertices(), "polar-regular"
	case 1: // a vertex exactly at the pole / an edge exactly through the pole
		z := g.sgn()
		lng := g.rng.Range(-3, 3)
		a := P(math.Cos(lng)*0.3, math.Sin(lng)*0.3, z)
		b := P(-a.X, -a.Y, a.Z)
		cc := P(math.Cos(lng+1.5)*0.3, math.Sin(lng+1.5)*0.3, z)
		if g.rng.Bool() {
			return []s2.Point{a, raw(0, 0, z), cc}, "vertex-at-pole"
		}
		return []s2.Point{a, b, cc}, "edge-through-pole"
	case 2: // big loop (radius > pi/2): contains a pole by being large
		l := s2.RegularLoop(g.point(), s1.Angle(g.rng.Range(1.6, 3.0)), 4+g.rng.Intn(5))
		return l.Vertices(), "large-regular"
	case 3: // thin equatorial strip over nearly 180 degrees of longitude
		h := g.tiny() * 1e5
		w := (math.Pi - g.tiny()*[]float64{1, 100, 1e6}[g.rng.Intn(3)]) / 2
		c0 := g.rng.Range(-3, 3)
		return []s2.Point{P(math.Cos(c0-w), math.Sin(c0-w), -h), P(math.Cos(c0+w), math.Sin(c0+w), -h), P(math.Cos(c0+w), math.Sin(c0+w), h), P(math.Cos(c0-w), math.Sin(c0-w), h)}, "equatorial-strip~180"
	case 4: // crossing the +-180 meridian
		l := s2.RegularLoop(P(-1, g.tiny()*g.sgn(), g.rng.Range(-0.9, 0.9)), s1.Angle(g.rng.Range(1e-6, 0.5)), 3+g.rng.Intn(5))
		return l.Vertices(), "across-180"
	case 5: // tiny loop
		l := s2.RegularLoop(g.point(), s1.Angle(g.tiny()*1e3), 3+g.rng.Intn(4))
		return l.Vertices(), "tiny"
	case 6: // cell loops (edges shared with other cells)
		id := g.cellID()
		cell := s2.CellFromCellID(id)
		return []s2.Point{cell.Vertex(0), cell.Vertex(1), cell.Vertex(2), cell.Vertex(3)}, "cell-loop"
	default:
		l := s2.RegularLoop(g.point(), s1.Angle(g.rng.Range(1e-4, 1.5)), 3+g.rng.Intn(8))
		return l.Vertices(), "regular"
	}
}

func (g *gen) cellID() s2.CellID {
	lvl := g.rng.Intn(31)
	var id s2.CellID
	switch g.rng.Intn(4) {
	case 0: // cells touching a pole or a face corner/edge
		p := []s2.Point{north, south, P(1, 1, 1), P(-1, 1, -1), P(1, 0, 1), P(-1, g.tiny(), 0), P(1, 1, 0)}[g.rng.Intn(7)]
		id = s2.CellFromPoint(p).ID()
	default:
		id = s2.CellFromPoint(g.point()).ID()
	}
	return id.Parent(lvl)
}

func (g *gen) cellUnion() s2.CellUnion {
	n := g.rng.Intn(6)
	cu := s2.CellUnion{}
	for i := 0; i < n; i++ {
		cu = append(cu, g.cellID())
	}
	if g.rng.Intn(3) == 0 && n > 0 { // clustered: neighbours of the first
		cu = append(cu, cu[0].EdgeNeighbors()[g.rng.Intn(4)])
	}
	cu.Normalize()
	return cu
}

// hullPoints: points in a small/medium cap; collinear runs; duplicates.
func (g *gen) hullPoints(n int) []s2.Point {
	ctr := g.point()
	rad := []float64{1e-9, 1e-5, 0.01, 0.5, 1.2}[g.rng.Intn(5)]
	pts := []s2.Point{}
	for len(pts) < n {
		switch g.rng.Intn(6) {
		case 0:
			if len(pts) >= 2 { // point on the great circle through two earlier points (nearly collinear)
				a, b := pts[g.rng.Intn(len(pts))], pts[g.rng.Intn(len(pts))]
				t := g.rng.Range(-0.5, 1.5)
				pts = append(pts, s2.Point{Vector: a.Mul(1 - t).Add(b.Mul(t)).Normalize()})
				continue
			}
			fallthrough
		case 1:
			if len(pts) >= 1 {
				pts = append(pts, pts[g.rng.Intn(len(pts))]) // duplicate
				continue
			}
			fallthrough
		default:
			pts = append(pts, g.perturb(ctr, rad*g.rng.Range(0, 1)))
		}
	}
	return pts
}
