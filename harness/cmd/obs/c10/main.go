// Observer C10: bounds are conservative.
//
//	[T] bit-exact correspondence of the RectBounder state after every AddPoint, RectBound(),
//	    Loop.initBound / Invert bound rules, the translated Rect/Cap leaves,
//	    CellUnion.RectBound/CapBound and Cell.CapBound folds, monotoneChain.
//	[S] the property itself on the real code (search.go).
package main

import (
	"fmt"
	"math"
	"strconv"

	"github.com/golang/geo/r3"
	"github.com/golang/geo/s1"
	"github.com/golang/geo/s2"
	"verifharness/internal/vkit"
)

func main() { vkit.Main("C10", []string{"Gen.Bounds", "Model.Bounds"}, run) }

// ---- Coq terms ----
func vec(v r3.Vector) string { return vkit.App("mk_r3_Vector", vkit.F(v.X), vkit.F(v.Y), vkit.F(v.Z)) }
func pt(p s2.Point) string   { return vkit.App("mk_s2_Point", vec(p.Vector)) }
func llT(l s2.LatLng) string {
	return vkit.App("mk_s2_LatLng", vkit.F(float64(l.Lat)), vkit.F(float64(l.Lng)))
}
func rectT(r s2.Rect) string {
	return vkit.App("mk_s2_Rect", vkit.App("mk_r1_Interval", vkit.F(r.Lat.Lo), vkit.F(r.Lat.Hi)),
		vkit.App("mk_s1_Interval", vkit.F(r.Lng.Lo), vkit.F(r.Lng.Hi)))
}
func capT(c s2.Cap) string {
	return vkit.App("mk_s2_Cap", pt(c.Center()), vkit.F(s2.VerifC10CapRadius(c)))
}
func ptList(ps []s2.Point) string {
	xs := make([]string, len(ps))
	for i, p := range ps {
		xs[i] = pt(p)
	}
	return vkit.List(xs)
}
func key(ps ...s2.Point) string {
	s := ""
	for _, p := range ps {
		s += fmt.Sprintf("%x,%x,%x;", math.Float64bits(p.X), math.Float64bits(p.Y), math.Float64bits(p.Z))
	}
	return s
}
func rectHasNaN(r s2.Rect) bool {
	return math.IsNaN(r.Lat.Lo) || math.IsNaN(r.Lat.Hi) || math.IsNaN(r.Lng.Lo) || math.IsNaN(r.Lng.Hi)
}

var north = s2.Point{Vector: r3.Vector{X: 0, Y: 0, Z: 1}}
var south = s2.Point{Vector: r3.Vector{X: 0, Y: 0, Z: -1}}

func run(c *vkit.Collector, rng *vkit.Rng, budget int) {
	g := &gen{rng: rng, c: c}
	runCorpus(c, g)
	runBounderTraces(c, g, budget)
	runLeaves(c, g, budget)
	runLoops(c, g, budget)
	runCells(c, g, budget)
	runHullT(c, g, budget)
	runSearch(c, g, budget)
}

// ---- [T] bounder traces ----
func bounderTrace(c *vkit.Collector, label string, chain []s2.Point) s2.Rect {
	b := s2.NewRectBounder()
	states := []string{}
	for _, p := range chain {
		b.AddPoint(p)
		a, all, bd := s2.VerifC10BounderState(b)
		states = append(states, vkit.App("mk_bounder", pt(a), llT(all), rectT(bd)))
		if rectHasNaN(bd) {
			violate(c, "RectBounder.AddPoint.NaN", "the running bound acquires a NaN endpoint", map[string]interface{}{"chain": chainJSON(chain)})
		}
	}
	rb := b.RectBound()
	c.Check("bounder trace "+label, vkit.App("list_eqb", "bounder_eqbits", vkit.App("bounder_trace", "new_bounder", ptList(chain)), vkit.List(states)))
	c.Check("RectBound "+label, vkit.App("s2_Rect_eqbits", vkit.App("rect_bound", vkit.App("bounder_run", ptList(chain))), rectT(rb)))
	return rb
}

func chainJSON(ps []s2.Point) []string {
	out := []string{}
	for _, p := range ps {
		out = append(out, fmt.Sprintf("(%x,%x,%x)", p.X, p.Y, p.Z))
	}
	return out
}

func hx(s string) float64 {
	f, err := strconv.ParseFloat(s, 64)
	if err != nil {
		panic(err)
	}
	return f
}

// runCorpus: fixed regression inputs (the findings recorded in KNOWN_FINDINGS.jsonl), run first.
func runCorpus(c *vkit.Collector, g *gen) {
	// nearly antipodal unit vertices on a near-polar great circle: math.Asin(>1) = NaN
	a := raw(hx("0x1.56e35039ce7a2p-02"), hx("-0x1.92c76039a2546p-03"), hx("0x1.d7d138f73c035p-01"))
	b := raw(hx("-0x1.56e35063cd04ep-02"), hx("0x1.92c7606af6a04p-03"), hx("-0x1.d7d138ecf9065p-01"))
	c.Class("corpus")
	rb := bounderTrace(c, "corpus:nan", []s2.Point{a, b})
	for _, p := range []s2.Point{a, b} {
		if !rb.ContainsLatLng(s2.LatLngFromPoint(p)) {
			violate(c, "RectBounder.AddPoint.NaN", "RectBound of the chain misses its own vertices (NaN latitude bound)", map[string]interface{}{"chain": chainJSON([]s2.Point{a, b}), "rect": rb.String()})
		}
	}
	// the same edge in a valid loop: the loop's bound is NaN and ContainsPoint rejects everything
	third := s2.Point{Vector: a.Cross(r3.Vector{X: 0, Y: 0, Z: 1}).Normalize()}
	l := s2.LoopFromPoints([]s2.Point{a, third, b})
	if l.Validate() == nil {
		inside := 0
		probes := []s2.Point{P(1, 2, -3), P(-1, 0.5, -0.2), south, P(0.3, -1, 0.1)}
		for _, q := range probes {
			// exact containment without the bound shortcut: q is inside the CCW side of all three edges
			// of the complement triangle iff it is outside the small triangle (a,b,third)
			if l.ContainsPoint(q) {
				inside++
			}
		}
		if rectHasNaN(l.RectBound()) && inside == 0 && l.Area() > 6 {
			violate(c, "RectBounder.AddPoint.NaN", fmt.Sprintf("valid loop of area %.3f has a NaN bound and ContainsPoint is false for every probe", l.Area()), map[string]interface{}{"loop": chainJSON(l.Vertices()), "bound": l.RectBound().String()})
		}
	}
	// latitude budget: a 172 degree edge exactly through the north pole
	pl := s2.Polyline{raw(hx("0x1.7c1209acf38a9p-01"), 0, hx("0x1.570f7711eb685p-01")), raw(hx("-0x1.a710e4d56615cp-01"), 0, hx("-0x1.205f9153a4d1p-01"))}
	if onEdgeExact(pl[0], pl[1], north) {
		checkContained(c, "Polyline", boundsOf{pl.RectBound(), pl.CapBound(), pl.CellUnionBound()}, north, map[string]interface{}{"class": "corpus", "polyline": chainJSON(pl)})
	}
	pl2 := s2.Polyline{raw(hx("-0x1.b94698402c4c9p-03"), 0, hx("-0x1.f3f9466b218f9p-01")), raw(hx("0x1.b946983dbefa9p-03"), 0, hx("0x1.f3f9466b43d59p-01"))}
	if onEdgeExact(pl2[0], pl2[1], north) {
		checkContained(c, "Polyline", boundsOf{pl2.RectBound(), pl2.CapBound(), nil}, north, map[string]interface{}{"class": "corpus", "polyline": chainJSON(pl2)})
	}
	// ConvexHull of an input with an exactly antipodal pair must be the full loop
	hq := s2.NewConvexHullQuery()
	hin := []s2.Point{north, south, raw(1, 0, 0)}
	for _, p := range hin {
		hq.AddPoint(p)
	}
	if h := hq.ConvexHull(); !h.IsFull() && h.Validate() != nil {
		violate(c, "ConvexHull.antipodal-input", "input contains an exactly antipodal pair but the hull is not the full loop and is invalid: "+h.Validate().Error(),
			map[string]interface{}{"input": chainJSON(hin), "hull": chainJSON(h.Vertices()), "cap_height": fmt.Sprint(hq.CapBound().Height())})
	}
	// regression (fixed by /repo bc3af1c): Cap.RectBound of this cap had Lng = [-pi, 0], an invalid interval
	capNeg := s2.VerifC10CapFromChord(raw(0, -1, 0), 1.9999999999999996)
	c.Check("corpus Cap.RectBound -pi endpoint", vkit.App("s2_Rect_eqbits", vkit.App("s2_Cap_RectBound", capT(capNeg)), rectT(capNeg.RectBound())))
	searchCap(c, g, capNeg)
	// Cap.RectBound: cap of radius just under pi/2 centred on the equator
	cp := s2.VerifC10CapFromChord(raw(0, 1, 0), 1.999999999771825)
	searchCapPoint(c, cp, raw(hx("0x1.f30dcfcff036cp-01"), hx("0x1.f5c311a626331p-34"), hx("-0x1.c9a19f944e524p-03")))
	// Cell.RectBound for a face cell
	cell := s2.CellFromCellID(s2.CellIDFromFace(1))
	q := raw(hx("0x1.279a74590331dp-01"), hx("0x1.279a74590331cp-01"), hx("-0x1.279a74590331dp-01"))
	if cell.ContainsPoint(q) {
		checkContained(c, "Cell", boundsFor(cell), q, map[string]interface{}{"cell": "face 1", "level": 0, "near_vertex": nearAnyVertex(q, cell)})
	}
}

func runBounderTraces(c *vkit.Collector, g *gen, budget int) {
	n := 500 * budget
	for k := 0; k < n; k++ {
		chain, class := g.chain()
		c.Class("chain:" + class)
		c.Eval("chain "+key(chain...), len(chain) >= 2)
		rb := bounderTrace(c, class+" "+key(chain...), chain)
		if k < 3 {
			c.Sample(map[string]interface{}{"type": "chain", "class": class, "points": chainJSON(chain), "RectBound": rb.String()})
		}
		// [S] every vertex of the chain is inside the final bound (computed lat/lng)
		for _, p := range chain {
			if rectHasNaN(rb) {
				break // reported as RectBounder.AddPoint.NaN by bounderTrace
			}
			if !rb.ContainsLatLng(s2.LatLngFromPoint(p)) && s2.LatLngFromPoint(p).IsValid() {
				violate(c, "RectBounder.vertex", "RectBound misses a vertex of the chain", map[string]interface{}{"chain": chainJSON(chain), "p": chainJSON([]s2.Point{p})})
			}
		}
		searchEdgesOfChain(c, g, chain, rb)
	}
}

// ---- [T] translated leaves ----
func runLeaves(c *vkit.Collector, g *gen, budget int) {
	n := 200 * budget
	for k := 0; k < n; k++ {
		r := g.rect()
		R := rectT(r)
		lab := fmt.Sprintf("rect %v #%d", r, k)
		c.Eval("rect "+fmt.Sprintf("%x %x %x %x", r.Lat.Lo, r.Lat.Hi, r.Lng.Lo, r.Lng.Hi), !r.IsEmpty())
		c.Check("ExpandForSubregions "+lab, vkit.App("s2_Rect_eqbits", vkit.App("s2_ExpandForSubregions", R), rectT(s2.ExpandForSubregions(r))))
		c.Check("PolarClosure "+lab, vkit.App("s2_Rect_eqbits", vkit.App("s2_Rect_PolarClosure", R), rectT(r.PolarClosure())))
		if r.IsValid() {
			cb := r.CapBound()
			c.Check("Rect.CapBound "+lab, vkit.App("s2_Cap_eqbits", vkit.App("s2_Rect_CapBound", R), capT(cb)))
		}
		r2 := g.rect()
		c.Check("Rect.Union "+lab, vkit.App("s2_Rect_eqbits", vkit.App("s2_Rect_Union", R, rectT(r2)), rectT(r.Union(r2))))
		c.Check("Rect.Contains "+lab, vkit.App("Bool.eqb", vkit.App("s2_Rect_Contains", R, rectT(r2)), vkit.B(r.Contains(r2))))
		searchRect(c, g, r)
		p := g.point()
		c.Check("Rect.ContainsPoint "+lab, vkit.App("Bool.eqb", vkit.App("s2_Rect_ContainsPoint", R, pt(p)), vkit.B(r.ContainsPoint(p))))
		c.Check("Rect.AddPoint "+lab, vkit.App("s2_Rect_eqbits", vkit.App("s2_Rect_AddPoint", R, llT(s2.LatLngFromPoint(p))), rectT(r.AddPoint(s2.LatLngFromPoint(p)))))
	}
	for k := 0; k < n; k++ {
		cp := g.cap()
		C := capT(cp)
		lab := fmt.Sprintf("cap %v #%d", cp, k)
		c.Eval("cap "+key(cp.Center())+fmt.Sprintf("%x", s2.VerifC10CapRadius(cp)), !cp.IsEmpty())
		c.Check("Cap.RectBound "+lab, vkit.App("s2_Rect_eqbits", vkit.App("s2_Cap_RectBound", C), rectT(cp.RectBound())))
		p := g.pointNearCap(cp)
		c.Check("Cap.ContainsPoint "+lab, vkit.App("Bool.eqb", vkit.App("s2_Cap_ContainsPoint", C, pt(p)), vkit.B(cp.ContainsPoint(p))))
		ap := cp.AddPoint(p)
		c.Check("Cap.AddPoint "+lab, vkit.App("s2_Cap_eqbits", vkit.App("s2_Cap_AddPoint", C, pt(p)), capT(ap)))
		if !ap.ContainsPoint(p) {
			violate(c, "Cap.AddPoint", "AddPoint(p) then ContainsPoint(p) is false", map[string]interface{}{"cap": cp.String(), "p": chainJSON([]s2.Point{p})})
		}
		c2 := g.cap()
		ac := cp.AddCap(c2)
		c.Check("Cap.AddCap "+lab, vkit.App("s2_Cap_eqbits", vkit.App("s2_Cap_AddCap", C, capT(c2)), capT(ac)))
		searchCap(c, g, cp)
		searchAddCap(c, g, cp, c2, ac)
	}
}

// ---- [T] loops: initBound pole logic, Invert ----
func runLoops(c *vkit.Collector, g *gen, budget int) {
	n := 150 * budget
	for k := 0; k < n; k++ {
		vs, class := g.loopVertices()
		l := s2.LoopFromPoints(vs)
		if l.Validate() != nil {
			c.Class("loop:invalid(skipped)")
			continue
		}
		c.Class("loop:" + class)
		c.Eval("loop "+key(vs...), true)
		cn, cs := l.ContainsPoint(north), l.ContainsPoint(south)
		lab := class + " " + key(vs...)
		old := l.RectBound()
		c.Check("Loop.initBound "+lab, vkit.App("s2_Rect_eqbits", vkit.App("loop_init_bound", ptList(vs), vkit.B(cn), vkit.B(cs)), rectT(old)))
		c.Check("Loop.subregionBound "+lab, vkit.App("s2_Rect_eqbits", vkit.App("s2_ExpandForSubregions", rectT(old)), rectT(s2.VerifC10SubregionBound(l))))
		searchLoop(c, g, l, class)
		// Invert
		inv := s2.LoopFromPoints(append([]s2.Point{}, vs...))
		inv.Invert()
		rv := inv.Vertices()
		icn, ics := inv.ContainsPoint(north), inv.ContainsPoint(south)
		c.Check("Loop.Invert bound "+lab, vkit.App("s2_Rect_eqbits",
			vkit.App("invert_bound", rectT(old), vkit.App("loop_init_bound", ptList(rv), vkit.B(icn), vkit.B(ics))), rectT(inv.RectBound())))
		searchLoop(c, g, inv, class+"/inverted")
		if k < 2 {
			c.Sample(map[string]interface{}{"type": "loop", "class": class, "vertices": chainJSON(vs), "bound": old.String(), "inverted_bound": inv.RectBound().String()})
		}
	}
}

// ---- [T] cells and cell unions ----
func runCells(c *vkit.Collector, g *gen, budget int) {
	n := 100 * budget
	for k := 0; k < n; k++ {
		id := g.cellID()
		cell := s2.CellFromCellID(id)
		cb := cell.CapBound()
		vs := []s2.Point{cell.Vertex(0), cell.Vertex(1), cell.Vertex(2), cell.Vertex(3)}
		c.Eval(fmt.Sprintf("cell %x", uint64(id)), true)
		c.Class(fmt.Sprintf("cell:level%02d", id.Level()/5*5))
		c.Check(fmt.Sprintf("Cell.CapBound %x", uint64(id)), vkit.App("s2_Cap_eqbits", vkit.App("cell_cap_bound", pt(cb.Center()), ptList(vs)), capT(cb)))
		for _, v := range vs {
			if !cb.ContainsPoint(v) {
				violate(c, "Cell.CapBound.vertex", "CapBound misses a vertex of the cell", map[string]interface{}{"cell": fmt.Sprintf("%x", uint64(id))})
			}
		}
		searchCell(c, g, cell)
	}
	for k := 0; k < 50*budget; k++ {
		cu := g.cellUnion()
		rs, caps, cells := []string{}, []string{}, []string{}
		for _, id := range cu {
			cell := s2.CellFromCellID(id)
			rs = append(rs, rectT(cell.RectBound()))
			caps = append(caps, capT(cell.CapBound()))
			cells = append(cells, vkit.Pair(pt(id.Point()), vkit.F(s2.AvgAreaMetric.Value(id.Level()))))
		}
		lab := fmt.Sprintf("%v", cu)
		c.Eval("cu "+lab, len(cu) > 0)
		c.Class(fmt.Sprintf("cellunion:size%d", len(cu)))
		c.Check("CellUnion.RectBound "+lab, vkit.App("s2_Rect_eqbits", vkit.App("union_rect_bound", vkit.List(rs)), rectT(cu.RectBound())))
		c.Check("CellUnion.CapBound "+lab, vkit.App("s2_Cap_eqbits", vkit.App("cu_cap_bound", vkit.List(cells), vkit.List(caps)), capT(cu.CapBound())))
		searchCellUnion(c, g, cu)
	}
}

// ---- [T] monotoneChain against the model run on the observed orientation table ----
func runHullT(c *vkit.Collector, g *gen, budget int) {
	for k := 0; k < 60*budget; k++ {
		pts := g.hullPoints(3 + g.rng.Intn(6))
		n := len(pts)
		// sort as ConvexHull does, by running the real query and reading the points back
		q := s2.NewConvexHullQuery()
		for _, p := range pts {
			q.AddPoint(p)
		}
		hull := q.ConvexHull()
		sorted := append([]s2.Point{}, s2.VerifC10HullPoints(q)...)
		for i, j := 0, len(sorted)-1; i < j; i, j = i+1, j-1 {
			sorted[i], sorted[j] = sorted[j], sorted[i]
		}
		n = len(sorted)
		if n < 3 || hull.IsFull() || hull.IsEmpty() {
			c.Class("hullT:degenerate")
			continue
		}
		idx := map[s2.Point]int{}
		for i, p := range sorted {
			idx[p] = i
		}
		tab := make([]string, 0, n*n*n)
		for i := 0; i < n; i++ {
			for j := 0; j < n; j++ {
				for l := 0; l < n; l++ {
					tab = append(tab, vkit.Z(int64(s2.RobustSign(sorted[i], sorted[j], sorted[l]))))
				}
			}
		}
		sign := fmt.Sprintf("(fun i j k => nthZ %s (i*%d+j*%d+k)%%Z 0%%Z)", vkit.List(tab), n*n, n)
		in := make([]string, n)
		for i := range in {
			in[i] = vkit.Z(int64(i))
		}
		toIdx := func(ps []s2.Point) string {
			xs := []string{}
			for _, p := range ps {
				xs = append(xs, vkit.Z(int64(idx[p])))
			}
			return vkit.List(xs)
		}
		chain := s2.VerifC10MonotoneChain(append([]s2.Point{}, sorted...))
		c.Class(fmt.Sprintf("hullT:n%d", n))
		c.Eval("hullT "+key(sorted...), true)
		c.Check("monotoneChain "+key(sorted...), vkit.App("list_eqb", "Z.eqb", vkit.App("monotone_chain", "Z", sign, vkit.List(in)), toIdx(chain)))
		c.Check("ConvexHull "+key(sorted...), vkit.App("list_eqb", "Z.eqb", vkit.App("hull_of_sorted", "Z", sign, vkit.List(in)), toIdx(hull.Vertices())))
	}
}

var _ = s1.Radian
