package main

// [S] the property evaluated on the real implementation.
//
// Premise "p is contained" is decided by the library's own exact containment test of the region
// (Loop/Polygon/Cell/Cap/CellUnion.ContainsPoint — the documented guarantee is stated over it),
// or, for polylines and bare edge chains, by an exact rational test that p lies on an edge.
// Conclusion: RectBound().ContainsLatLng(LatLngFromPoint(p)), CapBound().ContainsPoint(p),
// CellUnionBound() covers CellIDFromPoint(p); plus a 200-bit mpmath oracle for the true
// latitude/longitude (oracle.go).

import (
	"fmt"
	"math"
	"strings"

	"github.com/golang/geo/r3"
	"github.com/golang/geo/s1"
	"github.com/golang/geo/s2"
	"verifharness/internal/vkit"
)

// fs prints floats for replays (JSON cannot carry NaN).
func fs(xs ...float64) []string {
	out := make([]string, len(xs))
	for i, x := range xs {
		out[i] = fmt.Sprintf("%v", x)
	}
	return out
}

// neighbours returns p and the points one ulp away in every coordinate.
func neighbours(p s2.Point) []s2.Point {
	out := []s2.Point{p}
	for i := 0; i < 3; i++ {
		for _, d := range []int{1, -1} {
			q := p
			switch i {
			case 0:
				q.X = vkit.Ulps(q.X, d)
			case 1:
				q.Y = vkit.Ulps(q.Y, d)
			default:
				q.Z = vkit.Ulps(q.Z, d)
			}
			if q.Vector == q.Normalize() {
				out = append(out, q)
			}
		}
	}
	return out
}

func covers(ids []s2.CellID, p s2.Point) bool {
	leaf := s2.CellFromPoint(p).ID()
	for _, id := range ids {
		if id.Contains(leaf) {
			return true
		}
	}
	return false
}

type boundsOf struct {
	rect  s2.Rect
	cap   s2.Cap
	cells []s2.CellID
}

func boundsFor(r s2.Region) boundsOf {
	return boundsOf{r.RectBound(), r.CapBound(), r.CellUnionBound()}
}

// rectExcess is an approximate distance (radians) by which ll lies outside r.
func rectExcess(r s2.Rect, ll s2.LatLng) float64 {
	e := math.Max(0, math.Max(r.Lat.Lo-float64(ll.Lat), float64(ll.Lat)-r.Lat.Hi))
	if !r.Lng.Contains(float64(ll.Lng)) {
		d := func(a, b float64) float64 {
			x := math.Abs(a - b)
			return math.Min(x, 2*math.Pi-x)
		}
		// longitude excess measured as arc length on the point's parallel (longitude itself is
		// ill-conditioned within nanometres of a pole)
		e = math.Max(e, math.Cos(float64(ll.Lat))*math.Min(d(float64(ll.Lng), r.Lng.Lo), d(float64(ll.Lng), r.Lng.Hi)))
	}
	return e
}

// nearPoleBounderKind: violations of bounds computed by RectBounder (loops, polygons, polylines,
// bare chains) at points within 1e-6 rad of a pole share one root cause (the asin-based
// latitude budget of AddPoint) and are reported under one kind.
func nearPoleBounderKind(kind string, p s2.Point) bool {
	switch kind {
	case "Loop", "Polygon", "Polyline", "RectBounder", "RectBounder.edge-point":
		return math.Abs(float64(s2.LatLngFromPoint(p).Lat)) > math.Pi/2-1e-6
	}
	return false
}

// Kinds carry the discriminating facts of a violation, so that a known finding never hides a
// different failure at the same call site:
//
//	<site>.RectBound[(level0)].<lat|lng|latlng><class>   which coordinate is outside and by how much
//	  class "(<=2e-15)"   rounding level (a few ulps of pi); for face cells "(<=4.5e-16)" (one ulp)
//	  class "(<=3e-8,cap-edge-within-1e-6-of-pole)"  only Cap.RectBound, longitude only: asin amplification
//	  class ".gross"      anything larger (longitude excess is measured as arc length on the parallel)
//	<site>.CapBound[.pole|.mid|.near-vertex|.elsewhere]<class>
//	  class "(<=1e-14rad|4ulp)"  outside by at most 1e-14 rad or 4 ulps of the stored chord^2
//	  class ".gross"
func rectKind(base string, r s2.Rect, ll s2.LatLng, level0 bool, capNearPole bool) string {
	latOut := !r.Lat.Contains(float64(ll.Lat))
	lngOut := !r.Lng.Contains(float64(ll.Lng))
	coord := ".latlng"
	switch {
	case latOut && !lngOut:
		coord = ".lat"
	case lngOut && !latOut:
		coord = ".lng"
	}
	e := rectExcess(r, ll)
	small, label := 2e-15, "(<=2e-15)"
	if level0 {
		small, label = 4.5e-16, "(<=4.5e-16)"
	}
	switch {
	case e <= small:
		return base + coord + label
	case base == "Cap.RectBound" && coord == ".lng" && capNearPole && e <= 3e-8:
		return base + coord + "(<=3e-8,cap-edge-within-1e-6-of-pole)"
	}
	return base + coord + ".gross"
}

func capKind(base string, cp s2.Cap, p s2.Point, replay map[string]interface{}) string {
	switch base {
	case "Rect.CapBound":
		ctr := cp.Center()
		if ctr.X == 0 && ctr.Y == 0 {
			base += ".pole"
		} else {
			base += ".mid"
		}
	case "Cell.CapBound", "CellUnion.CapBound":
		if nv, ok := replay["near_vertex"].(bool); ok && nv {
			base += ".near-vertex"
		} else {
			base += ".elsewhere"
		}
	}
	r := s2.VerifC10CapRadius(cp)
	d := float64(s2.ChordAngleBetweenPoints(cp.Center(), p))
	ulp := math.Nextafter(math.Abs(r), math.Inf(1)) - math.Abs(r)
	if float64(cp.Center().Angle(p.Vector))-float64(cp.Radius()) <= 1e-14 || (d-r) <= 4*ulp {
		return base + "(<=1e-14rad|4ulp)"
	}
	return base + ".gross"
}

// capEdgeNearPole: the cap boundary passes within 1e-6 rad of a pole (where Cap.RectBound's
// asin(sinA/sinC) is ill-conditioned).
func capEdgeNearPole(cp s2.Cap) bool {
	lat := math.Abs(float64(s2.LatLngFromPoint(cp.Center()).Lat))
	return math.Abs(math.Pi/2-lat-float64(cp.Radius())) <= 1e-6
}

func capReplay(cp s2.Cap) map[string]interface{} {
	return map[string]interface{}{"cap_center": chainJSON([]s2.Point{cp.Center()}), "cap_radius_chord2": s2.VerifC10CapRadius(cp), "cap": cp.String(), "cap_near_pole": capEdgeNearPole(cp)}
}

func nearAnyVertex(p s2.Point, cells ...s2.Cell) bool {
	for _, cell := range cells {
		for k := 0; k < 4; k++ {
			if p.Sub(cell.Vertex(k).Vector).Norm() <= 4e-15 {
				return true
			}
		}
	}
	return false
}

// checkContained runs the conclusion of the property for one contained point.
func checkContained(c *vkit.Collector, kind string, b boundsOf, p s2.Point, replay map[string]interface{}) {
	ll := s2.LatLngFromPoint(p)
	rep := func() map[string]interface{} {
		m := map[string]interface{}{"p": chainJSON([]s2.Point{p}), "latlng": fs(float64(ll.Lat), float64(ll.Lng)), "rect": fs(b.rect.Lat.Lo, b.rect.Lat.Hi, b.rect.Lng.Lo, b.rect.Lng.Hi)}
		for k, v := range replay {
			m[k] = v
		}
		return m
	}
	c.Evals++
	if rectHasNaN(b.rect) {
		violate(c, "RectBounder.AddPoint.NaN", "the region's RectBound has a NaN endpoint", rep())
		return
	}
	if !b.rect.ContainsLatLng(ll) {
		k := kind + ".RectBound"
		if nearPoleBounderKind(kind, p) {
			k = "RectBounder.latBudget(near-pole)"
		}
		lvl, ok := replay["level"]
		level0 := ok && lvl == 0
		if level0 {
			k += "(level0)"
		}
		cnp, _ := replay["cap_near_pole"].(bool)
		k = rectKind(k, b.rect, ll, level0, cnp)
		violate(c, k, "a contained point's computed lat/lng is outside RectBound()", rep())
	}
	if !b.cap.ContainsPoint(p) {
		k := kind + ".CapBound"
		if b.cap == b.rect.CapBound() && kind != "Cap" {
			// Loop/Polygon/Polyline.CapBound() is RectBound().CapBound(): attribute to Rect.CapBound
			k = "Rect.CapBound"
		}
		k = capKind(k, b.cap, p, replay)
		violate(c, k, "a contained point is outside CapBound()", rep())
	}
	if b.cells != nil && !covers(b.cells, p) {
		violate(c, kind+".CellUnionBound", "a contained point is not covered by CellUnionBound()", rep())
	}
	cnp, _ := replay["cap_near_pole"].(bool)
	if nearPoleBounderKind(kind, p) {
		oracleQueue("RectBounder.latBudget(near-pole)", p, b.rect, false, rep)
	} else {
		oracleQueue(kind, p, b.rect, cnp, rep)
	}
}

// edgeCandidates: vertices, dense samples and the analytic latitude extremum of edge ab,
// each with its one-ulp neighbours.
func edgeCandidates(a, b s2.Point, dense int) []s2.Point {
	base := []s2.Point{a, b}
	for k := 1; k < dense; k++ {
		t := float64(k) / float64(dense)
		v := a.Mul(1 - t).Add(b.Mul(t))
		if v.Norm() > 1e-3 {
			base = append(base, s2.Point{Vector: v.Normalize()})
		}
	}
	if q, ok := latExtremum(a, b); ok {
		base = append(base, q, s2.Point{Vector: q.Mul(-1)})
	}
	out := []s2.Point{}
	for _, p := range base {
		out = append(out, neighbours(p)...)
	}
	return out
}

// searchEdgesOfChain: H_LATBOUND on bare chains — float points exactly on an edge must have
// their computed lat/lng inside RectBound().
func searchEdgesOfChain(c *vkit.Collector, g *gen, chain []s2.Point, rb s2.Rect) {
	if rectHasNaN(rb) {
		return // reported as RectBounder.AddPoint.NaN by bounderTrace
	}
	for i := 0; i+1 < len(chain); i++ {
		a, b := chain[i], chain[i+1]
		if a.Add(b.Vector).Norm() < 1e-14 { // nearly antipodal: the edge is not well defined; bound must be full
			continue
		}
		for _, p := range edgeCandidates(a, b, 4) {
			if !onEdgeExact(a, b, p) {
				continue
			}
			c.Evals++
			c.NonTrivial["on-edge "+key(a, b, p)] = true
			ll := s2.LatLngFromPoint(p)
			rep := func() map[string]interface{} {
				return map[string]interface{}{"chain": chainJSON(chain), "p": chainJSON([]s2.Point{p}), "latlng": fs(float64(ll.Lat), float64(ll.Lng)), "rect": fs(rb.Lat.Lo, rb.Lat.Hi, rb.Lng.Lo, rb.Lng.Hi)}
			}
			if !rb.ContainsLatLng(ll) && nearPoleBounderKind("RectBounder", p) {
				violate(c, "RectBounder.latBudget(near-pole)", "a float point exactly on an edge of the chain, within 1e-6 of a pole, has its computed latitude above RectBound()", rep())
			} else if !rb.ContainsLatLng(ll) {
				violate(c, "RectBounder.edge-point", "a float point exactly on an edge of the chain has its computed lat/lng outside RectBound()", rep())
			}
			if nearPoleBounderKind("RectBounder", p) {
				oracleQueue("RectBounder.latBudget(near-pole)", p, rb, false, rep)
			} else {
				oracleQueue("RectBounder.edge-point", p, rb, false, rep)
			}
		}
	}
}

func searchCap(c *vkit.Collector, g *gen, cp s2.Cap) {
	if cp.IsEmpty() || !cp.IsValid() {
		return
	}
	b := boundsFor(cp)
	capRep := capReplay(cp)
	if !b.rect.IsValid() {
		capRep["rect"] = fs(b.rect.Lat.Lo, b.rect.Lat.Hi, b.rect.Lng.Lo, b.rect.Lng.Hi)
		k := "Cap.RectBound.invalid" // any invalid result is a violation (the -pi endpoint case was fixed by /repo bc3af1c)
		violate(c, k, "Cap.RectBound() is not a valid Rect", capRep)
	}
	// probes on both sides of the +-180 meridian, at the centre latitude and around it
	cll := s2.LatLngFromPoint(cp.Center())
	for _, dl := range []float64{0, 0.3, -0.3, 0.9, -0.9} {
		for _, lng := range []float64{math.Pi, -math.Pi, math.Pi - 1e-9, -math.Pi + 1e-9, math.Pi - 1e-3, -math.Pi + 1e-3, math.Pi - 0.2, -math.Pi + 0.2} {
			lat := float64(cll.Lat) + dl*float64(cp.Radius())
			if math.Abs(lat) > math.Pi/2 {
				continue
			}
			p := s2.PointFromLatLng(s2.LatLng{Lat: s1.Angle(lat), Lng: s1.Angle(lng)})
			if cp.ContainsPoint(p) {
				checkContained(c, "Cap", b, p, capRep)
			}
		}
	}
	for k := 0; k < 6; k++ {
		for _, p := range neighbours(g.pointNearCap(cp)) {
			if cp.ContainsPoint(p) {
				checkContained(c, "Cap", b, p, capReplay(cp))
			}
		}
	}
	// extreme-latitude / extreme-longitude points of the cap boundary
	ctr := cp.Center()
	ll := s2.LatLngFromPoint(ctr)
	r := float64(cp.Radius())
	for _, dl := range []float64{r, -r} {
		lat := float64(ll.Lat) + dl
		q := s2.PointFromLatLng(s2.LatLng{Lat: s1.Angle(lat), Lng: ll.Lng})
		for _, p := range neighbours(q) {
			if cp.ContainsPoint(p) {
				checkContained(c, "Cap", b, p, capReplay(cp))
			}
		}
	}
}

func searchCapPoint(c *vkit.Collector, cp s2.Cap, p s2.Point) {
	if cp.ContainsPoint(p) {
		checkContained(c, "Cap", boundsFor(cp), p, capReplay(cp))
	}
}

// searchRect: every point of a grid of the rectangle (corners, edge midpoints incl. the
// mid-longitude points of the top/bottom edges, interior) must be inside Rect.CapBound().
func searchRect(c *vkit.Collector, g *gen, r s2.Rect) {
	if r.IsEmpty() || !r.IsValid() {
		return
	}
	b := boundsOf{r, r.CapBound(), r.CellUnionBound()}
	lngLen := r.Lng.Length()
	const n = 6
	for i := 0; i <= n; i++ {
		lat := r.Lat.Lo + (r.Lat.Hi-r.Lat.Lo)*float64(i)/n
		for j := 0; j <= n; j++ {
			lng := math.Remainder(r.Lng.Lo+lngLen*float64(j)/n, 2*math.Pi)
			p := s2.PointFromLatLng(s2.LatLng{Lat: s1.Angle(lat), Lng: s1.Angle(lng)})
			if r.ContainsPoint(p) {
				checkContained(c, "Rect", b, p, map[string]interface{}{"rect_deg": r.String()})
			}
		}
	}
}

func searchAddCap(c *vkit.Collector, g *gen, a, b, ab s2.Cap) {
	if a.IsEmpty() || b.IsEmpty() || !a.IsValid() || !b.IsValid() {
		return
	}
	// H_CAPARITH: every point of b (boundary samples, exact test by b.ContainsPoint) is in a.AddCap(b)
	for k := 0; k < 4; k++ {
		for _, p := range neighbours(g.pointNearCap(b)) {
			if b.ContainsPoint(p) && !ab.ContainsPoint(p) {
				violate(c, capKind("Cap.AddCap", ab, p, nil), "a point of the added cap is outside the result", map[string]interface{}{"a": a.String(), "b": b.String(), "p": chainJSON([]s2.Point{p}),
					"a_center": chainJSON([]s2.Point{a.Center()}), "a_r": s2.VerifC10CapRadius(a), "b_center": chainJSON([]s2.Point{b.Center()}), "b_r": s2.VerifC10CapRadius(b)})
			}
			c.Evals++
		}
	}
}

func loopCandidates(g *gen, vs []s2.Point, dense int) []s2.Point {
	out := []s2.Point{}
	for i := range vs {
		out = append(out, edgeCandidates(vs[i], vs[(i+1)%len(vs)], dense)...)
	}
	// interior by construction: the normalised vertex sum and points pulled from vertices toward it
	var s r3.Vector
	for _, v := range vs {
		s = s.Add(v.Vector)
	}
	if s.Norm() > 1e-6 {
		ctr := s2.Point{Vector: s.Normalize()}
		out = append(out, ctr)
		for _, v := range vs {
			for _, t := range []float64{1e-15, 1e-9, 0.5} {
				out = append(out, s2.Point{Vector: v.Mul(1 - t).Add(ctr.Mul(t)).Normalize()})
			}
		}
	}
	out = append(out, north, south, P(g.tiny(), -g.tiny(), 1), P(g.tiny(), g.tiny(), -1), g.point())
	return out
}

func searchLoop(c *vkit.Collector, g *gen, l *s2.Loop, class string) {
	b := boundsFor(l)
	vs := l.Vertices()
	n := 0
	for _, p := range loopCandidates(g, vs, 3) {
		if l.ContainsPoint(p) {
			n++
			checkContained(c, "Loop", b, p, map[string]interface{}{"class": class, "loop": chainJSON(vs)})
		}
	}
	c.NonTrivial[fmt.Sprintf("loop-contained %s %d", key(vs...), n)] = n > 0
}

func searchCell(c *vkit.Collector, g *gen, cell s2.Cell) {
	b := boundsFor(cell)
	cands := []s2.Point{cell.Center(), s2.Point{Vector: cell.Center().Vector}}
	for k := 0; k < 4; k++ {
		cands = append(cands, edgeCandidates(cell.Vertex(k), cell.Vertex((k+1)%4), 3)...)
		// unnormalised vertex
		cands = append(cands, neighbours(s2.Point{Vector: cell.Vertex(k).Mul(1 + 1e-15)})...)
	}
	for _, p := range cands {
		if cell.ContainsPoint(p) {
			checkContained(c, "Cell", b, p, map[string]interface{}{"cell": fmt.Sprintf("%x", uint64(cell.ID())), "level": cell.Level(), "near_vertex": nearAnyVertex(p, cell)})
		}
	}
}

// searchFaceCells: the six level-0 cells against every unit vector within +-2 ulps (per
// coordinate) of their extreme-latitude points (edge midpoints (n+-z)/sqrt2 of the equatorial
// faces, corners (+-1,+-1,+-1)/sqrt3, polar edge midpoints), and of their extreme-longitude points
// (side edge midpoints and corners).
func searchFaceCells(c *vkit.Collector) {
	base := []s2.Point{}
	for _, sx := range []float64{-1, 0, 1} {
		for _, sy := range []float64{-1, 0, 1} {
			for _, sz := range []float64{-1, 0, 1} {
				if sx == 0 && sy == 0 && sz == 0 {
					continue
				}
				base = append(base, P(sx, sy, sz)) // face centres, edge midpoints, corners of the cube
			}
		}
	}
	cells := []s2.Cell{}
	bounds := []boundsOf{}
	for f := 0; f < 6; f++ {
		cell := s2.CellFromCellID(s2.CellIDFromFace(f))
		cells = append(cells, cell)
		bounds = append(bounds, boundsFor(cell))
	}
	for _, q := range base {
		for dx := -2; dx <= 2; dx++ {
			for dy := -2; dy <= 2; dy++ {
				for dz := -2; dz <= 2; dz++ {
					p := raw(vkit.Ulps(q.X, dx), vkit.Ulps(q.Y, dy), vkit.Ulps(q.Z, dz))
					if math.Abs(p.Norm2()-1) > 4*2.220446049250313e-16 {
						continue
					}
					for f, cell := range cells {
						if cell.ContainsPoint(p) {
							checkContained(c, "Cell", bounds[f], p, map[string]interface{}{"cell": fmt.Sprintf("face %d", f), "level": 0, "near_vertex": nearAnyVertex(p, cell)})
						}
					}
				}
			}
		}
	}
	c.Class("cell:level0-extreme-point-family")
}

func searchCellUnion(c *vkit.Collector, g *gen, cu s2.CellUnion) {
	if len(cu) == 0 {
		if !cu.RectBound().IsEmpty() || !cu.CapBound().IsEmpty() {
			violate(c, "CellUnion.empty", "bounds of the empty union are not empty", nil)
		}
		return
	}
	b := boundsFor(&cu)
	cuCells := []s2.Cell{}
	for _, id := range cu {
		cuCells = append(cuCells, s2.CellFromCellID(id))
	}
	for _, id := range cu {
		cell := s2.CellFromCellID(id)
		cands := []s2.Point{cell.Center()}
		for k := 0; k < 4; k++ {
			cands = append(cands, neighbours(cell.Vertex(k))...)
		}
		for _, p := range cands {
			if cu.ContainsPoint(p) {
				checkContained(c, "CellUnion", b, p, map[string]interface{}{"union": fmt.Sprint(cu), "near_vertex": nearAnyVertex(p, cuCells...)})
			}
		}
	}
}

// ---- regions not tied to a [T] loop: polygons, polylines, sub-regions, hulls ----
func runSearch(c *vkit.Collector, g *gen, budget int) {
	searchFaceCells(c)
	searchPolygons(c, g, 60*budget)
	searchPolylines(c, g, 200*budget)
	searchWide(c, g, 40*budget)
	searchSubregions(c, g, 400*budget)
	searchHull(c, g, 300*budget)
	searchHullPolygons(c, g, 80*budget)
	searchDecoded(c, g, 60*budget)
	oracleRun(c)
}

func searchPolygons(c *vkit.Collector, g *gen, n int) {
	for k := 0; k < n; k++ {
		ctr := g.point()
		if g.rng.Intn(3) == 0 {
			ctr = P(g.tiny(), g.tiny(), g.sgn())
		}
		rad := g.rng.Range(1e-3, 1.5)
		nv := 3 + g.rng.Intn(6)
		outer := s2.RegularLoop(ctr, s1.Angle(rad), nv)
		loops := []*s2.Loop{outer}
		class := "polygon:shell"
		if g.rng.Bool() {
			hole := s2.RegularLoop(ctr, s1.Angle(rad*g.rng.Range(0.1, 0.7)), 3+g.rng.Intn(5))
			loops = append(loops, hole)
			class = "polygon:shell+hole"
		}
		if g.rng.Intn(4) == 0 { // second shell elsewhere
			o2 := s2.Point{Vector: ctr.Mul(-1)}
			loops = append(loops, s2.RegularLoop(o2, s1.Angle(g.rng.Range(1e-3, 0.5)), 4))
			class += "+far-shell"
		}
		poly := s2.PolygonFromLoops(loops)
		if poly.Validate() != nil {
			continue
		}
		c.Class(class)
		b := boundsFor(poly)
		for i := 0; i < poly.NumLoops(); i++ {
			vs := poly.Loop(i).Vertices()
			for _, p := range loopCandidates(g, vs, 2) {
				if poly.ContainsPoint(p) {
					checkContained(c, "Polygon", b, p, map[string]interface{}{"class": class, "loop0": chainJSON(poly.Loop(0).Vertices()), "nloops": poly.NumLoops()})
				}
			}
		}
		// every loop's bound is inside the polygon's bound
		for i := 0; i < poly.NumLoops(); i++ {
			if poly.Loop(i).IsHole() {
				continue
			}
			if !b.rect.Contains(poly.Loop(i).RectBound()) {
				violate(c, "Polygon.RectBound", "polygon bound does not contain a shell's bound", map[string]interface{}{"loop": chainJSON(poly.Loop(i).Vertices())})
			}
		}
	}
}

func searchPolylines(c *vkit.Collector, g *gen, n int) {
	for k := 0; k < n; k++ {
		var chain []s2.Point
		class := ""
		switch g.rng.Intn(4) {
		case 0: // edges in the plane y = 0 (through both poles): float points (x,0,z) are exactly on them
			m := 2 + g.rng.Intn(3)
			for i := 0; i < m; i++ {
				th := g.rng.Range(-math.Pi, math.Pi)
				if g.rng.Intn(3) == 0 {
					th = g.sgn()*math.Pi/2 + g.sgn()*g.tiny()
				}
				chain = append(chain, P(math.Cos(th), 0, math.Sin(th)))
			}
			class = "polyline:meridian-plane"
		case 1: // edges in the plane x = z : extremal latitude 45 degrees in the interior
			m := 2 + g.rng.Intn(3)
			for i := 0; i < m; i++ {
				th := g.rng.Range(-1.5, 1.5)
				x := math.Cos(th) / math.Sqrt2
				chain = append(chain, s2.Point{Vector: r3.Vector{X: x, Y: math.Sin(th), Z: x}.Normalize()})
			}
			class = "polyline:tilted-plane"
		case 2: // equator
			m := 2 + g.rng.Intn(3)
			for i := 0; i < m; i++ {
				th := g.rng.Range(-math.Pi, math.Pi)
				chain = append(chain, P(math.Cos(th), math.Sin(th), 0))
			}
			class = "polyline:equator"
		default:
			chain, class = g.chain()
			class = "polyline:" + class
		}
		pl := s2.Polyline(chain)
		c.Class(class)
		rb := pl.RectBound()
		cb := pl.CapBound()
		cells := pl.CellUnionBound()
		for i := 0; i+1 < len(chain); i++ {
			a, b := chain[i], chain[i+1]
			if a.Add(b.Vector).Norm() < 1e-14 {
				continue
			}
			cands := edgeCandidates(a, b, 8)
			// points of the same exact plane between a and b
			for j := 0; j < 6; j++ {
				t := g.rng.Float()
				v := a.Mul(1 - t).Add(b.Mul(t))
				if v.Norm() > 1e-3 {
					cands = append(cands, s2.Point{Vector: v.Normalize()})
				}
			}
			for _, p := range cands {
				if !onEdgeExact(a, b, p) {
					continue
				}
				c.NonTrivial["polyline-on-edge "+key(a, b, p)] = true
				checkContained(c, "Polyline", boundsOf{rb, cb, cells}, p, map[string]interface{}{"class": class, "polyline": chainJSON(chain)})
			}
		}
	}
}

// searchWide: pole-free band loops and polylines spanning more than 180 degrees of longitude
// with a large latitude extent (their RectBound is wide and tall, CapBound is derived from it).
func searchWide(c *vkit.Collector, g *gen, n int) {
	for k := 0; k < n; k++ {
		span := g.rng.Range(math.Pi*1.02, math.Pi*1.9)
		c0 := g.rng.Range(-math.Pi, math.Pi)
		latN, latS := g.rng.Range(0.2, 1.0), -g.rng.Range(0.2, 1.0)
		if g.rng.Intn(4) == 0 {
			latS = latN - g.rng.Range(0.05, 0.3) // band on one side of the equator
		}
		m := 6 + g.rng.Intn(6)
		top, bot := []s2.Point{}, []s2.Point{}
		for i := 0; i <= m; i++ {
			lng := math.Remainder(c0-span/2+span*float64(i)/float64(m), 2*math.Pi)
			top = append(top, s2.PointFromLatLng(s2.LatLng{Lat: s1.Angle(latN), Lng: s1.Angle(lng)}))
			bot = append(bot, s2.PointFromLatLng(s2.LatLng{Lat: s1.Angle(latS), Lng: s1.Angle(lng)}))
		}
		// polyline: west to east along the top, then back along the bottom
		pl := s2.Polyline(append(append([]s2.Point{}, top...), reverse(bot)...))
		bp := boundsOf{pl.RectBound(), pl.CapBound(), pl.CellUnionBound()}
		c.Class("wide:polyline")
		for _, p := range pl {
			checkContained(c, "Polyline", bp, p, map[string]interface{}{"class": "wide", "polyline": chainJSON(pl)})
		}
		searchRect(c, g, pl.RectBound())
		// loop: bottom west->east, top east->west (counter-clockwise band, no pole inside)
		vs := append(append([]s2.Point{}, bot...), reverse(top)...)
		l := s2.LoopFromPoints(vs)
		if l.Validate() != nil || enclosesPole(l) {
			c.Class("wide:loop(skipped)")
			continue
		}
		c.Class("wide:loop")
		searchLoop(c, g, l, "wide-band")
		poly := s2.PolygonFromLoops([]*s2.Loop{s2.LoopFromPoints(append([]s2.Point{}, vs...))})
		bpoly := boundsFor(poly)
		for _, p := range loopCandidates(g, vs, 2) {
			if poly.ContainsPoint(p) {
				checkContained(c, "Polygon", bpoly, p, map[string]interface{}{"class": "wide-band", "loop0": chainJSON(vs)})
			}
		}
	}
}

func reverse(ps []s2.Point) []s2.Point {
	out := make([]s2.Point, len(ps))
	for i, p := range ps {
		out[len(ps)-1-i] = p
	}
	return out
}

func enclosesPole(l *s2.Loop) bool { return l.ContainsPoint(north) || l.ContainsPoint(south) }

// searchSubregions: H_SUBREGION — A.Contains(B), neither encloses a pole =>
// ExpandForSubregions(A.RectBound()) contains B.RectBound().
func searchSubregions(c *vkit.Collector, g *gen, n int) {
	for k := 0; k < n; k++ {
		var A, B *s2.Loop
		class := ""
		switch g.rng.Intn(6) {
		case 0: // shrunk / rotated regular copies
			ctr := g.point()
			rad := g.rng.Range(1e-6, 1.3)
			if g.rng.Intn(3) == 0 {
				rad = g.tiny() * 1e3
			}
			nv := 3 + g.rng.Intn(6)
			A = s2.RegularLoop(ctr, s1.Angle(rad), nv)
			// inscribed loop with many more vertices touches A's edges' midpoints region
			shrink := math.Cos(math.Pi/float64(nv)) * g.rng.Range(0.9, 0.999999)
			B = s2.RegularLoop(ctr, s1.Angle(rad*shrink), 3+g.rng.Intn(24))
			class = "sub:shrunk-regular"
		case 1: // cell inside cell (sharing edges)
			id := g.cellID()
			if id.Level() >= 30 {
				id = id.Parent(29)
			}
			ch := id.Children()[g.rng.Intn(4)]
			if g.rng.Bool() && ch.Level() < 30 {
				ch = ch.Children()[g.rng.Intn(4)]
			}
			A = s2.LoopFromCell(s2.CellFromCellID(id))
			B = s2.LoopFromCell(s2.CellFromCellID(ch))
			class = "sub:cell-in-cell"
		case 2: // same loop
			vs, _ := g.loopVertices()
			A = s2.LoopFromPoints(vs)
			B = s2.LoopFromPoints(append([]s2.Point{}, vs...))
			class = "sub:same"
		case 3: // sub-polygon on A's own vertices (shares edges and vertices)
			ctr := g.point()
			A = s2.RegularLoop(ctr, s1.Angle(g.rng.Range(1e-9, 1.3)), 5+g.rng.Intn(6))
			av := A.Vertices()
			i := g.rng.Intn(len(av))
			B = s2.LoopFromPoints([]s2.Point{av[i], av[(i+1)%len(av)], av[(i+2)%len(av)]})
			class = "sub:shared-edges"
		case 4: // diamond inside a lat/lng-ish square with edges at the same extremal latitude
			ctr := g.point()
			rad := g.rng.Range(1e-4, 1.0)
			A = s2.RegularLoop(ctr, s1.Angle(rad), 4)
			av := A.Vertices()
			mid := func(a, b s2.Point) s2.Point { return s2.Point{Vector: a.Add(b.Vector).Normalize()} }
			B = s2.LoopFromPoints([]s2.Point{mid(av[0], av[1]), mid(av[1], av[2]), mid(av[2], av[3]), mid(av[3], av[0])})
			class = "sub:diamond"
		default: // thin strips straddling the equator over nearly 180 degrees; B has a nearly antipodal edge
			vs, _ := (&gen{rng: g.rng, c: g.c}).loopVerticesStrip()
			A = s2.LoopFromPoints(vs)
			B = s2.LoopFromPoints([]s2.Point{vs[0], vs[1], vs[2]})
			class = "sub:strip"
		}
		if A.Validate() != nil || B.Validate() != nil {
			continue
		}
		if enclosesPole(A) || enclosesPole(B) {
			c.Class(class + "(pole,skipped)")
			continue
		}
		if !A.Contains(B) {
			c.Class(class + "(not-contained)")
			continue
		}
		c.Class(class)
		c.Evals++
		c.NonTrivial["sub "+key(A.Vertices()...)+"|"+key(B.Vertices()...)] = true
		ex := s2.ExpandForSubregions(A.RectBound())
		if !ex.Contains(B.RectBound()) {
			violate(c, "ExpandForSubregions", "A.Contains(B), no pole enclosed, but ExpandForSubregions(A.RectBound()) does not contain B.RectBound()",
				map[string]interface{}{"class": class, "A": chainJSON(A.Vertices()), "B": chainJSON(B.Vertices()), "A_bound": A.RectBound().String(), "B_bound": B.RectBound().String(), "expanded": ex.String()})
		}
		if s2.VerifC10SubregionBound(A) != ex {
			violate(c, "Loop.subregionBound", "subregionBound differs from ExpandForSubregions(bound)", nil)
		}
	}
}

func (g *gen) loopVerticesStrip() ([]s2.Point, string) {
	h := g.tiny() * 1e5
	w := (math.Pi - g.tiny()*[]float64{1, 100, 1e6}[g.rng.Intn(3)]) / 2
	c0 := g.rng.Range(-3, 3)
	return []s2.Point{P(math.Cos(c0-w), math.Sin(c0-w), -h), P(math.Cos(c0+w), math.Sin(c0+w), -h), P(math.Cos(c0+w), math.Sin(c0+w), h), P(math.Cos(c0-w), math.Sin(c0-w), h)}, "strip"
}

// ---- convex hull ----
func searchHull(c *vkit.Collector, g *gen, n int) {
	for k := 0; k < n; k++ {
		q := s2.NewConvexHullQuery()
		var input []s2.Point
		class := ""
		switch g.rng.Intn(9) {
		case 0:
			class = "hull:empty"
		case 1:
			input = []s2.Point{g.point()}
			q.AddPoint(input[0])
			class = "hull:1point"
		case 2:
			a := g.point()
			b, cl := g.partner(a)
			input = []s2.Point{a, b}
			q.AddPoint(a)
			q.AddPoint(b)
			class = "hull:2points:" + cl
		case 3: // collinear points on one great circle
			a, b := g.point(), g.point()
			for i := 0; i < 3+g.rng.Intn(4); i++ {
				t := g.rng.Range(0, 1)
				v := a.Mul(1 - t).Add(b.Mul(t))
				if v.Norm() < 1e-3 {
					continue
				}
				p := s2.Point{Vector: v.Normalize()}
				input = append(input, p)
				q.AddPoint(p)
			}
			class = "hull:collinear"
		case 4:
			pl := s2.Polyline(g.hullPoints(2 + g.rng.Intn(8)))
			input = append(input, pl...)
			q.AddPolyline(&pl)
			class = "hull:polyline"
		case 5:
			vs, cl := g.loopVertices()
			l := s2.LoopFromPoints(vs)
			if l.Validate() != nil {
				continue
			}
			input = append(input, vs...)
			q.AddLoop(l)
			class = "hull:loop:" + cl
		case 6:
			ctr := g.point()
			rad := g.rng.Range(1e-6, 0.7)
			outer := s2.RegularLoop(ctr, s1.Angle(rad), 3+g.rng.Intn(6))
			hole := s2.RegularLoop(ctr, s1.Angle(rad*0.5), 4)
			poly := s2.PolygonFromLoops([]*s2.Loop{outer, hole})
			input = append(input, outer.Vertices()...)
			q.AddPolygon(poly)
			class = "hull:polygon+hole"
		default:
			input = g.hullPoints(3 + g.rng.Intn(12))
			for _, p := range input {
				q.AddPoint(p)
			}
			class = "hull:points"
		}
		checkHull(c, class, input, q.ConvexHull())
	}
}

// checkHull: the hull is convex (exact signs), a valid loop, and every input point is one of its
// vertices or on the inner side of every hull edge.
func checkHull(c *vkit.Collector, class string, input []s2.Point, hull *s2.Loop) {
	c.Evals++
	rep := func() map[string]interface{} {
		return map[string]interface{}{"class": class, "input": chainJSON(input), "hull": chainJSON(hull.Vertices())}
	}
	if len(input) == 0 {
		if !hull.IsEmpty() {
			violate(c, "ConvexHull.empty", "hull of nothing is not the empty loop", rep())
		}
		c.Class(class)
		return
	}
	if hull.IsFull() {
		c.Class(class + "(full)")
		return
	}
	if hull.IsEmpty() {
		violate(c, "ConvexHull.empty", "hull of a non-empty input is empty", rep())
		return
	}
	c.Class(class)
	c.NonTrivial["hull "+key(input...)] = true
	hv := hull.Vertices()
	m := len(hv)
	isVertex := map[s2.Point]bool{}
	for _, v := range hv {
		isVertex[v] = true
	}
	distinct := map[s2.Point]bool{}
	for _, p := range input {
		distinct[p] = true
	}
	// convex: every consecutive triple turns left (exact determinant; strict when the
	// input has at least three distinct points)
	for i := 0; i < m; i++ {
		s := exactDetSign(hv[i], hv[(i+1)%m], hv[(i+2)%m])
		if s < 0 { // s == 0 only for exactly collinear triples, decided by the symbolic perturbation
			violate(c, "ConvexHull.convex", fmt.Sprintf("hull turns right at vertex %d (exact sign %d)", (i+1)%m, s), rep())
			break
		}
	}
	if err := hull.Validate(); err != nil {
		k := "ConvexHull.valid"
		if len(distinct) == 2 && len(input) >= 2 && strings.Contains(err.Error(), "duplicate vertex") {
			// known only for two distinct points within a few ulps of each other
			var two []s2.Point
			for p := range distinct {
				two = append(two, p)
			}
			if float64(two[0].Angle(two[1].Vector)) <= 1e-15 {
				k = "ConvexHull.singleEdgeLoop"
			}
		}
		if strings.Contains(err.Error(), "antipodal") {
			for _, p := range input {
				if distinct[s2.Point{Vector: p.Mul(-1)}] { // known only when the input has an exactly antipodal pair
					k = "ConvexHull.antipodal-input"
				}
			}
		}
		violate(c, k, "hull loop is invalid: "+err.Error(), rep())
	}
	// every input point is a vertex or contained
	for _, p := range input {
		if isVertex[p] {
			return
		}
		if len(distinct) <= 2 {
			violate(c, "ConvexHull.contains", "with <= 2 distinct input points every input point must be a hull vertex", rep())
			break
		}
		inside := true
		for i := 0; i < m; i++ {
			if exactDetSign(hv[i], hv[(i+1)%m], p) < 0 {
				inside = false
			}
		}
		if !inside {
			r := rep()
			r["p"] = chainJSON([]s2.Point{p})
			violate(c, "ConvexHull.contains", "an input point is neither a hull vertex nor on the inner side of every hull edge (exact signs)", r)
			break
		}
		if !hull.ContainsPoint(p) && !onHullBoundary(hv, p) {
			r := rep()
			r["p"] = chainJSON([]s2.Point{p})
			violate(c, "ConvexHull.ContainsPoint", "an input point is not a vertex and hull.ContainsPoint is false", r)
			break
		}
	}
}

func onHullBoundary(hv []s2.Point, p s2.Point) bool {
	for i := range hv {
		if exactDetSign(hv[i], hv[(i+1)%len(hv)], p) == 0 {
			return true
		}
	}
	return false
}
