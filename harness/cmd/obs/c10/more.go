package main

// Round-3 additions: ConvexHullQuery.AddPolygon on multi-shell polygons, and the bounds of
// Encode->Decode images of loops and polygons (lossless and compressed formats).

import (
	"bytes"
	"fmt"
	"math"

	"github.com/golang/geo/s1"
	"github.com/golang/geo/s2"
	"verifharness/internal/vkit"
)

// multiShellLoops returns the loops of a polygon with n disjoint top-level shells around ctr
// (all within about `spread` rad of it), some with a hole and some holes with an island, in
// a random storage order.
func (g *gen) multiShellLoops(ctr s2.Point, n int, spread float64) (loops []*s2.Loop, shells [][]s2.Point) {
	r := spread / float64(n+1) * 0.45
	for k := 0; k < n; k++ {
		th := 2 * math.Pi * float64(k) / float64(n)
		c := ctr
		if n > 1 {
			o := s2.Ortho(ctr)
			o2 := ctr.Cross(o.Vector).Normalize()
			c = s2.Point{Vector: ctr.Add(o.Mul(spread * 0.5 * math.Cos(th))).Add(o2.Mul(spread * 0.5 * math.Sin(th))).Normalize()}
		}
		shell := s2.RegularLoop(c, s1.Angle(r), 3+g.rng.Intn(6))
		loops = append(loops, shell)
		shells = append(shells, shell.Vertices())
		if g.rng.Intn(2) == 0 {
			hole := s2.RegularLoop(c, s1.Angle(r*0.4), 4+g.rng.Intn(4))
			loops = append(loops, hole)
			if g.rng.Intn(2) == 0 {
				loops = append(loops, s2.RegularLoop(c, s1.Angle(r*0.15), 3+g.rng.Intn(3))) // island
			}
		}
	}
	// every storage order: shuffle
	for i := len(loops) - 1; i > 0; i-- {
		j := g.rng.Intn(i + 1)
		loops[i], loops[j] = loops[j], loops[i]
	}
	return loops, shells
}

func searchHullPolygons(c *vkit.Collector, g *gen, n int) {
	for k := 0; k < n; k++ {
		nsh := 1 + g.rng.Intn(5)
		spread := []float64{1e-6, 1e-3, 0.1, 0.8}[g.rng.Intn(4)]
		loops, _ := g.multiShellLoops(g.point(), nsh, spread)
		poly := s2.PolygonFromLoops(loops)
		if poly.Validate() != nil {
			c.Class("hull:polygon(invalid,skipped)")
			continue
		}
		class := fmt.Sprintf("hull:AddPolygon:%dshells/%dloops", nsh, poly.NumLoops())
		var input []s2.Point
		q2 := s2.NewConvexHullQuery()
		top := 0
		for i := 0; i < poly.NumLoops(); i++ {
			input = append(input, poly.Loop(i).Vertices()...)
			if _, hasParent := poly.Parent(i); !hasParent {
				top++
				q2.AddLoop(poly.Loop(i))
			}
		}
		q := s2.NewConvexHullQuery()
		q.AddPolygon(poly)
		hull := q.ConvexHull()
		// every vertex of every loop (holes and islands lie inside their shells) is a hull vertex or inside
		checkHull(c, class, input, hull)
		h2 := q2.ConvexHull()
		if !hull.BoundaryEqual(h2) && !(hull.IsFull() && h2.IsFull()) {
			violate(c, "ConvexHull.AddPolygon", fmt.Sprintf("hull via AddPolygon differs from the hull via AddLoop of the %d depth-0 shells", top),
				map[string]interface{}{"class": class, "via_AddPolygon": chainJSON(hull.Vertices()), "via_AddLoop": chainJSON(h2.Vertices()), "shells": top, "loops": poly.NumLoops()})
		}
	}
}

// ---- Encode -> Decode images ----

func snapLoop(l *s2.Loop, level int) *s2.Loop {
	vs := []s2.Point{}
	for _, v := range l.Vertices() {
		p := s2.CellFromPoint(v).ID().Parent(level).Point()
		if len(vs) == 0 || vs[len(vs)-1] != p {
			vs = append(vs, p)
		}
	}
	if len(vs) > 1 && vs[0] == vs[len(vs)-1] {
		vs = vs[:len(vs)-1]
	}
	return s2.LoopFromPoints(vs)
}

// checkDecodedLoop: the decoded loop d must have the bounds of the original o, a sub-region bound
// equal to ExpandForSubregions(RectBound) (hence containing RectBound), and must answer the
// sub-region sentence for the contained inner loop like the original.
func checkDecodedLoop(c *vkit.Collector, g *gen, format string, o, d, inner *s2.Loop) {
	c.Evals++
	rep := func() map[string]interface{} {
		return map[string]interface{}{"format": format, "loop": chainJSON(o.Vertices()), "nvertices": o.NumVertices(),
			"bound": o.RectBound().String(), "decoded_bound": d.RectBound().String(), "decoded_subregion_bound": s2.VerifC10SubregionBound(d).String()}
	}
	kind := "Decode(" + format + ").Loop"
	if d.RectBound() != o.RectBound() {
		violate(c, kind+".RectBound", "decoded loop's RectBound differs from the original's", rep())
	}
	sub := s2.VerifC10SubregionBound(d)
	if sub != s2.ExpandForSubregions(d.RectBound()) || !sub.Contains(d.RectBound()) {
		violate(c, kind+".subregionBound", "decoded loop's sub-region bound is not ExpandForSubregions(RectBound) / does not contain RectBound", rep())
	}
	if d.CapBound() != o.CapBound() {
		violate(c, kind+".CapBound", "decoded loop's CapBound differs from the original's", rep())
	}
	searchLoop(c, g, d, "decoded/"+format)
	if inner != nil && o.Contains(inner) {
		if !enclosesPole(o) && !enclosesPole(inner) && !sub.Contains(inner.RectBound()) {
			r := rep()
			r["inner"] = chainJSON(inner.Vertices())
			violate(c, kind+".subregion", "decoded loop contains the inner loop but its sub-region bound does not contain the inner loop's RectBound", r)
		}
		if !d.Contains(inner) || !d.ContainsNested(inner) {
			r := rep()
			r["inner"] = chainJSON(inner.Vertices())
			violate(c, kind+".Contains", "original.Contains(inner) is true but decoded.Contains/ContainsNested(inner) is false", r)
		}
	}
}

func searchDecoded(c *vkit.Collector, g *gen, n int) {
	for k := 0; k < n; k++ {
		ctr := g.point()
		if g.rng.Intn(4) == 0 {
			ctr = P(g.rng.Range(-0.2, 0.2), g.rng.Range(-0.2, 0.2), g.sgn()) // around a pole
		}
		rad := []float64{0.02, 0.09, 0.5, 1.2}[g.rng.Intn(4)] * g.rng.Range(0.7, 1.3)
		nv := []int{3, 5, 8, 20, 63, 64, 65, 72, 100}[g.rng.Intn(9)]
		o := s2.RegularLoop(ctr, s1.Angle(rad), nv)
		snapLevel := -1
		if g.rng.Intn(3) != 0 {
			snapLevel = []int{10, 14, 20, 30}[g.rng.Intn(4)]
			o = snapLoop(o, snapLevel)
		}
		if o.Validate() != nil {
			c.Class("decode:invalid(skipped)")
			continue
		}
		inner := s2.RegularLoop(ctr, s1.Angle(rad*g.rng.Range(0.05, 0.5)), 3+g.rng.Intn(8))
		vs := o.Vertices()
		// lossless loop encoding
		var buf bytes.Buffer
		if err := o.Encode(&buf); err == nil {
			d := &s2.Loop{}
			if err := d.Decode(bytes.NewReader(buf.Bytes())); err == nil {
				c.Class(fmt.Sprintf("decode:loop:lossless:n%s", nvClass(len(vs))))
				checkDecodedLoop(c, g, "loop-lossless", o, d, inner)
			}
		}
		// polygon encoding: compressed when the vertices are snapped, lossless otherwise
		loops := []*s2.Loop{s2.LoopFromPoints(append([]s2.Point{}, vs...))}
		if g.rng.Bool() {
			hole := s2.RegularLoop(ctr, s1.Angle(rad*0.45), []int{4, 64, 80}[g.rng.Intn(3)])
			if snapLevel >= 0 {
				hole = snapLoop(hole, snapLevel)
			}
			inner = s2.RegularLoop(ctr, s1.Angle(rad*g.rng.Range(0.03, 0.12)), 3+g.rng.Intn(8))
			island := s2.RegularLoop(ctr, s1.Angle(rad*0.2), []int{5, 70}[g.rng.Intn(2)])
			if snapLevel >= 0 {
				island = snapLoop(island, snapLevel)
			}
			loops = append(loops, hole, island)
		}
		poly := s2.PolygonFromLoops(loops)
		if poly.Validate() != nil {
			c.Class("decode:polygon invalid(skipped)")
			continue
		}
		var pb bytes.Buffer
		if err := poly.Encode(&pb); err != nil {
			continue
		}
		format := "polygon-lossless"
		if int8(pb.Bytes()[0]) == 4 { // encodingCompressedVersion
			format = "polygon-compressed"
		}
		dp := &s2.Polygon{}
		if err := dp.Decode(bytes.NewReader(pb.Bytes())); err != nil || dp.NumLoops() != poly.NumLoops() {
			violate(c, "Decode("+format+").Polygon", "the polygon's own encoding does not decode", map[string]interface{}{"loop0": chainJSON(vs)})
			continue
		}
		c.Class(fmt.Sprintf("decode:%s:n%s:loops%d", format, nvClass(len(vs)), poly.NumLoops()))
		c.NonTrivial["decode "+format+key(vs...)] = true
		for i := 0; i < poly.NumLoops(); i++ {
			ol, dl := poly.Loop(i), dp.Loop(i)
			var in *s2.Loop
			if !ol.IsHole() {
				// a small loop around a vertex-sum interior point of this loop
				in = s2.RegularLoop(ctr, s1.Angle(float64(ol.CapBound().Radius())*0.05+1e-9), 4)
				if i == 0 {
					in = inner
				}
			}
			checkDecodedLoop(c, g, format, ol, dl, in)
		}
		if dp.RectBound() != poly.RectBound() || dp.CapBound() != poly.CapBound() {
			violate(c, "Decode("+format+").Polygon.bounds", "decoded polygon's RectBound/CapBound differ from the original's", map[string]interface{}{"loop0": chainJSON(vs)})
		}
		innerPoly := s2.PolygonFromLoops([]*s2.Loop{s2.LoopFromPoints(append([]s2.Point{}, inner.Vertices()...))})
		if poly.Contains(innerPoly) != dp.Contains(innerPoly) {
			violate(c, "Decode("+format+").Polygon.Contains", fmt.Sprintf("original.Contains(inner) = %v but decoded.Contains(inner) = %v", poly.Contains(innerPoly), dp.Contains(innerPoly)),
				map[string]interface{}{"loop0": chainJSON(vs), "inner": chainJSON(inner.Vertices()), "nloops": poly.NumLoops()})
		}
		b := boundsFor(dp)
		for i := 0; i < dp.NumLoops(); i++ {
			for _, p := range dp.Loop(i).Vertices() {
				if dp.ContainsPoint(p) {
					checkContained(c, "Polygon", b, p, map[string]interface{}{"class": "decoded/" + format})
				}
			}
		}
	}
}

func nvClass(n int) string {
	if n >= 64 {
		return ">=64"
	}
	return "<64"
}
