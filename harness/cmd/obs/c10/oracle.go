package main

// 200-bit oracle (mpmath through python3-vt, one subprocess per run): the true latitude and
// longitude of a contained point must not lie outside RectBound() by more than the rounding of
// LatLngFromPoint. Margins: latitude 2*dblEpsilon, longitude 4*dblEpsilon (two ulps of pi).

import (
	"encoding/json"
	"fmt"
	"math"
	"os"
	"os/exec"
	"path/filepath"
	"time"

	"github.com/golang/geo/s2"
	"verifharness/internal/vkit"
)

type oq struct {
	Kind        string    `json:"kind"`
	P           [3]string `json:"p"`
	R           [4]string `json:"r"`
	rep         func() map[string]interface{}
	capNearPole bool
}

var oracleQ []oq

const oracleMax = 14000

var oracleKindCount = map[string]int{}

func oracleQueue(kind string, p s2.Point, r s2.Rect, capNearPole bool, rep func() map[string]interface{}) {
	if len(oracleQ) >= oracleMax || r.IsEmpty() || oracleKindCount[kind] >= 2500 {
		return
	}
	oracleKindCount[kind]++
	h := func(f float64) string { return fmt.Sprintf("%x", f) }
	oracleQ = append(oracleQ, oq{kind, [3]string{h(p.X), h(p.Y), h(p.Z)}, [4]string{h(r.Lat.Lo), h(r.Lat.Hi), h(r.Lng.Lo), h(r.Lng.Hi)}, rep, capNearPole})
}

const oracleScript = `
import json, sys, mpmath
from mpmath import mpf, mp
mp.prec = 200
def f(h): return mpf(float.fromhex(h))
qs = json.load(open(sys.argv[1]))
out = []
pi = mp.pi
for q in qs:
    x, y, z = [f(h) for h in q["p"]]
    lo, hi, l0, l1 = [f(h) for h in q["r"]]
    lat = mpmath.atan2(z, mpmath.sqrt(x*x + y*y))
    dlat = max(lo - lat, lat - hi, mpf(0))
    dlng = mpf(0)
    full = (float(l0) == -float.fromhex("0x1.921fb54442d18p+1") and float(l1) == float.fromhex("0x1.921fb54442d18p+1"))
    if not full and (x != 0 or y != 0):
        lng = mpmath.atan2(y, x)
        inside = (l0 <= lng <= l1) if l0 <= l1 else (lng >= l0 or lng <= l1)
        if not inside:
            def cd(a, b):
                d = abs(a - b)
                return min(d, 2*pi - d)
            dlng = min(cd(lng, l0), cd(lng, l1))
    out.append([float(dlat), float(dlng)])
json.dump(out, open(sys.argv[2], "w"))
`

func oracleRun(c *vkit.Collector) {
	c.Extra["oracle_queries"] = len(oracleQ)
	c.Extra["oracle_margin"] = "true lat outside RectBound by > 2*dblEpsilon or true lng by > 4*dblEpsilon (mpmath, 200 bits)"
	if len(oracleQ) == 0 {
		return
	}
	dir := os.Getenv("VERIF_ORACLE_DIR")
	if dir == "" {
		dir = filepath.Join("..", "build", "C10_oracle")
	}
	if err := os.MkdirAll(dir, 0o755); err != nil {
		c.Extra["oracle"] = "skipped: " + err.Error()
		return
	}
	in, out, script := filepath.Join(dir, "in.json"), filepath.Join(dir, "out.json"), filepath.Join(dir, "oracle.py")
	data, _ := json.Marshal(oracleQ)
	os.WriteFile(in, data, 0o644)
	os.WriteFile(script, []byte(oracleScript), 0o644)
	os.Remove(out)
	cmd := exec.Command("python3-vt", script, in, out)
	done := make(chan error, 1)
	t0 := time.Now()
	if err := cmd.Start(); err != nil {
		c.Extra["oracle"] = "skipped: " + err.Error()
		return
	}
	go func() { done <- cmd.Wait() }()
	select {
	case err := <-done:
		if err != nil {
			c.Extra["oracle"] = "failed: " + err.Error()
			return
		}
	case <-time.After(120 * time.Second):
		cmd.Process.Kill()
		c.Extra["oracle"] = "timed out"
		return
	}
	var res [][2]float64
	raw, err := os.ReadFile(out)
	if err != nil || json.Unmarshal(raw, &res) != nil || len(res) != len(oracleQ) {
		c.Extra["oracle"] = "unreadable output"
		return
	}
	const eps = 2.220446049250313e-16
	worstLat, worstLng := 0.0, 0.0
	for i, r := range res {
		if r[0] > worstLat {
			worstLat = r[0]
		}
		if r[1] > worstLng {
			worstLng = r[1]
		}
		if r[0] > 2*eps || r[1] > 4*eps {
			m := oracleQ[i].rep()
			m["true_lat_excess"], m["true_lng_excess"] = r[0], r[1]
			// same scheme as rectKind, for the exact latitude/longitude
			coord := ".true-latlng"
			if r[0] > 2*eps && !(r[1] > 4*eps) {
				coord = ".true-lat"
			} else if r[1] > 4*eps && !(r[0] > 2*eps) {
				coord = ".true-lng"
			}
			e := math.Max(r[0], r[1])
			k := oracleQ[i].Kind + coord
			switch {
			case e <= 2e-15:
				k += "(<=2e-15)"
			case oracleQ[i].Kind == "Cap" && coord == ".true-lng" && oracleQ[i].capNearPole && e <= 3e-8:
				k += "(<=3e-8,cap-edge-within-1e-6-of-pole)"
			default:
				k += ".gross"
			}
			if oracleQ[i].Kind == "RectBounder.latBudget(near-pole)" {
				k = oracleQ[i].Kind
			}
			violate(c, k, "the exact latitude/longitude of a contained point lies outside RectBound() by more than rounding", m)
		}
	}
	c.Extra["oracle"] = fmt.Sprintf("ok: %d points in %.1fs, worst true-lat excess %.3g, worst true-lng excess %.3g", len(res), time.Since(t0).Seconds(), worstLat, worstLng)
}

// violate records at most two violations per kind so that one frequent class cannot
// crowd the others out of the collector's global limit.
var violCount = map[string]int{}

func violate(c *vkit.Collector, kind, desc string, replay interface{}) {
	violCount[kind]++
	if violCount[kind] <= 2 {
		c.Violate(kind, desc, replay)
	}
}
