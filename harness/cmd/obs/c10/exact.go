package main

import (
	"math"
	"math/big"

	"github.com/golang/geo/r3"
	"github.com/golang/geo/s2"
)

// dy is an exact dyadic number m * 2^e.
type dy struct {
	m *big.Int
	e int
}

func dyOf(f float64) dy {
	if f == 0 {
		return dy{new(big.Int), 0}
	}
	fr, ex := math.Frexp(f) // f = fr * 2^ex, 0.5 <= |fr| < 1
	m := int64(fr * (1 << 53))
	return dy{big.NewInt(m), ex - 53}
}
func dyMul(a, b dy) dy { return dy{new(big.Int).Mul(a.m, b.m), a.e + b.e} }
func dyAlign(a, b dy) (*big.Int, *big.Int, int) {
	if a.e <= b.e {
		return a.m, new(big.Int).Lsh(b.m, uint(b.e-a.e)), a.e
	}
	return new(big.Int).Lsh(a.m, uint(a.e-b.e)), b.m, b.e
}
func dyAdd(a, b dy) dy {
	x, y, e := dyAlign(a, b)
	return dy{new(big.Int).Add(x, y), e}
}
func dySub(a, b dy) dy {
	x, y, e := dyAlign(a, b)
	return dy{new(big.Int).Sub(x, y), e}
}
func (a dy) sign() int { return a.m.Sign() }

// toFloatScaled returns the three values scaled by a common power of two so that the largest
// is in [0.5,1), rounded to float64 (direction preserved to 2^-53 relative to the largest).
func toFloatScaled(v [3]dy) r3.Vector {
	maxExp := math.MinInt32
	for _, d := range v {
		if d.m.Sign() != 0 {
			if ex := d.m.BitLen() + d.e; ex > maxExp {
				maxExp = ex
			}
		}
	}
	if maxExp == math.MinInt32 {
		return r3.Vector{}
	}
	out := [3]float64{}
	for i, d := range v {
		f := new(big.Float).SetPrec(200).SetInt(d.m)
		f.SetMantExp(f, d.e-maxExp)
		out[i], _ = f.Float64()
	}
	return r3.Vector{X: out[0], Y: out[1], Z: out[2]}
}

type dvec [3]dy

func dvecOf(p s2.Point) dvec { return dvec{dyOf(p.X), dyOf(p.Y), dyOf(p.Z)} }
func dCross(a, b dvec) dvec {
	return dvec{
		dySub(dyMul(a[1], b[2]), dyMul(a[2], b[1])),
		dySub(dyMul(a[2], b[0]), dyMul(a[0], b[2])),
		dySub(dyMul(a[0], b[1]), dyMul(a[1], b[0])),
	}
}
func dDot(a, b dvec) dy { return dyAdd(dyAdd(dyMul(a[0], b[0]), dyMul(a[1], b[1])), dyMul(a[2], b[2])) }

// exactDetSign is the sign of det(a,b,c) = (a x b) . c, computed without rounding.
func exactDetSign(a, b, c s2.Point) int { return dDot(dCross(dvecOf(a), dvecOf(b)), dvecOf(c)).sign() }

// onEdgeExact reports whether p lies exactly on the great-circle arc ab (shorter arc, a != -b):
// det(a,b,p) = 0 and p is between a and b: (a x p).(a x b) >= 0 and (p x b).(a x b) >= 0.
func onEdgeExact(a, b, p s2.Point) bool {
	A, B, Pp := dvecOf(a), dvecOf(b), dvecOf(p)
	n := dCross(A, B)
	if dDot(n, Pp).sign() != 0 {
		return false
	}
	if n[0].sign() == 0 && n[1].sign() == 0 && n[2].sign() == 0 {
		return p == a || p == b
	}
	return dDot(dCross(A, Pp), n).sign() >= 0 && dDot(dCross(Pp, B), n).sign() >= 0
}

// latExtremum returns the point of the great circle through a and b with maximal latitude,
// q = z - (z.n)n/|n|^2 ~ (-nz nx, -nz ny, nx^2 + ny^2) with n = a x b exact, rounded once and
// normalised; ok is false when the circle is a meridian circle or degenerate.
func latExtremum(a, b s2.Point) (s2.Point, bool) {
	n := dCross(dvecOf(a), dvecOf(b))
	if n[0].sign() == 0 && n[1].sign() == 0 {
		return s2.Point{}, false
	}
	neg := dy{new(big.Int).Neg(n[2].m), n[2].e}
	q := [3]dy{dyMul(neg, n[0]), dyMul(neg, n[1]), dyAdd(dyMul(n[0], n[0]), dyMul(n[1], n[1]))}
	v := toFloatScaled(q)
	if v == (r3.Vector{}) {
		return s2.Point{}, false
	}
	return s2.Point{Vector: v.Normalize()}, true
}
