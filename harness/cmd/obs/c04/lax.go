// Lax polygons whose vertices are all balanced (every edge cancelled by its reverse): degenerate
// two-vertex loops, a loop together with its reverse, with or without a zero-length chain (the
// full loop), in every chain order.  The reference point of such a shape cannot be taken from an
// unbalanced vertex, so referencePointForShape (s2/shapeutil.go) decides by convention: the shape
// is full iff some chain has no edges.  Oracle (no call into s2): contains(p) = "some chain is
// empty" for every point p off the degenerate edges; consequently the family
// {loops}, {loops + full loop} contains every such point exactly once (a polygon and its
// complement), whatever the order of the chains.
package main

import (
	"fmt"

	"github.com/golang/geo/s2"
	"verifharness/internal/vkit"
)

func runLaxBalanced(c *vkit.Collector, rng *vkit.Rng, k int) {
	a, b, d := randPoint(rng), randPoint(rng), randPoint(rng)
	if antipodal(a, b) || antipodal(b, d) || antipodal(a, d) || a == b || b == d || a == d {
		return
	}
	base := [][][]s2.Point{
		{{a, b}},
		{{a, b}, {b, d}},
		{{a, b, d}, {d, b, a}},
		{{a, b}, {a, b, d}, {d, b, a}},
	}
	probes := []s2.Point{s2.OriginPoint(), pt(0, 0, 1), pt(0, 0, -1), neg(a), neg(mid(a, b))}
	for i := 0; i < 12; i++ {
		probes = append(probes, randPoint(rng))
	}
	for bi, loops := range base {
		// positions at which the zero-length chain is inserted: none, first, last, middle
		for ins := -1; ins <= len(loops); ins++ {
			var chains [][]s2.Point
			for i, l := range loops {
				if i == ins {
					chains = append(chains, []s2.Point{})
				}
				chains = append(chains, l)
			}
			if ins == len(loops) {
				chains = append(chains, []s2.Point{})
			}
			want := ins >= 0
			class := fmt.Sprintf("lax-balanced:family%d:fullLoopAt=%d", bi, ins)
			c.Class(class)
			shape := s2.LaxPolygonFromPoints(chains)
			rep := func(p s2.Point, extra string) map[string]interface{} {
				m := map[string]interface{}{"class": class, "k": k, "point_bits": bits(p), "what": extra}
				var cb [][][]string
				for _, ch := range chains {
					cb = append(cb, bitsOf(ch))
				}
				m["chains_bits"] = cb
				return m
			}
			c.Evals++
			if got := shape.ReferencePoint().Contained; got != want {
				c.Violate("LaxPolygon.ReferencePoint.balanced", fmt.Sprintf("all vertices balanced, a zero-length chain is present=%v, but ReferencePoint().Contained=%v", want, got), rep(shape.ReferencePoint().Point, "reference point of a balanced lax polygon"))
				continue
			}
			idx := s2.NewShapeIndex()
			idx.Add(shape)
			for _, vm := range []s2.VertexModel{s2.VertexModelOpen, s2.VertexModelSemiOpen, s2.VertexModelClosed} {
				q := s2.NewContainsPointQuery(idx, vm)
				for _, p := range probes {
					c.Evals++
					if got := q.Contains(p); got != want {
						c.Violate("ContainsPointQuery.laxBalanced", fmt.Sprintf("vertex model %d: query=%v for a point off the degenerate edges, but the shape is full=%v", vm, got, want), rep(p, "balanced lax polygon and its complement must contain the point exactly once"))
						break
					}
				}
			}
		}
	}
}
