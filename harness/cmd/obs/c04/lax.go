// Lax polygons whose vertices are all balanced (every edge cancelled by its reverse): degenerate
// two-vertex loops, a loop together with its reverse, with or without a zero-length chain (the
// full loop), in every chain order.  The reference point of such a shape cannot be taken from an
// unbalanced vertex, so referencePointForShape (s2/shapeutil.go) decides by convention: the shape
// is full iff some chain has no edges.  Oracle (no call into s2): contains(p) = "some chain is
// empty" for every point p off the degenerate edges; consequently the family
// {loops}, {loops + full loop} contains every such point exactly once (a polygon and its
// complement), whatever the order of the chains.
package main

import (
	"fmt"

	"github.com/golang/geo/s2"
	"verifharness/internal/vkit"
)

func runLaxBalanced(c *vkit.Collector, rng *vkit.Rng, k int) {
	a, b, d := randPoint(rng), randPoint(rng), randPoint(rng)
	if antipodal(a, b) || antipodal(b, d) || antipodal(a, d) || a == b || b == d || a == d {
		return
	}
	base := [][][]s2.Point{
		{{a, b}},
		{{a, b}, {b, d}},
		{{a, b, d}, {d, b, a}},
		{{a, b}, {a, b, d}, {d, b, a}},
	}
	probes := []s2.Point{s2.OriginPoint(), pt(0, 0, 1), pt(0, 0, -1), neg(a), neg(mid(a, b))}
	for i := 0; i < 12; i++ {
		probes = append(probes, randPoint(rng))
	}
	for bi, loops := range base {
		// positions at which the zero-length chain is inserted: none, first, last, middle
		for ins := -1; ins <= len(loops); ins++ {
			var chains [][]s2.Point
			for i, l := range loops {
				if i == ins {
					chains = append(chains, []s2.Point{})
				}
				chains = append(chains, l)
			}
			if ins == len(loops) {
				chains = append(chains, []s2.Point{})
			}
			want := ins >= 0
			class := fmt.Sprintf("lax-balanced:family%d:fullLoopAt=%d", bi, ins)
			c.Class(class)
			shape := s2.LaxPolygonFromPoints(chains)
			rep := func(p s2.Point, extra string) map[string]interface{} {
				m := map[string]interface{}{"class": class, "k": k, "point_bits": bits(p), "what": extra}
				var cb [][][]string
				for _, ch := range chains {
					cb = append(cb, bitsOf(ch))
				}
				m["chains_bits"] = cb
				return m
			}
			c.Evals++
			if got := shape.ReferencePoint().Contained; got != want {
				c.Violate("LaxPolygon.ReferencePoint.balanced", fmt.Sprintf("all vertices balanced, a zero-length chain is present=%v, but ReferencePoint().Contained=%v", want, got), rep(shape.ReferencePoint().Point, "reference point of a balanced lax polygon"))
				continue
			}
			idx := s2.NewShapeIndex()
			idx.Add(shape)
			for _, vm := range []s2.VertexModel{s2.VertexModelOpen, s2.VertexModelSemiOpen, s2.VertexModelClosed} {
				q := s2.NewContainsPointQuery(idx, vm)
				for _, p := range probes {
					c.Evals++
					if got := q.Contains(p); got != want {
						c.Violate("ContainsPointQuery.laxBalanced", fmt.Sprintf("vertex model %d: query=%v for a point off the degenerate edges, but the shape is full=%v", vm, got, want), rep(p, "balanced lax polygon and its complement must contain the point exactly once"))
						break
					}
				}
			}
		}
	}
}

// The six face loops (and the cells of one face at level 1) added to ONE index one at a time, with
// queries between the additions ("before or after the index exists", non-first updates of the
// index): after every addition each probe is contained by exactly the shapes whose own fresh loop
// contains it, and once all loops of the tiling are in, by exactly one.
func runIncrementalTiling(c *vkit.Collector, rng *vkit.Rng, k int) {
	var ids []s2.CellID
	if k%2 == 0 {
		for f := 0; f < 6; f++ {
			ids = append(ids, s2.CellIDFromFace(f))
		}
	} else {
		for f := 0; f < 6; f++ {
			if f == k%6 {
				ch := s2.CellIDFromFace(f).Children()
				ids = append(ids, ch[:]...)
			} else {
				ids = append(ids, s2.CellIDFromFace(f))
			}
		}
	}
	for i := len(ids) - 1; i > 0; i-- {
		j := rng.Intn(i + 1)
		ids[i], ids[j] = ids[j], ids[i]
	}
	var probes []s2.Point
	for i := 0; i < 40; i++ {
		probes = append(probes, randPoint(rng))
	}
	for _, id := range ids {
		probes = append(probes, s2.CellFromCellID(id).Center())
	}
	class := fmt.Sprintf("tiling:incremental:%d shapes", len(ids))
	c.Class(class)
	idx := s2.NewShapeIndex()
	var fresh []*s2.Loop
	rep := func(p s2.Point, step int, extra string) map[string]interface{} {
		var toks []string
		for _, id := range ids {
			toks = append(toks, id.ToToken())
		}
		return map[string]interface{}{"class": class, "k": k, "cells_in_order_of_addition": toks, "added_so_far": step + 1, "point_bits": bits(p), "what": extra}
	}
	for step, id := range ids {
		idx.Add(s2.LoopFromCell(s2.CellFromCellID(id)))
		fresh = append(fresh, s2.LoopFromCell(s2.CellFromCellID(id)))
		// a NEW query object after every mutation of the index (a query carried across a mutation is outside the contract)
		q := s2.NewContainsPointQuery(idx, s2.VertexModelSemiOpen)
		for _, p := range probes {
			want := 0
			for _, l := range fresh {
				if l.ContainsPoint(p) {
					want++
				}
			}
			c.Evals++
			got, panicked := func() (n int, pan interface{}) {
				defer func() { pan = recover() }()
				return len(q.ContainingShapes(p)), nil
			}()
			if panicked != nil {
				c.Violate("ContainsPointQuery.incremental.panic", fmt.Sprintf("query on an index that was extended after it had been built panics: %v", panicked), rep(p, step, "add, query, add, query"))
				return
			}
			if got != want {
				c.Violate("ContainsPointQuery.incremental", fmt.Sprintf("index extended shape by shape: %d containing shapes, fresh loops say %d", got, want), rep(p, step, "add, query, add, query"))
				return
			}
			if step == len(ids)-1 && want != 1 {
				c.Violate("tiling.exactlyOnce.incremental", fmt.Sprintf("a point is contained by %d loops of a tiling", want), rep(p, step, "complete tiling"))
				return
			}
		}
	}
}
