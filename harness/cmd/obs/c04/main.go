// Observer C04: point containment is a parity of crossings and partitions the sphere.
//
// [S] on the real code: every evaluation path agrees (brute force, ContainsPoint before and
// after the index exists, the index path alone, ContainsPointQuery, Polygon), an independent
// parity oracle (stateless s2.EdgeOrVertexCrossing from reference points whose containment is
// known by construction, two references for consistency, and exact math/big crossings), a
// loop/polygon and its inverse partition the probes, cell loops tile, containsCenter equals
// brute force at every index-cell centre; the hypotheses H-JORDAN, H-CLIP, H-LATBOUND are
// attacked directly.
// [T]: Model/Contain.v (brute force, cell path, dispatcher, invert, init of originInside,
// polygon paths, interior tracker) reproduces the observed answers from the table of
// crossings the real predicate reports.
package main

import (
	"bytes"
	"fmt"
	"math"
	"math/big"
	"strings"
	"sync"
	"time"

	"github.com/golang/geo/r3"
	"github.com/golang/geo/s1"
	"github.com/golang/geo/s2"
	"verifharness/internal/vkit"
)

func main() {
	vkit.Main("C04", []string{"Model.Contain", "Model.ContainCases", "Gen.C04Cell"}, run)
}

// ---------- interning and the crossing table ----------

type interner struct {
	m map[[3]uint64]int64
	n int64
}

func canon(x float64) uint64 {
	if x == 0 {
		return 0
	}
	return math.Float64bits(x)
}
func newInterner() *interner {
	in := &interner{m: map[[3]uint64]int64{}}
	in.id(s2.OriginPoint())
	in.id(s2.Point{})
	in.id(s2.Point{Vector: r3.Vector{X: 0, Y: 0, Z: 1}})
	in.id(s2.Point{Vector: r3.Vector{X: 0, Y: 0, Z: -1}})
	return in
}
func (in *interner) id(p s2.Point) int64 {
	k := [3]uint64{canon(p.X), canon(p.Y), canon(p.Z)}
	if v, ok := in.m[k]; ok {
		return v
	}
	in.m[k] = in.n
	in.n++
	return in.n - 1
}
func (in *interner) z(p s2.Point) string { return zs(in.id(p)) }

// every case term is wrapped in (...)%Z, so integers are printed bare
func zs(i int64) string {
	if i < 0 {
		return fmt.Sprintf("(%d)", i)
	}
	return fmt.Sprintf("%d", i)
}
func us(u uint64) string       { return fmt.Sprintf("%d", u) }
func zcase(term string) string { return "(" + term + ")%Z" }

type table struct {
	in    *interner
	seen  map[[4]int64]bool
	quads []string
}

func newTable(in *interner) *table { return &table{in: in, seen: map[[4]int64]bool{}} }

// add records the outcome of the real predicate for one quadruple the model will ask for.
func (t *table) add(a, b, c, d s2.Point) {
	k := [4]int64{t.in.id(a), t.in.id(b), t.in.id(c), t.in.id(d)}
	if t.seen[k] {
		return
	}
	t.seen[k] = true
	if s2.EdgeOrVertexCrossing(a, b, c, d) {
		t.quads = append(t.quads, fmt.Sprintf("(%s,%s,%s,%s)", zs(k[0]), zs(k[1]), zs(k[2]), zs(k[3])))
	}
}
func (t *table) term() string { return vkit.List(t.quads) }

func nat(i int) string { return fmt.Sprintf("%d%%nat", i) }
func natList(xs []int) string {
	out := make([]string, len(xs))
	for i, x := range xs {
		out[i] = fmt.Sprintf("%d", x)
	}
	return vkit.List(out) + "%nat"
}
func idList(in *interner, pts []s2.Point) string {
	out := make([]string, len(pts))
	for i, p := range pts {
		out[i] = in.z(p)
	}
	return vkit.List(out)
}

func cellTerm(in *interner, c *s2.VerifC04Cell) string {
	if c == nil {
		return "None"
	}
	sh := []string{}
	for _, cl := range c.Shapes {
		sh = append(sh, vkit.App("mk_clipped", nat(int(cl.ShapeID)), natList(cl.Edges), vkit.B(cl.ContainsCenter)))
	}
	return vkit.App("Some", vkit.App("mk_icell Z", in.z(c.Center), vkit.List(sh)))
}

// ---------- geometry helpers ----------

func pt(x, y, z float64) s2.Point { return s2.Point{Vector: r3.Vector{X: x, Y: y, Z: z}.Normalize()} }
func raw(x, y, z float64) s2.Point {
	return s2.Point{Vector: r3.Vector{X: x, Y: y, Z: z}}
}
func randPoint(rng *vkit.Rng) s2.Point {
	for {
		x, y, z := rng.Range(-1, 1), rng.Range(-1, 1), rng.Range(-1, 1)
		if n := x*x + y*y + z*z; n > 0.01 && n <= 1 {
			return pt(x, y, z)
		}
	}
}
func mid(a, b s2.Point) s2.Point { return s2.Point{Vector: a.Add(b.Vector).Normalize()} }
func neg(a s2.Point) s2.Point    { return s2.Point{Vector: a.Mul(-1)} }
func ulpNeighbour(p s2.Point, axis, k int) s2.Point {
	v := p.Vector
	switch axis {
	case 0:
		v.X = vkit.Ulps(v.X, k)
	case 1:
		v.Y = vkit.Ulps(v.Y, k)
	default:
		v.Z = vkit.Ulps(v.Z, k)
	}
	return s2.Point{Vector: v}
}
func antipodal(a, b s2.Point) bool { return a.Vector == b.Mul(-1) }
func bits(p s2.Point) []string {
	return []string{fmt.Sprintf("%x", math.Float64bits(p.X)), fmt.Sprintf("%x", math.Float64bits(p.Y)), fmt.Sprintf("%x", math.Float64bits(p.Z))}
}
func bitsOf(pts []s2.Point) [][]string {
	out := make([][]string, len(pts))
	for i, p := range pts {
		out[i] = bits(p)
	}
	return out
}
func clone(pts []s2.Point) []s2.Point { return append([]s2.Point(nil), pts...) }
func reversed(pts []s2.Point) []s2.Point {
	out := make([]s2.Point, len(pts))
	for i, p := range pts {
		out[len(pts)-1-i] = p
	}
	return out
}
func distinct(pts []s2.Point) bool {
	seen := map[[3]uint64]bool{}
	for _, p := range pts {
		k := [3]uint64{canon(p.X), canon(p.Y), canon(p.Z)}
		if seen[k] {
			return false
		}
		seen[k] = true
	}
	return true
}

// orthonormal frame around c
func frame(c s2.Point) (x, y r3.Vector) {
	x = c.Ortho().Normalize()
	y = c.Cross(x).Normalize()
	return
}

// starPoints: n vertices at increasing azimuth around c (CCW seen from outside), radius r(k).
func starPoints(c s2.Point, n int, r func(k int) float64) []s2.Point {
	x, y := frame(c)
	out := make([]s2.Point, n)
	for k := 0; k < n; k++ {
		th := 2 * math.Pi * float64(k) / float64(n)
		rr := r(k)
		d := x.Mul(math.Cos(th)).Add(y.Mul(math.Sin(th)))
		out[k] = s2.Point{Vector: c.Mul(math.Cos(rr)).Add(d.Mul(math.Sin(rr))).Normalize()}
	}
	return out
}

func snap(pts []s2.Point, level int) []s2.Point {
	out := make([]s2.Point, len(pts))
	for i, p := range pts {
		out[i] = s2.CellFromPoint(p).ID().Parent(level).Point()
	}
	return out
}

// ---------- independent oracles ----------

// parityFrom counts crossings of ref->p with the closed chain, using only the stateless
// predicate (no EdgeCrosser, no index, no originInside).
func parityFrom(pts []s2.Point, ref s2.Point, refInside bool, p s2.Point) bool {
	if ref == p {
		return refInside
	}
	inside := refInside
	n := len(pts)
	for i := 0; i < n; i++ {
		if s2.EdgeOrVertexCrossing(ref, p, pts[i], pts[(i+1)%n]) {
			inside = !inside
		}
	}
	return inside
}

func ratDet(a, b, c s2.Point) int {
	r := func(x float64) *big.Rat { return new(big.Rat).SetFloat64(x) }
	m := func(x, y *big.Rat) *big.Rat { return new(big.Rat).Mul(x, y) }
	ax, ay, az := r(a.X), r(a.Y), r(a.Z)
	bx, by, bz := r(b.X), r(b.Y), r(b.Z)
	cx, cy, cz := r(c.X), r(c.Y), r(c.Z)
	// a . (b x c)
	t1 := m(ax, new(big.Rat).Sub(m(by, cz), m(bz, cy)))
	t2 := m(ay, new(big.Rat).Sub(m(bz, cx), m(bx, cz)))
	t3 := m(az, new(big.Rat).Sub(m(bx, cy), m(by, cx)))
	return new(big.Rat).Add(t1, new(big.Rat).Add(t2, t3)).Sign()
}

// exactCrossing: interior crossing of AB and CD decided by exact determinants.
// ok=false when some determinant is zero (a configuration decided by symbolic perturbation).
func exactCrossing(a, b, c, d s2.Point) (cross, ok bool) {
	acb, cbd, bda, dac := ratDet(a, c, b), ratDet(c, b, d), ratDet(b, d, a), ratDet(d, a, c)
	if acb == 0 || cbd == 0 || bda == 0 || dac == 0 {
		return false, false
	}
	return acb == cbd && cbd == bda && bda == dac, true
}
func exactParityFrom(pts []s2.Point, ref s2.Point, refInside bool, p s2.Point) (inside, ok bool) {
	inside = refInside
	n := len(pts)
	for i := 0; i < n; i++ {
		x, k := exactCrossing(ref, p, pts[i], pts[(i+1)%n])
		if !k {
			return false, false
		}
		if x {
			inside = !inside
		}
	}
	return inside, true
}

// ---------- loop families ----------

type lcase struct {
	class string
	pts   []s2.Point
	ref   *s2.Point // a point known by construction to be inside (nil: unknown)
}

var specialCentres = []s2.Point{
	raw(0, 0, 1), raw(0, 0, -1), raw(1, 0, 0), raw(0, 1, 0), raw(-1, 0, 0), raw(0, -1, 0),
	pt(1, 1, 0), pt(1, 0, 1), pt(0, 1, 1), pt(1, 1, 1), pt(-1, 1, 1), pt(1, -1, -1), pt(-1, -1, 0),
	pt(1, 1, 1e-9), pt(1e-12, 1e-12, 1),
}

func pickCentre(rng *vkit.Rng) (s2.Point, string) {
	switch rng.Intn(3) {
	case 0:
		return specialCentres[rng.Intn(len(specialCentres))], "special-centre"
	default:
		return randPoint(rng), "random-centre"
	}
}

var sizes = []int{3, 4, 5, 7, 8, 12, 16, 24, 31, 32, 33, 34, 40, 64, 100, 200, 400}

func pickN(rng *vkit.Rng, k int) int {
	if k%3 == 0 {
		return []int{31, 32, 33, 34}[rng.Intn(4)]
	}
	return sizes[rng.Intn(len(sizes))]
}

func genLoop(rng *vkit.Rng, k int) lcase {
	switch k % 8 {
	case 0, 1: // regular
		c, cl := pickCentre(rng)
		n := pickN(rng, k)
		r := math.Pow(10, rng.Range(-6, 0.3))
		if r > 2.8 {
			r = 2.8
		}
		pts := s2.RegularLoop(c, s1.Angle(r), n).Vertices()
		return lcase{"regular/" + cl, clone(pts), &c}
	case 2: // star shaped
		c, cl := pickCentre(rng)
		n := pickN(rng, k)
		if n%2 == 1 {
			n++
		}
		r := math.Pow(10, rng.Range(-5, 0))
		f := rng.Range(0.3, 0.9)
		pts := starPoints(c, n, func(k int) float64 {
			if k%2 == 0 {
				return r
			}
			return r * f
		})
		return lcase{"star/" + cl, pts, &c}
	case 3: // snapped to cell centres
		c, cl := pickCentre(rng)
		n := pickN(rng, k)
		r := math.Pow(10, rng.Range(-3, 0))
		level := []int{30, 30, 24, 18}[rng.Intn(4)]
		if n > 100 || r < 1e-2 {
			level = 30
		}
		pts := snap(starPoints(c, n, func(int) float64 { return r }), level)
		return lcase{fmt.Sprintf("snapped-L%d/%s", level, cl), pts, &c}
	case 4: // cell loops
		level := rng.Intn(31)
		id := s2.CellFromPoint(randPoint(rng)).ID().Parent(level)
		if rng.Intn(3) == 0 { // cells touching a face corner / edge
			id = s2.CellIDFromFace(rng.Intn(6)).ChildBeginAtLevel(level)
		}
		cell := s2.CellFromCellID(id)
		c := id.Point()
		return lcase{"cell", clone(s2.LoopFromCell(cell).Vertices()), &c}
	case 5: // slivers
		a := randPoint(rng)
		x, _ := frame(a)
		d := math.Pow(10, rng.Range(-3, 0))
		b := s2.Point{Vector: a.Mul(math.Cos(d)).Add(x.Mul(math.Sin(d))).Normalize()}
		m := mid(a, b)
		c := ulpNeighbour(ulpNeighbour(m, rng.Intn(3), rng.Intn(9)-4), rng.Intn(3), rng.Intn(9)-4)
		pts := []s2.Point{a, b, c}
		if rng.Bool() {
			m2 := mid(a, m)
			pts = []s2.Point{a, b, c, ulpNeighbour(m2, rng.Intn(3), rng.Intn(5)-2)}
		}
		return lcase{"sliver", pts, nil}
	case 6: // through the poles / exactly representable vertices
		switch rng.Intn(5) {
		case 0:
			return lcase{"octant", []s2.Point{raw(0, 0, 1), raw(1, 0, 0), raw(0, 1, 0)}, nil}
		case 1:
			return lcase{"octant-south", []s2.Point{raw(0, 0, -1), raw(0, 1, 0), raw(1, 0, 0)}, nil}
		case 2: // an edge passing exactly over the north pole
			z := rng.Range(0.1, 0.9)
			x := math.Sqrt(1 - z*z)
			return lcase{"edge-over-pole", []s2.Point{raw(x, 0, z), raw(-x, 0, z), pt(0, -1, 0.2)}, nil}
		case 3: // a vertex at the pole
			n := 3 + rng.Intn(40)
			// the pole is well inside the inscribed circle (even for n = 3), so moving one
			// vertex onto it keeps the loop simple
			pts := starPoints(pt(0.08, 0.05, 1), n, func(int) float64 { return 0.4 })
			pts[rng.Intn(n)] = raw(0, 0, 1)
			return lcase{"vertex-at-pole", pts, nil}
		default: // a vertex equal to OriginPoint
			n := 3 + rng.Intn(40)
			o := s2.OriginPoint()
			pts := starPoints(o, n, func(int) float64 { return 0.3 })
			pts[0] = o
			return lcase{"vertex-at-origin", pts, nil}
		}
	default: // loops straddling face edges and corners, large loops
		c := []s2.Point{pt(1, 1, 0), pt(1, 1, 1), pt(1, 0, 1), pt(-1, 1, -1), pt(0, -1, 1)}[rng.Intn(5)]
		n := pickN(rng, k)
		r := []float64{1e-9, 1e-5, 0.01, 0.5, 1.5, 2.5}[rng.Intn(6)]
		if r < 1e-6 && n > 34 {
			n = 34
		}
		return lcase{"face-boundary", starPoints(c, n, func(int) float64 { return r }), &c}
	}
}

// ---------- probes ----------

func loopProbes(rng *vkit.Rng, lc lcase, cells []s2.VerifC04Cell) []s2.Point {
	pts := lc.pts
	n := len(pts)
	var out []s2.Point
	step := 1
	if n > 24 {
		step = n / 12
	}
	for i := 0; i < n; i += step {
		out = append(out, pts[i], mid(pts[i], pts[(i+1)%n]))
	}
	for k := 0; k < 4; k++ {
		v := pts[rng.Intn(n)]
		out = append(out, ulpNeighbour(v, rng.Intn(3), 1), ulpNeighbour(v, rng.Intn(3), -1))
		i := rng.Intn(n)
		out = append(out, ulpNeighbour(mid(pts[i], pts[(i+1)%n]), rng.Intn(3), 2*rng.Intn(2)-1))
	}
	if lc.ref != nil {
		out = append(out, *lc.ref, neg(*lc.ref))
	}
	out = append(out, s2.OriginPoint(), raw(0, 0, 1), raw(0, 0, -1), raw(1, 0, 0))
	for k := 0; k < 6; k++ {
		out = append(out, randPoint(rng))
	}
	// points near the loop: around a vertex at a distance comparable to the edge length
	for k := 0; k < 4; k++ {
		i := rng.Intn(n)
		d := pts[i].Distance(pts[(i+1)%n]).Radians() * rng.Range(0, 1.5)
		x, y := frame(pts[i])
		th := rng.Range(0, 2*math.Pi)
		out = append(out, s2.Point{Vector: pts[i].Add(x.Mul(d * math.Cos(th))).Add(y.Mul(d * math.Sin(th))).Normalize()})
	}
	for k := 0; k < 5 && len(cells) > 0; k++ {
		c := cells[rng.Intn(len(cells))]
		cell := s2.CellFromCellID(c.ID)
		out = append(out, c.Center, cell.Vertex(rng.Intn(4)))
	}
	// drop probes antipodal to OriginPoint (EdgeOrVertexCrossing is not defined for them)
	res := out[:0]
	for _, p := range out {
		if !antipodal(p, s2.OriginPoint()) && !math.IsNaN(p.X+p.Y+p.Z) {
			res = append(res, p)
		}
	}
	return res
}

// number of probes of a loop that also go through the Coq model
func tProbes(n int) int {
	if n > 64 {
		return 10
	}
	return 16
}

func findCell(cells []s2.VerifC04Cell, id s2.CellID) *s2.VerifC04Cell {
	lo, hi := 0, len(cells)
	for lo < hi {
		m := (lo + hi) / 2
		if cells[m].ID < id {
			lo = m + 1
		} else {
			hi = m
		}
	}
	if lo < len(cells) && cells[lo].ID == id {
		return &cells[lo]
	}
	return nil
}

// ---------- one loop ----------

func runLoop(c *vkit.Collector, rng *vkit.Rng, lc lcase, k int, withT bool) {
	pts := lc.pts
	n := len(pts)
	if !distinct(pts) {
		return
	}
	c.Class("loop:" + lc.class)
	switch {
	case n <= 32:
		c.Class("loop:n<=32")
	default:
		c.Class("loop:n>32")
	}
	rep := func(p s2.Point, extra string) map[string]interface{} {
		return map[string]interface{}{"type": "loop", "class": lc.class, "n": n, "vertices_bits": bitsOf(pts), "p_bits": bits(p), "p": []float64{p.X, p.Y, p.Z}, "what": extra}
	}
	L := s2.LoopFromPoints(clone(pts)) // the loop whose index gets built
	idx := L.VerifC04Index()
	cells := s2.VerifC04Cells(idx) // builds
	probes := loopProbes(rng, lc, cells)
	q := s2.NewContainsPointQuery(idx, s2.VertexModelSemiOpen)
	P1 := s2.PolygonFromLoops([]*s2.Loop{s2.LoopFromPoints(clone(pts))})
	oi := L.ContainsOrigin()

	in := newInterner()
	var probeTerms []string

	// [T] initOriginAndBound's value of originInside
	if withT && n >= 3 {
		t := newTable(in)
		for i := 0; i < n; i++ {
			t.add(s2.OriginPoint(), pts[1], pts[i], pts[(i+1)%n])
		}
		c.Check(fmt.Sprintf("init_origin_inside loop#%d %s n=%d", k, lc.class, n),
			zcase(vkit.App("check_init", idList(in, pts), vkit.B(s2.AngleContainsVertex(pts[0], pts[1], pts[2])), vkit.B(pts[0].Z < 0), t.term(), vkit.B(oi))))
	}

	// second reference point for the oracle, its containment derived from the first
	var ref2 s2.Point
	var ref2Inside, haveRef bool
	if lc.ref != nil {
		haveRef = true
		ref2 = randPoint(rng)
		ref2Inside = parityFrom(pts, *lc.ref, true, ref2)
	}

	// a second loop object that has never been queried: the "index not built yet" path
	Lf := s2.LoopFromPoints(clone(pts))

	for pi, p := range probes {
		key := fmt.Sprintf("L%d/%d", k, pi)
		brute := L.VerifC04BruteForceContainsPoint(p)
		c.Eval(key, true)

		// (i) all paths agree
		fresh := Lf.VerifC04Index().IsFresh()
		boundOK := Lf.VerifC04BoundContains(p)
		shapes := Lf.VerifC04IndexShapes()
		cp := Lf.ContainsPoint(p) // first call: not fresh, bound test applies
		if cp != brute {
			c.Violate("Loop.ContainsPoint", fmt.Sprintf("ContainsPoint=%v (index fresh=%v, bound contains=%v) but brute force=%v", cp, fresh, boundOK, brute), rep(p, "ContainsPoint vs brute force"))
		}
		if !L.VerifC04BoundContains(p) && brute { // H-LATBOUND
			c.Violate("Loop.bound", "bound does not contain a point that the loop contains", rep(p, "H-LATBOUND"))
		}
		if cp2 := L.ContainsPoint(p); cp2 != brute {
			c.Violate("Loop.ContainsPoint.afterBuild", fmt.Sprintf("after Build ContainsPoint=%v, brute force=%v", cp2, brute), rep(p, "after build"))
		}
		itc, located := L.VerifC04IteratorContainsPoint(p)
		if itc != brute {
			c.Violate("Loop.iteratorContainsPoint", fmt.Sprintf("index path=%v (located=%v), brute force=%v", itc, located, brute), rep(p, "index path vs brute force"))
		}
		if n != 1 { // the empty/full loops have no edges as shapes; the query then reports containsCenter only
			if qc := q.Contains(p); qc != brute {
				c.Violate("ContainsPointQuery.Contains", fmt.Sprintf("query=%v, brute force=%v", qc, brute), rep(p, "ContainsPointQuery semi-open vs brute force"))
			}
			if qs := q.ShapeContains(L, p); qs != brute {
				c.Violate("ContainsPointQuery.ShapeContains", fmt.Sprintf("query=%v, brute force=%v", qs, brute), rep(p, "ShapeContains vs brute force"))
			}
		}
		if pc := P1.ContainsPoint(p); pc != brute {
			c.Violate("Polygon.ContainsPoint.singleLoop", fmt.Sprintf("polygon of the loop=%v, loop brute force=%v", pc, brute), rep(p, "polygon path vs loop brute force"))
		}
		if sb := s2.VerifC04ContainsBruteForce(L, p); sb != brute && n != 1 {
			c.Violate("containsBruteForce", fmt.Sprintf("shapeutil=%v, loop brute force=%v", sb, brute), rep(p, "containsBruteForce vs loop"))
		}

		// (ii) independent parity oracle
		if haveRef && !antipodal(p, *lc.ref) && !antipodal(p, ref2) {
			o1 := parityFrom(pts, *lc.ref, true, p)
			o2 := parityFrom(pts, ref2, ref2Inside, p)
			if o1 != o2 {
				c.Violate("H-JORDAN.twoReferences", "crossing parity depends on the reference point", rep(p, fmt.Sprintf("ref1=centre ref2=%v", ref2)))
			}
			if o1 != brute {
				c.Violate("Loop.bruteForce.vsOracle", fmt.Sprintf("brute force=%v, parity from a point inside by construction=%v", brute, o1), rep(p, "oracle"))
			}
			if n <= 64 && pi%3 == 0 {
				if ex, ok := exactParityFrom(pts, *lc.ref, true, p); ok {
					c.Class("oracle:exact-rational")
					if ex != brute {
						c.Violate("Loop.bruteForce.vsExact", fmt.Sprintf("brute force=%v, exact rational parity=%v", brute, ex), rep(p, "exact oracle"))
					}
				}
			}
		} else if !haveRef {
			// no point known inside: consistency between OriginPoint and a random reference
			r := randPoint(rng)
			rIn := L.VerifC04BruteForceContainsPoint(r)
			if !antipodal(r, p) && parityFrom(pts, r, rIn, p) != brute {
				c.Violate("H-JORDAN.twoReferences", "crossing parity depends on the reference point", rep(p, fmt.Sprintf("ref=%v", r)))
			}
		}

		// H-CLIP: an edge not listed in the located cell does not cross centre->p
		var loc *s2.VerifC04Cell
		if id, ok := s2.VerifC04Locate(idx, p); ok {
			loc = findCell(cells, id)
		}
		if loc != nil {
			listed := map[int]bool{}
			for _, cl := range loc.Shapes {
				for _, e := range cl.Edges {
					listed[e] = true
				}
			}
			if !antipodal(loc.Center, p) {
				for i := 0; i < n && n > 1; i++ {
					if !listed[i] && s2.EdgeOrVertexCrossing(loc.Center, p, pts[i], pts[(i+1)%n]) {
						c.Violate("H-CLIP", fmt.Sprintf("edge %d crosses centre->p of index cell %v but is not listed in it", i, loc.ID), rep(p, "H-CLIP"))
					}
				}
			}
		}

		// [T]
		if withT && pi < tProbes(n) {
			t := newTable(in)
			o := s2.OriginPoint()
			for i := 0; i < n; i++ {
				t.add(o, p, pts[i], pts[(i+1)%n])
			}
			if loc != nil {
				for _, cl := range loc.Shapes {
					for _, e := range cl.Edges {
						t.add(loc.Center, p, pts[e%n], pts[(e+1)%n])
					}
				}
			}
			probeTerms = append(probeTerms, vkit.App("mk_lprobe", in.z(p), vkit.B(fresh), vkit.B(boundOK), nat(shapes), cellTerm(in, loc), t.term(), vkit.B(brute), vkit.B(cp), vkit.B(itc)))
		}
	}
	if withT {
		c.Check(fmt.Sprintf("loop#%d %s n=%d", k, lc.class, n), zcase(vkit.App("check_loop", idList(in, pts), vkit.B(oi), vkit.List(probeTerms))))
	}
	c.Sample(map[string]interface{}{"type": "loop", "class": lc.class, "n": n, "probes": len(probes), "index_cells": len(cells), "originInside": oi})

	// (v) containsCenter equals brute force at each cell centre
	for _, cell := range cells {
		for _, cl := range cell.Shapes {
			if cl.ContainsCenter != L.VerifC04BruteForceContainsPoint(cell.Center) {
				c.Violate("ShapeIndex.containsCenter", fmt.Sprintf("cell %v: containsCenter=%v, brute force at the centre=%v", cell.ID, cl.ContainsCenter, !cl.ContainsCenter), rep(cell.Center, "containsCenter"))
			}
		}
	}

	// (iii) complement
	runComplement(c, rng, lc, k, probes, L, in, withT)

	// H-JORDAN on closed test chains through vertices, edge points and arbitrary points
	for t := 0; t < 6 && n >= 3; t++ {
		m := 2 + rng.Intn(4)
		chain := make([]s2.Point, m)
		for j := range chain {
			switch rng.Intn(4) {
			case 0:
				chain[j] = pts[rng.Intn(n)]
			case 1:
				i := rng.Intn(n)
				chain[j] = mid(pts[i], pts[(i+1)%n])
			case 2:
				chain[j] = probes[rng.Intn(len(probes))]
			default:
				chain[j] = randPoint(rng)
			}
		}
		okc := true
		for j := range chain {
			if antipodal(chain[j], chain[(j+1)%m]) {
				okc = false
			}
		}
		if !okc {
			continue
		}
		cnt := 0
		for j := range chain {
			for i := 0; i < n; i++ {
				if s2.EdgeOrVertexCrossing(chain[j], chain[(j+1)%m], pts[i], pts[(i+1)%n]) {
					cnt++
				}
			}
		}
		c.Evals++
		if cnt%2 != 0 {
			c.Violate("H-JORDAN.closedChain", fmt.Sprintf("a closed chain of %d test edges crosses the loop %d times", m, cnt), map[string]interface{}{"type": "jordan", "class": lc.class, "vertices_bits": bitsOf(pts), "chain_bits": bitsOf(chain)})
		}
	}

	// [T] interior tracker over the finished index
	if withT && n >= 3 && k%4 == 0 {
		runTracker(c, lc, k, L, cells, oi)
	}
}

func runComplement(c *vkit.Collector, rng *vkit.Rng, lc lcase, k int, probes []s2.Point, L *s2.Loop, in *interner, withT bool) {
	pts := lc.pts
	n := len(pts)
	rep := func(p s2.Point, extra string) map[string]interface{} {
		return map[string]interface{}{"type": "complement", "class": lc.class, "n": n, "vertices_bits": bitsOf(pts), "p_bits": bits(p), "what": extra}
	}
	R := s2.LoopFromPoints(reversed(pts)) // fresh loop from the reversed vertices
	A := s2.LoopFromPoints(clone(pts))    // Invert before the index exists
	A.Invert()
	B := s2.LoopFromPoints(clone(pts)) // Invert after the index was built
	B.VerifC04Index().Build()
	B.ContainsPoint(probes[0])
	B.Invert()
	if withT {
		c.Check(fmt.Sprintf("invert loop#%d %s n=%d", k, lc.class, n),
			zcase(vkit.App("check_invert", idList(in, pts), vkit.B(L.ContainsOrigin()), idList(in, A.Vertices()), vkit.B(A.ContainsOrigin()))))
	}
	if A.ContainsOrigin() == L.ContainsOrigin() || R.ContainsOrigin() == L.ContainsOrigin() {
		c.Violate("Loop.Invert.originInside", "a loop and its inverse agree on OriginPoint", rep(s2.OriginPoint(), "originInside"))
	}
	for _, p := range probes {
		x := L.ContainsPoint(p)
		c.Evals++
		if R.ContainsPoint(p) == x {
			c.Violate("Loop.reversed", "a loop and the loop of its reversed vertices both contain / both miss a point", rep(p, "fresh loop from reversed vertices"))
		}
		if A.ContainsPoint(p) == x {
			c.Violate("Loop.Invert.beforeBuild", "a loop and its Invert() both contain / both miss a point", rep(p, "Invert before the index was built"))
		}
		if B.ContainsPoint(p) == x {
			c.Violate("Loop.Invert.afterBuild", "a loop and its Invert() both contain / both miss a point", rep(p, "Invert after the index was built"))
		}
		if A.VerifC04BruteForceContainsPoint(p) == L.VerifC04BruteForceContainsPoint(p) {
			c.Violate("Loop.Invert.bruteForce", "brute force of a loop and of its Invert() agree on a point", rep(p, "brute force"))
		}
	}
	// inverting twice gives the loop back
	A.Invert()
	for _, p := range probes[:min(len(probes), 10)] {
		if A.ContainsPoint(p) != L.ContainsPoint(p) {
			c.Violate("Loop.Invert.twice", "Invert twice changes containment", rep(p, "double inversion"))
		}
	}
}

func min(a, b int) int {
	if a < b {
		return a
	}
	return b
}

func runTracker(c *vkit.Collector, lc lcase, k int, L *s2.Loop, cells []s2.VerifC04Cell, oi bool) {
	pts := lc.pts
	n := len(pts)
	in := newInterner()
	t := newTable(in)
	o := s2.OriginPoint()
	focus := s2.VerifC04TrackerOrigin()
	for i := 0; i < n; i++ {
		t.add(o, focus, pts[i], pts[(i+1)%n])
	}
	next := uint64(s2.VerifC04TrackerFirstLeaf())
	var cellTerms, expected []string
	for _, cell := range cells {
		entry, center, exit := s2.VerifC04CellPath(cell.ID)
		var edges []int
		cc := false
		for _, cl := range cell.Shapes {
			if cl.ShapeID == 0 {
				edges = cl.Edges
				cc = cl.ContainsCenter
			}
		}
		var es []string
		for _, e := range edges {
			es = append(es, fmt.Sprintf("(%s, true, (%s, %s))", nat(0), in.z(pts[e%n]), in.z(pts[(e+1)%n])))
		}
		if len(edges) > 0 {
			a := focus
			if uint64(cell.ID.RangeMin()) != next {
				a = entry
			}
			for _, e := range edges {
				t.add(a, center, pts[e%n], pts[(e+1)%n])
				t.add(center, exit, pts[e%n], pts[(e+1)%n])
			}
			focus = exit
			next = uint64(cell.ID.Next().RangeMin())
		}
		cellTerms = append(cellTerms, vkit.App("mk_tcell Z", us(uint64(cell.ID.RangeMin())), us(uint64(cell.ID.Next().RangeMin())), in.z(entry), in.z(center), in.z(exit), vkit.List(es)))
		if cc {
			expected = append(expected, "Some [0]%nat")
		} else {
			expected = append(expected, "Some []")
		}
	}
	c.Class("tracker:replayed")
	c.Check(fmt.Sprintf("tracker loop#%d %s n=%d cells=%d", k, lc.class, n, len(cells)),
		zcase(vkit.App("check_tracker", vkit.App("mk_loop Z", idList(in, pts), vkit.B(oi)), in.z(s2.VerifC04TrackerOrigin()), us(uint64(s2.VerifC04TrackerFirstLeaf())), vkit.List(cellTerms), t.term(), vkit.List(expected))))
}

// ---------- polygons ----------

func runPolygon(c *vkit.Collector, rng *vkit.Rng, k int, withT bool) {
	ctr, cl := pickCentre(rng)
	// vertex counts chosen around the numVertices < 32 threshold
	tot := []int{9, 20, 31, 32, 33, 48, 90, 300}[rng.Intn(8)]
	nl := 2 + rng.Intn(2) // outer shell, hole, optional island
	if tot < 3*nl {
		nl = 2
	}
	var ns []int
	left := tot
	for j := 0; j < nl; j++ {
		m := left / (nl - j)
		if j < nl-1 {
			m = 3 + rng.Intn(left-3*(nl-j)+1)
			if m > left-3*(nl-j-1) {
				m = left - 3*(nl-j-1)
			}
		} else {
			m = left
		}
		ns = append(ns, m)
		left -= m
	}
	r := math.Pow(10, rng.Range(-4, 0))
	var loopsPts [][]s2.Point
	var ctrs []s2.Point // a point inside loop j by construction
	multi := k%3 == 2
	if !multi {
		// nested: shell, hole, island around one centre
		for j, m := range ns {
			rr := r * math.Pow(0.5, float64(j))
			loopsPts = append(loopsPts, starPoints(ctr, m, func(int) float64 { return rr }))
			ctrs = append(ctrs, ctr)
		}
	} else {
		// 2-5 disjoint top-level shells on a ring around ctr, their sizes in a random order
		// (Polygon.Invert inverts the LARGEST shell and must keep the shells stored before
		// it as well as after it), some carrying a hole, some holes an island
		if r > 0.3 {
			r = 0.3
		}
		cl = "multi-shell/" + cl
		x, y := frame(ctr)
		S := 2 + rng.Intn(4)
		sizes := []float64{1, 0.6, 0.4, 0.3, 0.2}[:S]
		for i := S - 1; i > 0; i-- { // shuffle
			j := rng.Intn(i + 1)
			sizes[i], sizes[j] = sizes[j], sizes[i]
		}
		per := tot / (2 * S)
		if per < 3 {
			per = 3
		}
		ns = nil
		D := 2.5 * r
		th0 := rng.Range(0, 2*math.Pi)
		for i := 0; i < S; i++ {
			th := th0 + 2*math.Pi*float64(i)/float64(S)
			dir := x.Mul(math.Cos(th)).Add(y.Mul(math.Sin(th)))
			ci := s2.Point{Vector: ctr.Mul(math.Cos(D)).Add(dir.Mul(math.Sin(D))).Normalize()}
			ri := r * sizes[i]
			add := func(rr float64) {
				m := per + rng.Intn(3)
				loopsPts = append(loopsPts, starPoints(ci, m, func(int) float64 { return rr }))
				ctrs = append(ctrs, ci)
				ns = append(ns, m)
			}
			add(ri)
			if rng.Intn(2) == 0 { // hole
				add(0.5 * ri)
				if rng.Intn(2) == 0 { // island in the hole
					add(0.25 * ri)
				}
			}
		}
		nl = len(loopsPts)
		tot = 0
		for _, m := range ns {
			tot += m
		}
	}
	mk := func() *s2.Polygon {
		var ls []*s2.Loop
		for _, lp := range loopsPts {
			ls = append(ls, s2.LoopFromPoints(clone(lp)))
		}
		return s2.PolygonFromLoops(ls)
	}
	P := mk()
	if P.NumLoops() != nl {
		return
	}
	c.Class(fmt.Sprintf("polygon:loops=%d/%s", nl, cl))
	if tot < 32 {
		c.Class("polygon:numVertices<32")
	} else {
		c.Class("polygon:numVertices>=32")
	}
	rep := func(p s2.Point, extra string) map[string]interface{} {
		var lb [][][]string
		for _, lp := range loopsPts {
			lb = append(lb, bitsOf(lp))
		}
		return map[string]interface{}{"type": "polygon", "loops_bits": lb, "p_bits": bits(p), "what": extra}
	}
	idx := P.VerifC04Index()
	cells := s2.VerifC04Cells(idx)
	q := s2.NewContainsPointQuery(idx, s2.VertexModelSemiOpen)
	Pf := mk() // never queried
	Pinv := mk()
	Pinv.Invert()
	Pinv2 := mk()
	Pinv2.VerifC04Index().Build()
	Pinv2.ContainsPoint(ctr)
	Pinv2.Invert()

	var probes []s2.Point
	for j, lp := range loopsPts {
		pr := loopProbes(rng, lcase{"poly", lp, &ctrs[j]}, cells)
		if len(pr) > 90/len(loopsPts) {
			pr = pr[:90/len(loopsPts)]
		}
		probes = append(probes, pr...)
	}
	// Invert twice gives the polygon back; building from oriented loops gives the same polygon,
	// and from the oppositely oriented loops its complement (PolygonFromOrientedLoops inverts
	// internally)
	Ptwice := mk()
	Ptwice.Invert()
	Ptwice.Invert()
	mkOriented := func(flip bool) *s2.Polygon {
		var ls []*s2.Loop
		for j := 0; j < P.NumLoops(); j++ {
			v := clone(P.Loop(j).Vertices())
			if P.Loop(j).IsHole() != flip {
				v = reversed(v)
			}
			ls = append(ls, s2.LoopFromPoints(v))
		}
		return s2.PolygonFromOrientedLoops(ls)
	}
	Por, PorC := mkOriented(false), mkOriented(true)
	if withT {
		runPolygonInvertT(c, k, P, Pinv)
	}
	in := newInterner()
	var probeTerms []string
	for pi, p := range probes {
		c.Eval(fmt.Sprintf("P%d/%d", k, pi), true)
		// independent oracle: XOR over the loops, each by parity from the common centre (inside every loop)
		want := false
		okOracle := true
		for j, lp := range loopsPts {
			okOracle = okOracle && !antipodal(p, ctrs[j])
			want = want != parityFrom(lp, ctrs[j], true, p)
		}
		brute := false
		for j := 0; j < P.NumLoops(); j++ {
			brute = brute != P.Loop(j).VerifC04BruteForceContainsPoint(p)
		}
		fresh := Pf.VerifC04Index().IsFresh()
		boundOK := Pf.VerifC04BoundContains(p)
		cp := Pf.ContainsPoint(p)
		cp2 := P.ContainsPoint(p)
		qc := q.Contains(p)
		itc, _ := P.VerifC04IteratorContainsPoint(p)
		sb := s2.VerifC04ContainsBruteForce(P, p)
		if okOracle && brute != want {
			c.Violate("Polygon.bruteForce.vsOracle", fmt.Sprintf("XOR of loops=%v, oracle=%v", brute, want), rep(p, "oracle"))
		}
		for name, v := range map[string]bool{"Polygon.ContainsPoint.firstCall": cp, "Polygon.ContainsPoint": cp2, "Polygon.ContainsPointQuery": qc, "Polygon.iteratorContainsPoint": itc, "Polygon.containsBruteForce": sb} {
			if v != brute {
				c.Violate(name, fmt.Sprintf("%s=%v, XOR of the loops' brute force=%v", name, v, brute), rep(p, name))
			}
		}
		if !P.VerifC04BoundContains(p) && brute {
			c.Violate("Polygon.bound", "bound does not contain a point of the polygon", rep(p, "H-LATBOUND"))
		}
		if Pinv.ContainsPoint(p) == cp2 {
			c.Violate("Polygon.Invert", "a polygon and its Invert() both contain / both miss a point", rep(p, "Invert before build"))
		}
		if Pinv2.ContainsPoint(p) == cp2 {
			c.Violate("Polygon.Invert.afterBuild", "a polygon and its Invert() both contain / both miss a point", rep(p, "Invert after build"))
		}
		if okOracle && Pinv.ContainsPoint(p) == want {
			c.Violate("Polygon.Invert.vsOracle", fmt.Sprintf("Invert() contains=%v, the polygon's oracle=%v", !want, want), rep(p, "Invert vs oracle"))
		}
		if Ptwice.ContainsPoint(p) != cp2 {
			c.Violate("Polygon.Invert.twice", "Invert twice changes containment", rep(p, "double inversion"))
		}
		if okOracle && (Por.ContainsPoint(p) != want || PorC.ContainsPoint(p) == want) {
			c.Violate("PolygonFromOrientedLoops", fmt.Sprintf("oriented loops=%v, oppositely oriented=%v, oracle=%v", Por.ContainsPoint(p), PorC.ContainsPoint(p), want), rep(p, "PolygonFromOrientedLoops"))
		}
		if withT && pi < 24 {
			t := newTable(in)
			o := s2.OriginPoint()
			var loc *s2.VerifC04Cell
			if id, ok := s2.VerifC04Locate(idx, p); ok {
				loc = findCell(cells, id)
			}
			for e := 0; e < P.NumEdges(); e++ {
				ed := P.Edge(e)
				t.add(o, p, ed.V0, ed.V1)
				t.add(o, p, ed.V1, ed.V0) // holes: the loop's own orientation
			}
			if loc != nil {
				for _, cl := range loc.Shapes {
					for _, e := range cl.Edges {
						ed := P.Edge(e)
						t.add(loc.Center, p, ed.V0, ed.V1)
					}
				}
			}
			probeTerms = append(probeTerms, vkit.App("mk_pprobe", in.z(p), vkit.B(fresh), vkit.B(boundOK), cellTerm(in, loc), t.term(),
				vkit.B(brute), vkit.B(cp), vkit.B(qc), vkit.B(itc), vkit.B(sb)))
		}
	}
	// containsCenter
	for _, cell := range cells {
		b := false
		for j := 0; j < P.NumLoops(); j++ {
			b = b != P.Loop(j).VerifC04BruteForceContainsPoint(cell.Center)
		}
		for _, cl := range cell.Shapes {
			if cl.ContainsCenter != b {
				c.Violate("ShapeIndex.containsCenter.polygon", fmt.Sprintf("cell %v containsCenter=%v, brute force=%v", cell.ID, cl.ContainsCenter, b), rep(cell.Center, "containsCenter"))
			}
		}
	}
	if withT {
		var ls []string
		for j := 0; j < P.NumLoops(); j++ {
			l := P.Loop(j)
			ls = append(ls, fmt.Sprintf("(%s, %s, %s)", idList(in, l.Vertices()), vkit.B(l.ContainsOrigin()), vkit.B(l.IsHole())))
		}
		c.Check(fmt.Sprintf("polygon#%d loops=%v", k, ns), zcase(vkit.App("check_polygon", vkit.List(ls), vkit.List(probeTerms))))
	}
	c.Sample(map[string]interface{}{"type": "polygon", "loop_sizes": ns, "probes": len(probes), "index_cells": len(cells)})
}

// [T] Polygon.Invert against the model's premise: the loops of the result are the loops of the
// polygon with exactly one of them inverted (polygon_invert_complement then says: complement)
func runPolygonInvertT(c *vkit.Collector, k int, P, Pinv *s2.Polygon) {
	in := newInterner()
	term := func(Q *s2.Polygon, depth bool) string {
		var ls []string
		for j := 0; j < Q.NumLoops(); j++ {
			l := Q.Loop(j)
			if depth {
				ls = append(ls, fmt.Sprintf("(%s, %s, %s)", idList(in, l.Vertices()), vkit.B(l.ContainsOrigin()), zs(int64(l.VerifC04Depth()))))
			} else {
				ls = append(ls, fmt.Sprintf("(%s, %s)", idList(in, l.Vertices()), vkit.B(l.ContainsOrigin())))
			}
		}
		return vkit.List(ls)
	}
	c.Check(fmt.Sprintf("Polygon.Invert#%d loops=%d", k, P.NumLoops()), zcase(vkit.App("check_polygon_invert", term(P, false), term(Pinv, false))))
	// full layout: which loop was inverted is read off the result (its first loop)
	best := -1
	if Pinv.NumLoops() > 0 {
		first := Pinv.Loop(0).Vertices()
		for j := 0; j < P.NumLoops(); j++ {
			v := reversed(P.Loop(j).Vertices())
			if len(v) == len(first) {
				same := true
				for i := range v {
					if v[i] != first[i] {
						same = false
					}
				}
				if same {
					best = j
				}
			}
		}
	}
	if best >= 0 {
		c.Check(fmt.Sprintf("Polygon.Invert.layout#%d loops=%d best=%d", k, P.NumLoops(), best),
			zcase(vkit.App("check_polygon_invert_layout", term(P, true), nat(best), term(Pinv, true))))
	} else {
		c.Violate("Polygon.Invert.layout", "the first loop of Invert()'s result is not the reversal of a loop of the polygon", map[string]interface{}{"type": "polygon-invert", "k": k})
	}
}

// ---------- tilings ----------

func tileProbes(cell s2.Cell) []s2.Point {
	var out []s2.Point
	for k := 0; k < 4; k++ {
		v := cell.Vertex(k)
		out = append(out, v, mid(v, cell.Vertex((k+1)%4)))
		out = append(out, ulpNeighbour(v, k%3, 1), ulpNeighbour(v, (k+1)%3, -1))
	}
	out = append(out, cell.ID().Point())
	return out
}

func checkTiling(c *vkit.Collector, name string, ids []s2.CellID, probes []s2.Point) {
	loops := make([]*s2.Loop, len(ids))
	for i, id := range ids {
		loops[i] = s2.LoopFromCell(s2.CellFromCellID(id))
	}
	for _, p := range probes {
		cnt := 0
		var who []string
		for i, l := range loops {
			if l.ContainsPoint(p) {
				cnt++
				who = append(who, ids[i].ToToken())
			}
		}
		c.Evals++
		if cnt != 1 {
			c.Violate("tiling."+strings.SplitN(name, ":", 2)[0], fmt.Sprintf("%s: a probe is contained in %d cell loops %v", name, cnt, who),
				map[string]interface{}{"type": "tiling", "tiling": name, "p_bits": bits(p), "p": []float64{p.X, p.Y, p.Z}, "containing": who})
		}
	}
}

func runTilings(c *vkit.Collector, rng *vkit.Rng, budget int) {
	maxLevel := 3
	for level := 0; level <= maxLevel; level++ {
		var ids []s2.CellID
		for id := s2.CellIDFromFace(0).ChildBeginAtLevel(level); id != s2.CellIDFromFace(5).ChildEndAtLevel(level); id = id.Next() {
			ids = append(ids, id)
		}
		var probes []s2.Point
		for _, id := range ids {
			probes = append(probes, tileProbes(s2.CellFromCellID(id))...)
		}
		if level == 0 { // the six faces: also the cube corners and more points on the face edges
			for k := 0; k < 200; k++ {
				f := []float64{-1, 1}
				probes = append(probes, pt(f[rng.Intn(2)], f[rng.Intn(2)], rng.Range(-1, 1)), pt(rng.Range(-1, 1), f[rng.Intn(2)], f[rng.Intn(2)]), randPoint(rng))
			}
		}
		c.Class(fmt.Sprintf("tiling:level%d", level))
		checkTiling(c, fmt.Sprintf("level%d:all cells", level), ids, probes)
	}
	for k := 0; k < 200*budget; k++ {
		level := 4 + rng.Intn(27)
		var id s2.CellID
		switch rng.Intn(4) {
		case 0: // next to a face corner or edge
			id = s2.CellIDFromFace(rng.Intn(6)).ChildBeginAtLevel(level)
			if rng.Bool() {
				id = s2.CellIDFromFace(rng.Intn(6)).ChildEndAtLevel(level).Prev()
			}
		default:
			id = s2.CellFromPoint(randPoint(rng)).ID().Parent(level)
		}
		// AllNeighbors may list a neighbour twice next to a cube corner (documented)
		ids := []s2.CellID{id}
		seen := map[s2.CellID]bool{id: true}
		for _, nb := range id.AllNeighbors(level) {
			if !seen[nb] {
				seen[nb] = true
				ids = append(ids, nb)
			}
		}
		c.Class("tiling:neighbourhood")
		if k < 60 {
			cellVertexCases(c, s2.CellFromCellID(id))
		}
		sharedVertices(c, id, ids)
		checkTiling(c, fmt.Sprintf("neighbourhood:%s level %d", id.ToToken(), level), ids, tileProbes(s2.CellFromCellID(id)))
	}
}

// [T] the translated Cell.Vertex (Gen/C04Cell.v) against the running code, bit for bit
func cellVertexCases(c *vkit.Collector, cell s2.Cell) {
	face, ulo, uhi, vlo, vhi := s2.VerifC04CellFaceUV(cell)
	ct := vkit.App("mk_s2_Cell", vkit.Z(int64(face)), "0%Z", "0%Z", "0%Z",
		vkit.App("mk_r2_Rect", vkit.App("mk_r1_Interval", vkit.F(ulo), vkit.F(uhi)), vkit.App("mk_r1_Interval", vkit.F(vlo), vkit.F(vhi))))
	for k := 0; k < 4; k++ {
		v := cell.Vertex(k)
		c.Check(fmt.Sprintf("Cell.Vertex %s %d", cell.ID().ToToken(), k),
			vkit.App("s2_Point_eqbits", vkit.App("s2_Cell_Vertex", ct, vkit.Z(int64(k))),
				vkit.App("mk_s2_Point", vkit.App("mk_r3_Vector", vkit.F(v.X), vkit.F(v.Y), vkit.F(v.Z)))))
	}
}

// [S] every vertex of the cell is, bit for bit (up to the sign of zero), a vertex of each
// neighbour loop that touches it: 4 loops meet at a vertex (3 at a cube corner).
func sharedVertices(c *vkit.Collector, id s2.CellID, ids []s2.CellID) {
	cell := s2.CellFromCellID(id)
	for k := 0; k < 4; k++ {
		v := cell.Vertex(k)
		cnt := 0
		for _, nb := range ids {
			l := s2.LoopFromCell(s2.CellFromCellID(nb))
			for _, w := range l.Vertices() {
				if w == v {
					cnt++
				}
			}
		}
		c.Evals++
		if cnt != 4 && cnt != 3 {
			c.Violate("tiling.sharedVertex", fmt.Sprintf("vertex %d of cell %s is a vertex of %d neighbouring cell loops (expected 4, or 3 at a cube corner)", k, id.ToToken(), cnt),
				map[string]interface{}{"type": "sharedVertex", "cell": id.ToToken(), "k": k, "v_bits": bits(v)})
		}
	}
}

// ---------- exact-vertex probes in the tangent shortcut band ----------
//
// crossingSign first tests whether C and D are both beyond B (or A) along the outward
// tangent: c.bTangent > maxError && d.bTangent > maxError with maxError = (1.5+1/sqrt3)*2^-52
// ~ 4.6e-16, BEFORE it looks for shared vertices.  For a vertex query (B == C) the product
// c.bTangent is pure rounding residue; the test is sound only because the residue never
// exceeds maxError.  These loops have a vertex v whose residue (for A = OriginPoint, the
// reference of the brute force) lies in the upper half of the allowed band, and an edge (v,w)
// with w well beyond v, so that any loss of margin in maxError turns the vertex query into a
// wrong DoNotCross.  Found by scanning ulp perturbations; nothing depends on luck.
const tangentMaxError = (1.5 + 0.57735026918962576451) * 2.220446049250313e-16

func bTangentResidue(a, b s2.Point) (res float64, bTan r3.Vector) {
	norm := a.PointCross(b)
	bTan = norm.Cross(b.Vector)
	return b.Dot(bTan), bTan
}

func tangentBandLoops(c *vkit.Collector, rng *vkit.Rng, want int) []lcase {
	o := s2.OriginPoint()
	inBandF := func(v s2.Point) bool {
		res, _ := bTangentResidue(o, v)
		return res > 0.5*tangentMaxError && res <= tangentMaxError && v.IsUnit()
	}
	// phase 1: the band is hit by about 1 random unit vector in 10^5 (residue 1.5*2^-52)
	scanned := 0
	var hits []s2.Point
	for scanned < 3000000 && len(hits) < want {
		v := randPoint(rng)
		scanned++
		if inBandF(v) {
			hits = append(hits, v)
		}
	}
	// phase 2: ulp neighbours of the hits are in the band far more often
	nb := 0
	for _, h := range append([]s2.Point(nil), hits...) {
		for t := 0; t < 40 && len(hits) < want; t++ {
			v := s2.Point{Vector: r3.Vector{X: vkit.Ulps(h.X, rng.Intn(5)-2), Y: vkit.Ulps(h.Y, rng.Intn(5)-2), Z: vkit.Ulps(h.Z, rng.Intn(5)-2)}}
			scanned++
			if v != h && inBandF(v) {
				hits = append(hits, v)
				nb++
			}
		}
	}
	var out []lcase
	for _, v := range hits {
		_, bTan := bTangentResidue(o, v)
		t := bTan.Normalize()
		side := v.Cross(t).Normalize()
		for rep := 0; rep < 2; rep++ {
			// w beyond v along the tangent; u beyond as well, or behind; on either side
			w := s2.Point{Vector: v.Add(t.Mul(rng.Range(0.02, 0.3))).Add(side.Mul(rng.Range(-0.1, 0.1))).Normalize()}
			sgn := 1.0
			if rng.Bool() {
				sgn = -1
			}
			along := rng.Range(0.02, 0.3)
			if rng.Bool() {
				along = -along
			}
			u := s2.Point{Vector: v.Add(t.Mul(along)).Add(side.Mul(sgn * rng.Range(0.12, 0.3))).Normalize()}
			if w.Dot(bTan) <= 4*tangentMaxError {
				continue
			}
			pts := []s2.Point{v, w, u}
			if rng.Bool() {
				pts = []s2.Point{w, v, u}
			}
			out = append(out, lcase{"tangent-band", pts, nil})
		}
	}
	c.Extra["tangent_band_scanned"] = scanned
	c.Extra["tangent_band_vertices"] = len(hits)
	c.Extra["tangent_band_loops"] = len(out)
	return out
}

// ---------- Encode -> Decode images ----------
//
// A decoded loop/polygon is a second way of constructing the same shape (the compressed format
// recomputes the bound with ContainsPoint while the object is half built).  Every containment
// path on the decoded object, before AND after its index exists, must give the brute-force
// parity of the ORIGINAL.
func runCodec(c *vkit.Collector, rng *vkit.Rng, k int) {
	centres := []s2.Point{raw(0, 0, 1), raw(0, 0, -1), s2.OriginPoint(), raw(-1, 0, 0), pt(-1, 1e-9, 0.3), pt(0.02, -0.01, 1), pt(0.01, 0.03, -1), randPoint(rng), pt(1, 1, 1)}
	ctr := centres[k%len(centres)]
	n := []int{8, 12, 20, 31, 33, 40, 63, 64, 100}[rng.Intn(9)]
	r := []float64{0.003, 0.05, 0.3, 1.0}[rng.Intn(4)]
	snapped := k%4 != 3 // cell-centre vertices: Polygon.Encode takes the compressed format
	mkPts := func(m int, rr float64) []s2.Point {
		v := starPoints(ctr, m, func(int) float64 { return rr })
		if snapped {
			v = snap(v, 30)
		}
		return v
	}
	loopsPts := [][]s2.Point{mkPts(n, r)}
	if rng.Bool() && n >= 12 { // with a hole
		loopsPts = append(loopsPts, mkPts(n/2, r/2))
	}
	for _, lp := range loopsPts {
		if !distinct(lp) {
			return
		}
	}
	var ls []*s2.Loop
	for _, lp := range loopsPts {
		ls = append(ls, s2.LoopFromPoints(clone(lp)))
	}
	P := s2.PolygonFromLoops(ls)
	if P.NumLoops() != len(loopsPts) {
		return
	}
	var buf bytes.Buffer
	if err := P.Encode(&buf); err != nil {
		return
	}
	enc := buf.Bytes()
	format := "lossless"
	if len(enc) > 0 && enc[0] == 4 {
		format = "compressed"
	}
	c.Class(fmt.Sprintf("codec:polygon/%s/n%s64", format, map[bool]string{true: "<", false: ">="}[n < 64]))
	decode := func() *s2.Polygon {
		D := &s2.Polygon{}
		if err := D.Decode(bytes.NewReader(enc)); err != nil {
			return nil
		}
		return D
	}
	rep := func(p s2.Point, extra string) map[string]interface{} {
		var lb [][][]string
		for _, lp := range loopsPts {
			lb = append(lb, bitsOf(lp))
		}
		return map[string]interface{}{"type": "codec", "format": format, "loops_bits": lb, "p_bits": bits(p), "p": []float64{p.X, p.Y, p.Z}, "what": extra}
	}
	want := func(p s2.Point) bool { // brute-force parity of the ORIGINAL
		b := false
		for j := 0; j < P.NumLoops(); j++ {
			b = b != P.Loop(j).VerifC04BruteForceContainsPoint(p)
		}
		return b
	}
	probes := []s2.Point{raw(0, 0, 1), raw(0, 0, -1), ctr, pt(1e-3, 2e-3, 1), pt(-2e-3, 1e-3, -1), pt(0.05, 0.02, 1), pt(0.03, -0.04, -1), s2.OriginPoint(), raw(-1, 0, 0)}
	probes = append(probes, loopProbes(rng, lcase{"codec", loopsPts[0], &ctr}, nil)...)
	if len(probes) > 60 {
		probes = probes[:60]
	}
	// polygon: the first query on a freshly decoded object (nothing has built its index)
	for pi, p := range probes {
		if antipodal(p, s2.OriginPoint()) {
			continue
		}
		w := want(p)
		c.Eval(fmt.Sprintf("codec%d/%d", k, pi), true)
		if pi < 12 {
			if D := decode(); D == nil {
				c.Violate("codec.Decode", "Decode of an encoded polygon fails", rep(p, "decode"))
				return
			} else if got := D.ContainsPoint(p); got != w {
				c.Violate("Polygon.Decode.ContainsPoint.firstQuery", fmt.Sprintf("decoded polygon (%s), first query: ContainsPoint=%v, brute force of the original=%v", format, got, w), rep(p, "first query on a decoded polygon"))
			}
		}
	}
	D := decode()
	if D == nil || D.NumLoops() != P.NumLoops() {
		c.Violate("codec.Decode", "Decode of an encoded polygon fails or loses loops", rep(ctr, "decode"))
		return
	}
	Dl := decode() // its loops are queried one by one, never the polygon
	Dinv := decode()
	Dinv.Invert()
	for round := 0; round < 2; round++ { // before, then after index.Build()
		when := []string{"beforeBuild", "afterBuild"}[round]
		if round == 1 {
			D.VerifC04Index().Build()
			for j := 0; j < Dl.NumLoops(); j++ {
				Dl.Loop(j).VerifC04Index().Build()
			}
		}
		for _, p := range probes {
			if antipodal(p, s2.OriginPoint()) {
				continue
			}
			w := want(p)
			c.Evals++
			if got := D.ContainsPoint(p); got != w {
				c.Violate("Polygon.Decode.ContainsPoint."+when, fmt.Sprintf("decoded polygon (%s) ContainsPoint=%v, brute force of the original=%v", format, got, w), rep(p, when))
			}
			if !D.VerifC04BoundContains(p) && w {
				c.Violate("Polygon.Decode.bound", "bound of the decoded polygon misses a contained point", rep(p, "H-LATBOUND after decode"))
			}
			if Dinv.ContainsPoint(p) == w {
				c.Violate("Polygon.Decode.Invert", "decoded polygon inverted: contains a point of the original / misses a point outside", rep(p, when))
			}
			for j := 0; j < Dl.NumLoops(); j++ {
				lw := P.Loop(j).VerifC04BruteForceContainsPoint(p)
				if got := Dl.Loop(j).ContainsPoint(p); got != lw {
					c.Violate("Loop.Decode.ContainsPoint."+when, fmt.Sprintf("loop %d of the decoded polygon (%s) ContainsPoint=%v, brute force of the original loop=%v", j, format, got, lw), rep(p, when))
				}
				if !Dl.Loop(j).VerifC04BoundContains(p) && lw {
					c.Violate("Loop.Decode.bound", "bound of a decoded loop misses a contained point", rep(p, "H-LATBOUND after decode"))
				}
				if Dl.Loop(j).ContainsOrigin() != P.Loop(j).ContainsOrigin() {
					c.Violate("Loop.Decode.originInside", "originInside changed by Encode/Decode", rep(p, "originInside"))
				}
			}
		}
	}
	// Loop.Encode / Loop.Decode (lossless format of a single loop)
	var lb bytes.Buffer
	L0 := s2.LoopFromPoints(clone(loopsPts[0]))
	if err := L0.Encode(&lb); err == nil {
		c.Class("codec:loop/lossless")
		for pi, p := range probes {
			if antipodal(p, s2.OriginPoint()) || pi > 20 {
				continue
			}
			DL := &s2.Loop{}
			if err := DL.Decode(bytes.NewReader(lb.Bytes())); err != nil {
				c.Violate("codec.Decode", "Loop.Decode of an encoded loop fails", rep(p, "decode"))
				break
			}
			lw := L0.VerifC04BruteForceContainsPoint(p)
			c.Evals++
			if got := DL.ContainsPoint(p); got != lw {
				c.Violate("Loop.Decode.ContainsPoint.firstQuery", fmt.Sprintf("decoded loop, first query: ContainsPoint=%v, brute force of the original=%v", got, lw), rep(p, "first query on a decoded loop"))
			}
			DL.VerifC04Index().Build()
			if got := DL.ContainsPoint(p); got != lw {
				c.Violate("Loop.Decode.ContainsPoint.afterBuild", fmt.Sprintf("decoded loop after Build: ContainsPoint=%v, brute force of the original=%v", got, lw), rep(p, "after build"))
			}
		}
	}
}

// ---------- concurrent first use of the index ----------
//
// "the same answer whichever evaluation path is taken": two goroutines make the first indexed
// query at once (both see "not fresh"), the first builds the index, and a third query is
// answered while the second one holds the lock for its (redundant) turn.  The interleaving is
// made deterministic with the schedule points of maybeApplyUpdates / makeIndexCell.
func runConcurrentFirstUse(c *vkit.Collector, rng *vkit.Rng, k int) {
	ctr := randPoint(rng)
	n := 40 + rng.Intn(60)
	pts := starPoints(ctr, n, func(int) float64 { return 0.3 })
	L := s2.LoopFromPoints(clone(pts))
	Lref := s2.LoopFromPoints(clone(pts))
	inner := starPoints(ctr, 5, func(int) float64 { return 0.1 }) // interior points
	q1, q2, q3 := inner[0], inner[1], ctr
	c.Class("concurrent:first-use(3 goroutines)")

	var mu sync.Mutex
	phase := 0 // 0: waiting for G2 at "before lock"; 1: G1 runs; 2: G2's turn
	g2AtLock := make(chan struct{})
	releaseG2 := make(chan struct{})
	g2AtWrite := make(chan struct{})
	releaseG2b := make(chan struct{})
	idx := L.VerifC04Index()
	s2.VerifSched = func(point int, i *s2.ShapeIndex) {
		if i != idx {
			return
		}
		mu.Lock()
		ph := phase
		switch {
		case ph == 0 && point == s2.VerifPtBeforeLock:
			phase = 1
			mu.Unlock()
			close(g2AtLock)
			<-releaseG2
			return
		case ph == 2 && point == s2.VerifPtCellMapWrite:
			phase = 3
			mu.Unlock()
			close(g2AtWrite)
			<-releaseG2b
			return
		}
		mu.Unlock()
	}
	defer func() { s2.VerifSched = nil }()

	var a1, a2, a3 bool
	g2done := make(chan struct{})
	go func() { a2 = L.ContainsPoint(q2); close(g2done) }()
	select {
	case <-g2AtLock:
	case <-time.After(5 * time.Second):
		c.Violate("concurrent.hang", "second goroutine never reached the lock", map[string]interface{}{"type": "concurrent", "k": k})
		return
	}
	a1 = L.ContainsPoint(q1) // G1: builds the index, marks it fresh
	mu.Lock()
	phase = 2
	mu.Unlock()
	close(releaseG2)
	select {
	case <-g2AtWrite: // G2 is rebuilding: the index is marked fresh while its cells are being rewritten
		a3 = L.ContainsPoint(q3)
		close(releaseG2b)
		<-g2done
	case <-g2done:
		a3 = L.ContainsPoint(q3)
	case <-time.After(5 * time.Second):
		c.Violate("concurrent.hang", "second goroutine never finished", map[string]interface{}{"type": "concurrent", "k": k})
		return
	}
	for i, x := range []struct {
		got bool
		p   s2.Point
	}{{a1, q1}, {a2, q2}, {a3, q3}} {
		c.Evals++
		if w := Lref.VerifC04BruteForceContainsPoint(x.p); x.got != w {
			c.Violate("Loop.ContainsPoint.concurrentFirstUse", fmt.Sprintf("goroutine %d of 3 (two simultaneous first queries, third query during the second one's turn): ContainsPoint=%v, brute force=%v", i+1, x.got, w),
				map[string]interface{}{"type": "concurrent", "n": n, "vertices_bits": bitsOf(pts), "p_bits": bits(x.p), "goroutine": i + 1})
		}
	}
}

func run(c *vkit.Collector, rng *vkit.Rng, budget int) {
	nLoops := 230 * budget
	for k := 0; k < nLoops; k++ {
		runLoop(c, rng, genLoop(rng, k), k, k < 160)
	}
	for k, lc := range tangentBandLoops(c, rng, 40*budget) {
		runLoop(c, rng, lc, 200000+k, false)
	}
	// the special loops and degenerate values (separate stream)
	for k, lc := range []lcase{
		{"empty", []s2.Point{raw(0, 0, 1)}, nil},
		{"full", []s2.Point{raw(0, 0, -1)}, nil},
	} {
		runSpecial(c, rng, lc, 100000+k)
	}
	nPoly := 40 * budget
	for k := 0; k < nPoly; k++ {
		runPolygon(c, rng, k, k < 24)
	}
	for k := 0; k < 45*budget; k++ {
		runCodec(c, rng, k)
	}
	for k := 0; k < 6*budget; k++ {
		runConcurrentFirstUse(c, rng, k)
	}
	runTilings(c, rng, budget)
	for k := 0; k < 6*budget; k++ {
		runLaxBalanced(c, rng, k)
		runIncrementalTiling(c, rng, k)
	}
}

// the empty and full loops: paths agree, Invert swaps them
func runSpecial(c *vkit.Collector, rng *vkit.Rng, lc lcase, k int) {
	L := s2.LoopFromPoints(clone(lc.pts))
	want := lc.class == "full"
	c.Class("loop:" + lc.class)
	in := newInterner()
	A := s2.LoopFromPoints(clone(lc.pts))
	A.Invert()
	c.Check("invert "+lc.class, zcase(vkit.App("check_invert", idList(in, lc.pts), vkit.B(L.ContainsOrigin()), idList(in, A.Vertices()), vkit.B(A.ContainsOrigin()))))
	c.Check("init_origin_inside "+lc.class, zcase(vkit.App("check_init", idList(in, lc.pts), "false", vkit.B(lc.pts[0].Z < 0), "[]", vkit.B(L.ContainsOrigin()))))
	var probeTerms []string
	for j := 0; j < 20; j++ {
		p := randPoint(rng)
		if j == 0 {
			p = lc.pts[0]
		}
		c.Evals++
		brute := L.VerifC04BruteForceContainsPoint(p)
		fresh, boundOK, shapes := L.VerifC04Index().IsFresh(), L.VerifC04BoundContains(p), L.VerifC04IndexShapes()
		cp := L.ContainsPoint(p)
		if brute != want || cp != want || A.ContainsPoint(p) == want {
			c.Violate("Loop.special", fmt.Sprintf("%s loop: brute=%v ContainsPoint=%v inverted=%v", lc.class, brute, cp, A.ContainsPoint(p)), map[string]interface{}{"type": "special", "class": lc.class, "p_bits": bits(p)})
		}
		t := newTable(in)
		t.add(s2.OriginPoint(), p, lc.pts[0], lc.pts[0])
		probeTerms = append(probeTerms, vkit.App("mk_lprobe", in.z(p), vkit.B(fresh), vkit.B(boundOK), nat(shapes), "None", t.term(), vkit.B(brute), vkit.B(cp), "false"))
	}
	c.Check("loop "+lc.class, zcase(vkit.App("check_loop", idList(in, lc.pts), vkit.B(L.ContainsOrigin()), vkit.List(probeTerms))))
}
