package main

// Independent exact oracles (math/big.Rat on the exact values of the float64
// coordinates). Nothing here calls into the s2 predicates or r3.PreciseVector.

import (
	"math/big"
	"sort"

	"github.com/golang/geo/s2"
)

type rvec [3]*big.Rat // x, y, z

func ratOf(f float64) *big.Rat { return new(big.Rat).SetFloat64(f) } // exact for finite f

func rv(p s2.Point) rvec { return rvec{ratOf(p.X), ratOf(p.Y), ratOf(p.Z)} }

func rmul(a, b *big.Rat) *big.Rat { return new(big.Rat).Mul(a, b) }
func rsub(a, b *big.Rat) *big.Rat { return new(big.Rat).Sub(a, b) }
func radd(a, b *big.Rat) *big.Rat { return new(big.Rat).Add(a, b) }

func rdot(a, b rvec) *big.Rat {
	return radd(radd(rmul(a[0], b[0]), rmul(a[1], b[1])), rmul(a[2], b[2]))
}

// det of the rows a, b, c by cofactor expansion along the first row
func rdet(a, b, c rvec) *big.Rat {
	m0 := rsub(rmul(b[1], c[2]), rmul(b[2], c[1]))
	m1 := rsub(rmul(b[2], c[0]), rmul(b[0], c[2]))
	m2 := rsub(rmul(b[0], c[1]), rmul(b[1], c[0]))
	return radd(radd(rmul(a[0], m0), rmul(a[1], m1)), rmul(a[2], m2))
}

func oracleDetSign(a, b, c s2.Point) int { return rdet(rv(a), rv(b), rv(c)).Sign() }

// lexicographic order on the exact coordinate values (so -0 == +0)
func lexCmp(a, b s2.Point) int {
	for _, d := range [][2]float64{{a.X, b.X}, {a.Y, b.Y}, {a.Z, b.Z}} {
		if d[0] < d[1] {
			return -1
		}
		if d[0] > d[1] {
			return 1
		}
	}
	return 0
}

func samePoint(a, b s2.Point) bool { return a.X == b.X && a.Y == b.Y && a.Z == b.Z }

// ranksOf gives every point of a set of pairwise distinct points its position in the
// lexicographic order of the set.
func ranksOf(pts []s2.Point) []int {
	idx := make([]int, len(pts))
	for i := range idx {
		idx[i] = i
	}
	sort.Slice(idx, func(i, j int) bool { return lexCmp(pts[idx[i]], pts[idx[j]]) < 0 })
	r := make([]int, len(pts))
	for pos, i := range idx {
		r[i] = pos
	}
	return r
}

// oraclePerturbedSign evaluates the DEFINITION of the perturbation scheme, not the table:
// the point of rank k (k = 0 for the lexicographically smallest point of the whole set)
// is moved by (eps^(2^(3k+2)), eps^(2^(3k+1)), eps^(2^(3k))) in (x, y, z). The determinant
// of the three perturbed rows is expanded with the Leibniz formula into a polynomial in
// eps (exponents are sums of distinct powers of two: represented as bit masks, compared as
// integers); the sign for eps -> 0+ is the sign of the non-zero coefficient of lowest
// exponent. ranks[i] is the rank of row i (rows: a, b, c in the caller's order).
// Also returns the exponent mask of the deciding monomial (0: the plain determinant).
func oraclePerturbedSign(rows [3]rvec, ranks [3]int) (int, uint64) {
	perms := [][4]int{{0, 1, 2, 1}, {1, 2, 0, 1}, {2, 0, 1, 1}, {0, 2, 1, -1}, {2, 1, 0, -1}, {1, 0, 2, -1}}
	coef := map[uint64]*big.Rat{}
	for _, p := range perms {
		for sub := 0; sub < 8; sub++ { // rows whose perturbation (not coordinate) is taken
			var mask uint64
			term := big.NewRat(int64(p[3]), 1)
			for i := 0; i < 3; i++ {
				col := p[i]
				if sub&(1<<i) != 0 {
					// column 0 = x -> bit 3k+2, 1 = y -> 3k+1, 2 = z -> 3k
					mask |= 1 << uint(3*ranks[i]+(2-col))
				} else {
					term = rmul(term, rows[i][col])
				}
			}
			if c, ok := coef[mask]; ok {
				c.Add(c, term)
			} else {
				coef[mask] = term
			}
		}
	}
	keys := make([]uint64, 0, len(coef))
	for k := range coef {
		keys = append(keys, k)
	}
	sort.Slice(keys, func(i, j int) bool { return keys[i] < keys[j] })
	for _, k := range keys {
		if s := coef[k].Sign(); s != 0 {
			return s, k
		}
	}
	return 0, 0 // unreachable: the monomial of the three diagonal perturbations has coefficient +-1
}

// oracleSign: sign of the (perturbed) determinant of a, b, c as rows, with the perturbation
// taken relative to the three points only (local ranks). Points must be pairwise distinct.
func oracleSign(a, b, c s2.Point) (int, uint64) {
	r := ranksOf([]s2.Point{a, b, c})
	return oraclePerturbedSign([3]rvec{rv(a), rv(b), rv(c)}, [3]int{r[0], r[1], r[2]})
}

// table branch (1..13) the sorted degenerate triple a<b<c reaches; used only to label and
// balance the generated inputs, recomputed here with big.Rat.
func tableBranch(a, b, c s2.Point) int {
	A, B, C := rv(a), rv(b), rv(c)
	nz := func(r *big.Rat) bool { return r.Sign() != 0 }
	bxc := [3]*big.Rat{
		rsub(rmul(B[1], C[2]), rmul(B[2], C[1])),
		rsub(rmul(B[2], C[0]), rmul(B[0], C[2])),
		rsub(rmul(B[0], C[1]), rmul(B[1], C[0]))}
	switch {
	case nz(bxc[2]):
		return 1
	case nz(bxc[1]):
		return 2
	case nz(bxc[0]):
		return 3
	case nz(rsub(rmul(C[0], A[1]), rmul(C[1], A[0]))):
		return 4
	case nz(C[0]):
		return 5
	case nz(C[1]):
		return 6
	case nz(rsub(rmul(C[2], A[0]), rmul(C[0], A[2]))):
		return 7
	case nz(C[2]):
		return 8
	case nz(rsub(rmul(A[0], B[1]), rmul(A[1], B[0]))):
		return 9
	case nz(B[0]):
		return 10
	case nz(B[1]):
		return 11
	case nz(A[0]):
		return 12
	}
	return 13
}

// cmpCos compares u/sqrt(n) with v/sqrt(m) exactly (n, m > 0): -1, 0, +1.
func cmpScaled(u, n, v, m *big.Rat) int {
	su, sv := u.Sign(), v.Sign()
	if su != sv {
		if su > sv {
			return 1
		}
		return -1
	}
	if su == 0 {
		return 0
	}
	// same non-zero sign: compare u^2 m with v^2 n
	l := rmul(rmul(u, u), m)
	r := rmul(rmul(v, v), n)
	return su * l.Cmp(r)
}

// oracleCompareDistances: sign of (angle AX - angle BX) for the points projected on the
// unit sphere, i.e. -cmp(cos AX, cos BX); 0 when the two distances are exactly equal.
// a and b must be non-zero vectors.
func oracleCompareDistances(x, a, b s2.Point) int {
	X, A, B := rv(x), rv(a), rv(b)
	return -cmpScaled(rdot(X, A), rdot(A, A), rdot(X, B), rdot(B, B))
}

// oracleCompareDistance: sign of (angle XY - r) where r is the chord-length^2; exact.
// cos XY = x.y/(|x||y|), cos r = 1 - r2/2.
func oracleCompareDistance(x, y s2.Point, r2 float64) int {
	X, Y := rv(x), rv(y)
	cosR := rsub(big.NewRat(1, 1), rmul(big.NewRat(1, 2), ratOf(r2)))
	return -cmpScaled(rdot(X, Y), rmul(rdot(X, X), rdot(Y, Y)), cosR, big.NewRat(1, 1))
}

func oracleDotSign(a, b s2.Point) int { return rdot(rv(a), rv(b)).Sign() }

// normalized reports | |p|^2 - 1 | <= 2^-50 exactly (the guard norm_pt of the distance theorems:
// what Normalize leaves; r3.Vector.IsUnit only guarantees 5e-14).
func normalized(p s2.Point) bool {
	P := rv(p)
	d := rsub(rdot(P, P), big.NewRat(1, 1))
	d.Abs(d)
	lim := new(big.Rat).SetFrac(big.NewInt(1), new(big.Int).Lsh(big.NewInt(1), 50))
	return d.Cmp(lim) <= 0
}
