package main

// Independent exact oracles (math/big.Rat on the exact values of the float64
// coordinates). Nothing here calls into the s2 predicates or r3.PreciseVector.

import (
	"math/big"

	"github.com/golang/geo/s2"
	"verifharness/internal/exactref"
)

// The exact-rational core and the perturbation oracle live in harness/internal/exactref (shared
// with the C03 observer); the names used by this observer are kept as thin aliases.
type rvec = exactref.RVec

func ratOf(f float64) *big.Rat { return exactref.RatOf(f) }
func rv(p s2.Point) rvec       { return exactref.RV(p) }

func rmul(a, b *big.Rat) *big.Rat { return exactref.Mul(a, b) }
func rsub(a, b *big.Rat) *big.Rat { return exactref.Sub(a, b) }
func radd(a, b *big.Rat) *big.Rat { return exactref.Add(a, b) }

func rdot(a, b rvec) *big.Rat    { return exactref.Dot(a, b) }
func rdet(a, b, c rvec) *big.Rat { return exactref.Det(a, b, c) }

func oracleDetSign(a, b, c s2.Point) int { return exactref.DetSign(a, b, c) }
func lexCmp(a, b s2.Point) int           { return exactref.LexCmp(a, b) }
func samePoint(a, b s2.Point) bool       { return exactref.SamePoint(a, b) }
func ranksOf(pts []s2.Point) []int       { return exactref.RanksOf(pts) }

func oraclePerturbedSign(rows [3]rvec, ranks [3]int) (int, uint64) {
	return exactref.PerturbedSign(rows, ranks)
}
func oracleSign(a, b, c s2.Point) (int, uint64) { return exactref.Sign(a, b, c) }

// table branch (1..13) the sorted degenerate triple a<b<c reaches; used only to label and
// balance the generated inputs, recomputed here with big.Rat.
func tableBranch(a, b, c s2.Point) int {
	A, B, C := rv(a), rv(b), rv(c)
	nz := func(r *big.Rat) bool { return r.Sign() != 0 }
	bxc := [3]*big.Rat{
		rsub(rmul(B[1], C[2]), rmul(B[2], C[1])),
		rsub(rmul(B[2], C[0]), rmul(B[0], C[2])),
		rsub(rmul(B[0], C[1]), rmul(B[1], C[0]))}
	switch {
	case nz(bxc[2]):
		return 1
	case nz(bxc[1]):
		return 2
	case nz(bxc[0]):
		return 3
	case nz(rsub(rmul(C[0], A[1]), rmul(C[1], A[0]))):
		return 4
	case nz(C[0]):
		return 5
	case nz(C[1]):
		return 6
	case nz(rsub(rmul(C[2], A[0]), rmul(C[0], A[2]))):
		return 7
	case nz(C[2]):
		return 8
	case nz(rsub(rmul(A[0], B[1]), rmul(A[1], B[0]))):
		return 9
	case nz(B[0]):
		return 10
	case nz(B[1]):
		return 11
	case nz(A[0]):
		return 12
	}
	return 13
}

// cmpCos compares u/sqrt(n) with v/sqrt(m) exactly (n, m > 0): -1, 0, +1.
func cmpScaled(u, n, v, m *big.Rat) int {
	su, sv := u.Sign(), v.Sign()
	if su != sv {
		if su > sv {
			return 1
		}
		return -1
	}
	if su == 0 {
		return 0
	}
	// same non-zero sign: compare u^2 m with v^2 n
	l := rmul(rmul(u, u), m)
	r := rmul(rmul(v, v), n)
	return su * l.Cmp(r)
}

// oracleCompareDistances: sign of (angle AX - angle BX) for the points projected on the
// unit sphere, i.e. -cmp(cos AX, cos BX); 0 when the two distances are exactly equal.
// a and b must be non-zero vectors.
func oracleCompareDistances(x, a, b s2.Point) int {
	X, A, B := rv(x), rv(a), rv(b)
	return -cmpScaled(rdot(X, A), rdot(A, A), rdot(X, B), rdot(B, B))
}

// oracleCompareDistance: sign of (angle XY - r) where r is the chord-length^2; exact.
// cos XY = x.y/(|x||y|), cos r = 1 - r2/2.
func oracleCompareDistance(x, y s2.Point, r2 float64) int {
	X, Y := rv(x), rv(y)
	cosR := rsub(big.NewRat(1, 1), rmul(big.NewRat(1, 2), ratOf(r2)))
	return -cmpScaled(rdot(X, Y), rmul(rdot(X, X), rdot(Y, Y)), cosR, big.NewRat(1, 1))
}

func oracleDotSign(a, b s2.Point) int { return rdot(rv(a), rv(b)).Sign() }

// normalized reports | |p|^2 - 1 | <= 2^-50 exactly (the guard norm_pt of the distance theorems:
// what Normalize leaves; r3.Vector.IsUnit only guarantees 5e-14).
func normalized(p s2.Point) bool {
	P := rv(p)
	d := rsub(rdot(P, P), big.NewRat(1, 1))
	d.Abs(d)
	lim := new(big.Rat).SetFrac(big.NewInt(1), new(big.Int).Lsh(big.NewInt(1), 50))
	return d.Cmp(lim) <= 0
}
