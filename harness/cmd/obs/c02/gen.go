package main

// Input generators. Every class is named (c.Class) so that the evidence file prints
// the distribution actually run.

import (
	"math"
	"sort"

	"github.com/golang/geo/r3"
	"github.com/golang/geo/s2"
	"verifharness/internal/vkit"
)

func (o *obs) randUnit() s2.Point {
	for {
		v := r3.Vector{X: o.rng.Range(-1, 1), Y: o.rng.Range(-1, 1), Z: o.rng.Range(-1, 1)}
		if n := v.Norm2(); n > 0.01 && n <= 1 {
			return s2.Point{Vector: v.Normalize()}
		}
	}
}

func norm(v r3.Vector) s2.Point { return s2.Point{Vector: v.Normalize()} }

// logUniform in [lo, hi]
func (o *obs) logU(lo, hi float64) float64 {
	return math.Exp(o.rng.Range(math.Log(lo), math.Log(hi)))
}

func ulpsPt(p s2.Point, kx, ky, kz int) s2.Point {
	return pt(vkit.Ulps(p.X, kx), vkit.Ulps(p.Y, ky), vkit.Ulps(p.Z, kz))
}

// permute/sign-flip coordinates: one of the 48 symmetries of the cube
func (o *obs) cubeSym() func(s2.Point) s2.Point {
	perm := [][3]int{{0, 1, 2}, {0, 2, 1}, {1, 0, 2}, {1, 2, 0}, {2, 0, 1}, {2, 1, 0}}[o.rng.Intn(6)]
	sg := [3]float64{1, 1, 1}
	for i := range sg {
		if o.rng.Bool() {
			sg[i] = -1
		}
	}
	return func(p s2.Point) s2.Point {
		v := [3]float64{p.X, p.Y, p.Z}
		return pt(sg[0]*v[perm[0]], sg[1]*v[perm[1]], sg[2]*v[perm[2]])
	}
}

// a point at angle ~theta from a (theta >= ~1e-8 for generic a)
func (o *obs) near(a s2.Point, theta float64) s2.Point {
	t := norm(a.Cross(o.randUnit().Vector))
	return norm(a.Vector.Mul(math.Cos(theta)).Add(t.Vector.Mul(math.Sin(theta))))
}

func (o *obs) shuffle3(a, b, c s2.Point) (s2.Point, s2.Point, s2.Point) {
	switch o.rng.Intn(6) {
	case 0:
		return a, b, c
	case 1:
		return b, c, a
	case 2:
		return c, a, b
	case 3:
		return c, b, a
	case 4:
		return b, a, c
	}
	return a, c, b
}

// regression inputs that always run first
func (o *obs) fixedCases() {
	x, y, z := pt(1, 0, 0), pt(0, 1, 0), pt(0, 0, 1)
	o.signCase("fixed", x, y, z)
	o.signCase("fixed", z, y, x)
	o.signCase("fixed", x, y, pt(-1, 0, 0)) // antipodal, coplanar
	o.signCase("fixed", x, pt(1, 1e-300, 0), pt(1, 0, 1e-300))
	o.signCase("fixed", x, pt(1, 5e-324, 0), pt(1, 0, 5e-324))
	o.signCase("fixed", x, x, y)
	o.signCase("fixed", x, y, x)
	o.signCase("fixed", pt(0, 1, 0), pt(math.Copysign(0, -1), 1, 0), x) // +0 / -0: identical for ==
	o.signCase("fixed", pt(0.6, 0.8, 0), pt(0.8, 0.6, 0), pt(-0.6, 0.8, 0))
	// stableSign underflow defect (reported by the C03 worker): c = b with X = -5e-324
	o.signCase("fixed:stableSign-underflow",
		pt(math.Float64frombits(0x3fe90f7bd8cd8e08), math.Float64frombits(0xbfcc55408c56be46), math.Float64frombits(0xbfe2987f204089a9)),
		pt(0, math.Float64frombits(0x3fdf84b33442996f), math.Float64frombits(0x3febd9b7e6fd4520)),
		pt(math.Float64frombits(0x8000000000000001), math.Float64frombits(0x3fdf84b33442996f), math.Float64frombits(0x3febd9b7e6fd4520)))
	o.symCase("fixed", pt(0, -1, 0), pt(0, 0, -1), pt(0, 0, 0)) // the final CounterClockwise
	o.distancesCase("fixed", x, pt(0.6, 0.8, 0), pt(0.6, 0, 0.8))
	o.distancesCase("fixed", x, pt(0.6, 0, 0.8), pt(0.6, 0.8, 0))
	o.distancesCase("fixed", x, y, y)
	o.distancesCase("fixed", x, pt(1, 1e-200, 0), pt(1, 0, 1e-200))
	o.distanceCase("fixed", x, y, 2)
	o.distanceCase("fixed", x, x, 0)
	o.distanceCase("fixed", x, pt(-1, 0, 0), 4)
	o.distanceCase("fixed", x, y, math.Inf(1))
	o.distanceCase("fixed", x, y, -1)
	o.dotCase("fixed", x, y)
	o.dotCase("fixed", x, pt(5e-324, 1, 0))
}

func (o *obs) genSign(budget int) {
	rng := o.rng
	for i := 0; i < 150*budget; i++ {
		a, b, c := o.randUnit(), o.randUnit(), o.randUnit()
		o.signCase("sign:random-unit", a, b, c)
		if i < 100*budget {
			o.miscCase(a, b, c, o.randUnit())
		}
	}
	// slivers: true determinant within a few multiples of the triage threshold, both signs,
	// with a dense band just around the threshold itself
	for i := 0; i < 400*budget; i++ {
		a := o.randUnit()
		b := o.near(a, o.logU(1e-6, math.Pi))
		n := a.Cross(b.Vector)
		nl := n.Norm()
		if nl == 0 {
			continue
		}
		m := norm(a.Vector.Mul(rng.Range(-1, 1)).Add(b.Vector.Mul(rng.Range(-1, 1))))
		var t float64
		cls := "sign:sliver|det|<2K"
		switch rng.Intn(4) {
		case 0:
			t = rng.Range(-2, 2)
		case 1:
			t = rng.Range(-0.3, 0.3)
			cls = "sign:sliver|det|<0.3K"
		default:
			t = (1 + rng.Range(-1e-3, 1e-3))
			if rng.Bool() {
				t = -t
			}
			cls = "sign:sliver|det|=K(1+-1e-3)"
		}
		delta := t * o.K / nl
		c := norm(m.Vector.Add(n.Mul(delta / nl)))
		a, b, c = o.shuffle3(a, b, c)
		o.signCase(cls, a, b, c)
	}
	// k ulps off a great circle
	for i := 0; i < 200*budget; i++ {
		a := o.randUnit()
		b := o.near(a, o.logU(1e-9, math.Pi))
		m := norm(a.Vector.Mul(rng.Range(-1, 1)).Add(b.Vector.Mul(rng.Range(-1, 1))))
		c := ulpsPt(m, rng.Intn(7)-3, rng.Intn(7)-3, rng.Intn(7)-3)
		a, b, c = o.shuffle3(a, b, c)
		o.signCase("sign:near-collinear(k-ulps)", a, b, c)
		if i < 50*budget {
			o.miscCase(a, b, c, o.randUnit())
		}
	}
	// separations from 1e-300 up: only possible next to a coordinate axis
	for i := 0; i < 200*budget; i++ {
		e := math.Pow(10, -rng.Range(1, 320))
		if rng.Intn(8) == 0 {
			e = math.Ldexp(1, -1074+rng.Intn(4))
		}
		f := []float64{2, 0.5, -1, 1, vkit.Ulps(1, 1), vkit.Ulps(1, -1), 3, 1e-10, 1e10}[rng.Intn(9)]
		g := []float64{0, e, -e, e * 1e-8, e * 1e-160, 5e-324, e * vkit.Ulps(1, 1)}[rng.Intn(7)]
		a := pt(1, 0, 0)
		if rng.Bool() {
			a = pt(1, e*rng.Range(-1, 1), e*rng.Range(-1, 1))
		}
		b := pt(1, a.Y+e, a.Z)
		c := pt(1, a.Y+e*f, a.Z+g)
		sym := o.cubeSym()
		a, b, c = o.shuffle3(sym(a), sym(b), sym(c))
		o.signCase("sign:separation-1e-1..1e-320", a, b, c)
	}
	// two points that differ only by a denormal / tiny amount in a coordinate that is exactly 0
	// in one of them (generic direction otherwise): |e|^2 underflows in stableSign
	for i := 0; i < 3000*budget; i++ {
		o.searchOnly = i >= 60*budget // a wrong answer needs ~400 trials: most of them run [S] only
		b := norm(r3.Vector{X: 0, Y: rng.Range(-1, 1), Z: rng.Range(-1, 1)})
		t := math.Ldexp(1, -1074+rng.Intn(600))
		if rng.Intn(3) != 0 { // the last few binades above the smallest denormal
			t = math.Ldexp(float64(1+rng.Intn(7)), -1074+rng.Intn(3))
		}
		if rng.Bool() {
			t = -t
		}
		c := pt(t, b.Y, b.Z)
		if rng.Intn(3) == 0 {
			c = ulpsPt(c, 0, rng.Intn(3)-1, rng.Intn(3)-1)
		}
		a := o.randUnit()
		if rng.Intn(3) == 0 { // a nearly on the great circle through b with x = 0
			a = norm(r3.Vector{X: math.Ldexp(rng.Range(-1, 1), -rng.Intn(1074)), Y: rng.Range(-1, 1), Z: rng.Range(-1, 1)})
		}
		sym := o.cubeSym()
		a, b, c = o.shuffle3(sym(a), sym(b), sym(c))
		o.signCase("sign:tiny-offset-from-zero-coordinate", a, b, c)
	}
	o.searchOnly = false
	// two points whose SQUARED distance is a non-zero denormal (separation 1e-165..1e-150 in a
	// coordinate that is 0 in one of them) and a third point almost on their great circle at
	// 0.05..1 rad: |e1|^2*|e2|^2 underflows to 0 although no factor is 0
	for i := 0; i < 5000*budget; i++ {
		o.searchOnly = i >= 40*budget
		b := norm(r3.Vector{X: 0, Y: rng.Range(-1, 1), Z: rng.Range(-1, 1)})
		t := o.logU(1e-165, 1e-150)
		if rng.Intn(3) != 0 {
			t = rng.Range(1.6e-162, 6e-162) // squared separation = a few units of the smallest denormal
		}
		if rng.Bool() {
			t = -t
		}
		c := pt(t, b.Y, b.Z)
		th := rng.Range(0.05, 1)
		if rng.Intn(3) != 0 {
			th = rng.Range(0.2, 0.6)
		}
		if rng.Bool() {
			th = -th
		}
		// on the great circle through b and c (spanned by b and the x axis), then a few ulps off
		a := norm(r3.Vector{X: math.Sin(th), Y: math.Cos(th) * b.Y, Z: math.Cos(th) * b.Z})
		if rng.Bool() {
			a = ulpsPt(a, rng.Intn(3)-1, rng.Intn(3)-1, rng.Intn(3)-1)
		}
		sym := o.cubeSym()
		a, b, c = o.shuffle3(sym(a), sym(b), sym(c))
		o.signCase("sign:denormal-squared-separation", a, b, c)
	}
	o.searchOnly = false
	// identical, +-0, antipodal
	for i := 0; i < 12*budget; i++ {
		a, b := o.randUnit(), o.randUnit()
		o.signCase("sign:two-identical", a, a, b)
		o.signCase("sign:two-identical", a, b, a)
		o.signCase("sign:two-identical", b, a, a)
		o.signCase("sign:two-identical", a, a, a)
		z := norm(r3.Vector{X: rng.Range(-1, 1), Y: rng.Range(-1, 1), Z: 0})
		zm := pt(z.X, z.Y, math.Copysign(0, -1))
		sym := o.cubeSym()
		o.signCase("sign:+0/-0", sym(z), sym(zm), b)
		o.signCase("sign:+0/-0", b, sym(zm), sym(z))
		na := pt(-a.X, -a.Y, -a.Z)
		o.signCase("sign:antipodal", a, na, b)
		o.signCase("sign:antipodal", b, a, na)
		o.signCase("sign:nearly-antipodal", a, ulpsPt(na, rng.Intn(5)-2, rng.Intn(5)-2, rng.Intn(5)-2), b)
		o.signCase("sign:nearly-identical", a, ulpsPt(a, rng.Intn(5)-2, rng.Intn(5)-2, rng.Intn(5)-2), b)
		o.signCase("sign:nearly-identical", a, ulpsPt(a, 1, 0, 0), ulpsPt(a, 0, 1, 0))
	}
	// exactly coplanar unit points
	for i := 0; i < 150*budget; i++ {
		pts := o.planarUnit(3)
		o.signCase("sign:unit-exactly-coplanar", pts[0], pts[1], pts[2])
	}
	// small integer coordinates (not unit): only the exact stages are specified there
	for i := 0; i < 200*budget; i++ {
		a, b, c := o.gridPt(), o.gridPt(), o.gridPt()
		o.signCase("sign:integer-grid", a, b, c)
	}
}

// n unit points in one plane through the origin that float arithmetic represents exactly:
// a coordinate plane (one coordinate 0) or a diagonal plane (two coordinates equal / opposite)
func (o *obs) planarUnit(n int) []s2.Point {
	rng := o.rng
	kind := rng.Intn(3)
	sym := o.cubeSym()
	out := []s2.Point{}
	for len(out) < n {
		var p s2.Point
		t := rng.Range(0, 2*math.Pi)
		switch rng.Intn(6) {
		case 0:
			t = float64(rng.Intn(4)) * math.Pi / 2 // on an axis (up to rounding of cos/sin)
		case 1:
			t = math.Atan2(0.6, 0.8) * float64(1+rng.Intn(3))
		}
		u, v := math.Cos(t), math.Sin(t)
		if rng.Intn(5) == 0 {
			u, v = []float64{1, 0, -1, 0}[rng.Intn(4)], 0
			if u == 0 {
				v = []float64{1, -1}[rng.Intn(2)]
			}
		}
		switch kind {
		case 0:
			p = pt(u, v, 0)
		case 1:
			q := norm(r3.Vector{X: u, Y: u, Z: v}) // x == y stays exact under Normalize
			p = q
		default:
			q := norm(r3.Vector{X: u, Y: -u, Z: v})
			p = q
		}
		if p.X == 0 && p.Y == 0 && p.Z == 0 {
			continue
		}
		out = append(out, sym(p))
	}
	return out
}

func (o *obs) gridPt() s2.Point {
	co := func() float64 {
		if o.rng.Bool() {
			return 0
		}
		return []float64{1, -1, 2, -2, 1, -1, 3, 0.5}[o.rng.Intn(8)]
	}
	return pt(co(), co(), co())
}

// sorted, distinct, exactly coplanar triples through every branch of the table
func (o *obs) genSym(budget int) {
	want := 8 * budget
	count := map[int]int{}
	full := 0
	for tries := 0; tries < 400000*budget && full < 13; tries++ {
		ps := []s2.Point{o.gridPt(), o.gridPt(), o.gridPt()}
		sort.Slice(ps, func(i, j int) bool { return lexCmp(ps[i], ps[j]) < 0 })
		if lexCmp(ps[0], ps[1]) == 0 || lexCmp(ps[1], ps[2]) == 0 {
			continue
		}
		if oracleDetSign(ps[0], ps[1], ps[2]) != 0 {
			continue
		}
		br := tableBranch(ps[0], ps[1], ps[2])
		if count[br] >= want {
			continue
		}
		count[br]++
		if count[br] == want {
			full++
		}
		o.symCase("sym:integer-grid", ps[0], ps[1], ps[2])
		// and through exactSign in a random argument order
		a, b, c := o.shuffle3(ps[0], ps[1], ps[2])
		o.signCase("sign:degenerate-grid", a, b, c)
	}
	missing := []int{}
	for br := 1; br <= 13; br++ {
		if count[br] == 0 {
			missing = append(missing, br)
		}
	}
	o.c.Extra["table_branches_not_reached"] = missing
	// unit-length degenerate triples (sorted first), whatever branch they reach
	for i := 0; i < 40*budget; i++ {
		ps := o.planarUnit(3)
		sort.Slice(ps, func(i, j int) bool { return lexCmp(ps[i], ps[j]) < 0 })
		if lexCmp(ps[0], ps[1]) == 0 || lexCmp(ps[1], ps[2]) == 0 || oracleDetSign(ps[0], ps[1], ps[2]) != 0 {
			continue
		}
		o.symCase("sym:unit-coplanar", ps[0], ps[1], ps[2])
	}
}

func (o *obs) genTuples(budget int) {
	rng := o.rng
	for i := 0; i < 40*budget; i++ {
		ps := o.planarUnit(5)
		if rng.Intn(3) == 0 { // add an off-plane point: mixes degenerate and generic triples
			ps[rng.Intn(5)] = o.cubeSym()(pt(0, 0, 1))
		}
		if rng.Intn(4) == 0 {
			q := ps[0]
			ps[1] = pt(-q.X, -q.Y, -q.Z)
		}
		o.tupleCase("tuple:unit-coplanar", ps)
	}
	for i := 0; i < 60*budget; i++ {
		ps := []s2.Point{o.gridPt(), o.gridPt(), o.gridPt(), o.gridPt(), o.gridPt()}
		o.tupleCase("tuple:integer-grid", ps)
	}
	for i := 0; i < 20*budget; i++ {
		o.tupleCase("tuple:unit-coplanar", o.planarUnit(4))
		o.tupleCase("tuple:integer-grid", []s2.Point{o.gridPt(), o.gridPt(), o.gridPt(), o.gridPt()})
	}
	for i := 0; i < 10*budget; i++ {
		// near-degenerate generic: five points within a few ulps of one great circle
		a := o.randUnit()
		b := o.near(a, o.logU(1e-3, 3))
		ps := []s2.Point{a, b}
		for len(ps) < 5 {
			m := norm(a.Vector.Mul(rng.Range(-1, 1)).Add(b.Vector.Mul(rng.Range(-1, 1))))
			ps = append(ps, ulpsPt(m, rng.Intn(3)-1, rng.Intn(3)-1, rng.Intn(3)-1))
		}
		o.tupleCase("tuple:near-great-circle", ps)
	}
}

func (o *obs) genDistances(budget int) {
	rng := o.rng
	for i := 0; i < 80*budget; i++ {
		o.distancesCase("cd:random-unit", o.randUnit(), o.randUnit(), o.randUnit())
	}
	// exactly equal distances: x symmetric in two coordinates, b = a with them exchanged
	for i := 0; i < 80*budget; i++ {
		u, v := rng.Range(-1, 1), rng.Range(-1, 1)
		x := norm(r3.Vector{X: u, Y: v, Z: v})
		if rng.Intn(4) == 0 {
			x = pt(1, 0, 0)
		}
		a := o.randUnit()
		if rng.Intn(3) == 0 {
			a = o.near(x, o.logU(1e-9, 1))
		}
		b := pt(a.X, a.Z, a.Y)
		sym := o.cubeSym()
		x, a, b = sym(x), sym(a), sym(b)
		if rng.Bool() {
			a, b = b, a
		}
		o.distancesCase("cd:exactly-equal-distances", x, a, b)
	}
	// b within a few ulps of a, at angles near 0, 45, 90, 135, 180 degrees from x and random
	for i := 0; i < 140*budget; i++ {
		x := o.randUnit()
		var th float64
		switch rng.Intn(7) {
		case 0:
			th = o.logU(1e-15, 1e-3)
		case 1:
			th = math.Pi - o.logU(1e-15, 1e-3)
		case 2:
			th = math.Pi/2 + rng.Range(-1e-8, 1e-8)
		case 3:
			th = math.Pi/4 + rng.Range(-1e-12, 1e-12)
		case 4:
			th = 3*math.Pi/4 + rng.Range(-1e-12, 1e-12)
		default:
			th = rng.Range(0, math.Pi)
		}
		a := o.near(x, th)
		b := ulpsPt(a, rng.Intn(5)-2, rng.Intn(5)-2, rng.Intn(5)-2)
		if rng.Intn(4) == 0 {
			// same distance up to rounding but far apart: rotate a about x
			b = o.near(x, th)
		}
		o.distancesCase("cd:nearly-equal-distances", x, a, b)
	}
	// IsUnit but not normalized: b = a scaled by 1 + t, t up to 2e-14 (same direction up to rounding)
	for i := 0; i < 40*budget; i++ {
		x, a := o.randUnit(), o.randUnit()
		b := s2.Point{Vector: a.Mul(1 + rng.Range(-2e-14, 2e-14))}
		if !b.IsUnit() {
			continue
		}
		o.distancesCase("cd:isunit-not-normalized", x, a, b)
	}
	for i := 0; i < 20*budget; i++ {
		x, a := o.randUnit(), o.randUnit()
		o.distancesCase("cd:a==b", x, a, a)
		z := norm(r3.Vector{X: rng.Range(-1, 1), Y: rng.Range(-1, 1), Z: 0})
		o.distancesCase("cd:a==b(+0/-0)", x, z, pt(z.X, z.Y, math.Copysign(0, -1)))
	}
	for i := 0; i < 40*budget; i++ {
		e := math.Pow(10, -rng.Range(1, 320))
		f := []float64{1, 2, -1, vkit.Ulps(1, 1), 0.5}[rng.Intn(5)]
		x, a, b := pt(1, 0, 0), pt(1, e, 0), pt(1, 0, e*f)
		if rng.Bool() {
			b = pt(1, e*f, 0)
		}
		sym := o.cubeSym()
		o.distancesCase("cd:separation-1e-1..1e-320", sym(x), sym(a), sym(b))
	}
	for i := 0; i < 80*budget; i++ {
		x, a, b := o.gridPt(), o.gridPt(), o.gridPt()
		if (a.X == 0 && a.Y == 0 && a.Z == 0) || (b.X == 0 && b.Y == 0 && b.Z == 0) {
			continue
		}
		o.distancesCase("cd:integer-grid", x, a, b)
	}
}

func (o *obs) genDistance(budget int) {
	rng := o.rng
	ca45 := s2.VerifC02Ca45Degrees()
	for i := 0; i < 250*budget; i++ {
		x := o.randUnit()
		var y s2.Point
		switch rng.Intn(5) {
		case 0:
			y = o.randUnit()
		case 1:
			y = o.near(x, o.logU(1e-15, 1e-2))
		case 2:
			y = o.near(x, math.Pi-o.logU(1e-15, 1e-2))
		case 3:
			y = o.near(x, math.Pi/2+rng.Range(-1e-9, 1e-9))
		default:
			y = o.near(x, rng.Range(0, math.Pi))
		}
		if rng.Intn(10) == 0 {
			sym := o.cubeSym()
			e := math.Pow(10, -rng.Range(1, 320))
			x, y = sym(pt(1, 0, 0)), sym(pt(1, e, 0))
		}
		d2 := x.Sub(y.Vector).Norm2()
		var r2 float64
		cls := "cd1:limit=chord^2+-ulps"
		switch rng.Intn(8) {
		case 0:
			r2, cls = rng.Range(0, 4), "cd1:limit-random"
		case 1:
			r2, cls = []float64{0, 4, 2, ca45, vkit.Ulps(ca45, 1), vkit.Ulps(ca45, -1), math.Inf(1), -1, 5e-324}[rng.Intn(9)], "cd1:limit-special"
		default:
			r2 = vkit.Ulps(d2, rng.Intn(9)-4)
			if r2 < 0 {
				r2 = 0
			}
		}
		o.distanceCase(cls, x, y, r2)
	}
}

func (o *obs) genDot(budget int) {
	rng := o.rng
	for i := 0; i < 40*budget; i++ {
		o.dotCase("dot:random-unit", o.randUnit(), o.randUnit())
	}
	for i := 0; i < 120*budget; i++ {
		a := o.randUnit()
		b := norm(a.Cross(o.randUnit().Vector))
		b = ulpsPt(b, rng.Intn(5)-2, rng.Intn(5)-2, rng.Intn(5)-2)
		cls := "dot:nearly-orthogonal"
		if rng.Intn(3) == 0 { // un-normalised edge normals: |v|^2 up to 2
			s, t := rng.Range(0.5, math.Sqrt2*0.999), rng.Range(0.5, math.Sqrt2*0.999)
			a, b = s2.Point{Vector: a.Mul(s)}, s2.Point{Vector: b.Mul(t)}
			cls = "dot:nearly-orthogonal|v|^2<=2"
		}
		o.dotCase(cls, a, b)
	}
	for i := 0; i < 40*budget; i++ {
		t := rng.Range(0, 2*math.Pi)
		c, s := math.Cos(t), math.Sin(t)
		sym := o.cubeSym()
		o.dotCase("dot:exactly-orthogonal", sym(pt(c, s, 0)), sym(pt(-s, c, 0)))
		o.dotCase("dot:exactly-orthogonal", sym(pt(c, s, 0)), sym(pt(0, 0, 1)))
	}
}

// a pair (x, y) at one of the angles where the dispatchers change method
func (o *obs) pairAt(kind int) (s2.Point, s2.Point, string) {
	rng := o.rng
	x := o.randUnit()
	switch kind {
	case 0: // nearly identical, 1e-100 .. 0.8 rad
		phi := o.logU(1e-100, 0.8)
		if phi < 1e-7 {
			sym := o.cubeSym()
			return sym(pt(1, 0, 0)), sym(pt(1, phi, 0)), "near-0"
		}
		return x, o.near(x, phi), "near-0"
	case 1: // nearly antipodal: y within 1e-100 .. 0.8 rad of -x
		phi := o.logU(1e-100, 0.8)
		if phi < 1e-7 {
			sym := o.cubeSym()
			return sym(pt(1, 0, 0)), sym(pt(-1, phi, 0)), "near-180"
		}
		return x, o.near(x, math.Pi-phi), "near-180"
	case 2:
		return x, o.near(x, math.Pi/2+[]float64{0, 1e-9, -1e-9, 0.05, -0.05}[rng.Intn(5)]*rng.Float()), "near-90"
	case 3:
		return x, o.near(x, math.Pi/4+[]float64{0, 1e-10, -1e-10, 0.05, -0.05}[rng.Intn(5)]*rng.Float()), "near-45"
	case 4:
		return x, o.near(x, 3*math.Pi/4+[]float64{0, 1e-10, -1e-10, 0.05, -0.05}[rng.Intn(5)]*rng.Float()), "near-135"
	}
	return x, o.randUnit(), "random"
}

// a limit (squared chord length) in one of the ranges where CompareDistance changes method
func (o *obs) limitAt(kind int, d2 float64) (float64, string) {
	rng := o.rng
	ca45 := s2.VerifC02Ca45Degrees()
	switch kind {
	case 0: // small limits, 1e-100 rad .. 45 degrees
		rho := o.logU(1e-100, 0.78)
		s := math.Sin(rho / 2)
		return 4 * s * s, "limit<45deg"
	case 1:
		return vkit.Ulps(ca45, rng.Intn(9)-4) + []float64{0, 1e-3, -1e-3}[rng.Intn(3)]*rng.Float(), "limit~45deg"
	case 2:
		return 2 + []float64{0, 1e-9, -1e-9, 0.3, -0.3}[rng.Intn(5)]*rng.Float(), "limit~90deg"
	case 3:
		return 4 - o.logU(1e-16, 1), "limit~180deg"
	case 4:
		r := vkit.Ulps(d2, rng.Intn(9)-4)
		if r < 0 {
			r = 0
		}
		return r, "limit=chord^2+-ulps"
	}
	return rng.Range(0, 4), "limit-random"
}

// every pair family against every limit family (CompareDistance)
func (o *obs) genDistanceGrid(budget int) {
	for pk := 0; pk < 6; pk++ {
		for lk := 0; lk < 6; lk++ {
			for i := 0; i < 12*budget; i++ {
				x, y, pn := o.pairAt(pk)
				r2, ln := o.limitAt(lk, x.Sub(y.Vector).Norm2())
				o.distanceCase("cd1:"+pn+"/"+ln, x, y, r2)
			}
		}
	}
}

// CompareDistances at the dispatcher thresholds: a at one of the special angles from x, b at
// nearly the same distance (a few ulps, a tiny relative change of the angle, or on the other side
// of the threshold), including both near the antipode of x where sin^2 decreases
func (o *obs) genDistancesGrid(budget int) {
	rng := o.rng
	for pk := 0; pk < 6; pk++ {
		for i := 0; i < 40*budget; i++ {
			x, a, pn := o.pairAt(pk)
			var b s2.Point
			switch rng.Intn(4) {
			case 0:
				b = ulpsPt(a, rng.Intn(5)-2, rng.Intn(5)-2, rng.Intn(5)-2)
			case 1: // another point at (almost) the same angle from x
				_, b, _ = o.pairAt(pk)
				if pk <= 1 {
					// keep the same x for the axis-aligned tiny-angle constructions
					ang := x.Angle(a.Vector).Radians()
					if ang > 1e-6 && math.Pi-ang > 1e-6 {
						b = o.near(x, ang*(1+rng.Range(-1e-9, 1e-9)))
					} else {
						b = ulpsPt(a, rng.Intn(3)-1, rng.Intn(3)-1, rng.Intn(3)-1)
					}
				} else {
					b = o.near(x, x.Angle(a.Vector).Radians()+rng.Range(-1e-9, 1e-9))
				}
			case 2:
				b = o.near(x, x.Angle(a.Vector).Radians()*(1+rng.Range(-0.3, 0.3)))
			default:
				b = o.randUnit()
			}
			if rng.Bool() {
				a, b = b, a
			}
			o.distancesCase("cd:"+pn, x, a, b)
		}
	}
}
