// Observer for property C02: orientation and distance predicates of s2/predicates.go.
//
// [T] every input tuple is run through each stage of the real code (verif hooks) and the
// tuple of results, including which stage decided, is compared with the Coq model
// (Gen.R3 / Gen.S2Pred translated from the source, Model.Pred for the exact stages).
// [S] the property itself on the real implementation against exact big.Rat oracles
// (oracle.go) that share no code with the predicates.
package main

import (
	"fmt"
	"math"

	"github.com/golang/geo/r3"
	"github.com/golang/geo/s1"
	"github.com/golang/geo/s2"
	"verifharness/internal/vkit"
)

func main() { vkit.Main("C02", []string{"Gen.R3", "Gen.S2Pred", "Model.Pred"}, run) }

func pt(x, y, z float64) s2.Point { return s2.Point{Vector: r3.Vector{X: x, Y: y, Z: z}} }

func P(p s2.Point) string {
	return vkit.App("mk_s2_Point", vkit.App("mk_r3_Vector", vkit.F(p.X), vkit.F(p.Y), vkit.F(p.Z)))
}

func key(ps ...s2.Point) string {
	s := ""
	for _, p := range ps {
		s += fmt.Sprintf("%x,%x,%x;", math.Float64bits(p.X), math.Float64bits(p.Y), math.Float64bits(p.Z))
	}
	return s
}

func rep(ps ...s2.Point) map[string]interface{} {
	pts := [][]string{}
	dec := [][]float64{}
	for _, p := range ps {
		pts = append(pts, []string{fmt.Sprintf("%x", p.X), fmt.Sprintf("%x", p.Y), fmt.Sprintf("%x", p.Z)})
		dec = append(dec, []float64{p.X, p.Y, p.Z})
	}
	return map[string]interface{}{"points_hex": pts, "points": dec}
}

func zl(xs ...int) string {
	s := make([]string, len(xs))
	for i, x := range xs {
		s[i] = vkit.Z(int64(x))
	}
	return vkit.List(s)
}

func isUnit(p s2.Point) bool { return p.IsUnit() }


// stableUnderflow reports whether the error scale of stableSign, |e1|^2*|e2|^2 for the two
// shorter edges, underflows (so that maxErr is 0 or meaningless). Recomputed here from the
// definition; used only to CLASSIFY a wrong stableSign answer as the known underflow defect.
func stableUnderflow(a, b, c s2.Point) bool {
	ab, bc, ca := b.Sub(a.Vector), c.Sub(b.Vector), a.Sub(c.Vector)
	n := []float64{ab.Norm2(), bc.Norm2(), ca.Norm2()}
	// product of the two smallest squared lengths
	lo1, lo2 := math.Inf(1), math.Inf(1)
	for _, v := range n {
		if v < lo1 {
			lo1, lo2 = v, lo1
		} else if v < lo2 {
			lo2 = v
		}
	}
	return lo1*lo2 < 0x1p-960
}

type obs struct {
	c   *vkit.Collector
	rng *vkit.Rng
	K   float64 // maxDeterminantError of the tree under test
	// searchOnly: run the [S] checks of signCase without adding a correspondence case
	// (for classes that need thousands of trials to hit a rare failure)
	searchOnly bool
}

// ---------------------------------------------------------------- orientation

// signCase runs one triple through every stage. unit says whether the float stages are
// inside their documented domain (then the [S] checks on them apply).
func (o *obs) signCase(class string, a, b, c s2.Point) {
	cl := o.c
	cl.Class(class)
	tri := int(s2.VerifC02TriageSign(a, b, c))
	stb := int(s2.VerifC02StableSign(a, b, c))
	exd := int(s2.VerifC02ExactSign(a, b, c, false))
	exs := int(s2.VerifC02ExactSign(a, b, c, true))
	exp := int(s2.VerifC02ExpensiveSign(a, b, c))
	rob := int(s2.RobustSign(a, b, c))
	identical := samePoint(a, b) || samePoint(b, c) || samePoint(c, a)
	stage, want := 0, 0
	switch {
	case tri != 0:
		stage, want = 1, tri
	case identical:
		stage, want = 2, 0
	case stb != 0:
		stage, want = 3, stb
	case exd != 0:
		stage, want = 4, exd
	default:
		stage, want = 5, exs
	}
	k := key(a, b, c)
	cl.Eval("sign:"+k, stage >= 2 || math.Abs(a.Cross(b.Vector).Dot(c.Vector)) < 8*o.K)
	cl.Class(fmt.Sprintf("decided-by:%d", stage))
	cl.Sample(map[string]interface{}{"type": "sign", "class": class, "a": []float64{a.X, a.Y, a.Z}, "b": []float64{b.X, b.Y, b.Z}, "c": []float64{c.X, c.Y, c.Z}, "stage": stage, "RobustSign": rob})
	// [T]
	if !o.searchOnly {
		cl.Check("sign "+class+" "+k, vkit.App("zlist_eqb", vkit.App("sign_stages", P(a), P(b), P(c)), zl(tri, stb, exd, exs, exp, rob, stage)))
	}

	// [S]
	r := rep(a, b, c)
	r["class"] = class
	r["stages"] = map[string]int{"triage": tri, "stable": stb, "exactDet": exd, "exact": exs, "expensive": exp, "robust": rob}
	if rob != want {
		cl.Violate("RobustSign.stages", "RobustSign differs from the composition of its stages", r)
	}
	det := oracleDetSign(a, b, c)
	unit := isUnit(a) && isUnit(b) && isUnit(c)
	if exd != det {
		cl.Violate("exactSign.det", "exactSign(perturb=false) is not the sign of the exact determinant", r)
	}
	if det != 0 && exs != det {
		cl.Violate("exactSign.det", "exactSign differs from the sign of the non-zero exact determinant", r)
	}
	if exs == 0 {
		cl.Violate("exactSign.zero", "exactSign with perturbation returned 0", r)
	}
	if !identical {
		if osgn, _ := oracleSign(a, b, c); exs != osgn {
			cl.Violate("exactSign.perturbation", "exactSign differs from the sign of the symbolically perturbed determinant (definition of the scheme, Leibniz expansion)", r)
		}
	}
	if unit {
		if tri != 0 && tri != det {
			cl.Violate("triageSign.wrong", "triageSign returned a non-zero sign that is not the sign of the exact determinant (H-TRIAGE-DET)", r)
		}
		under := stableUnderflow(a, b, c)
		stableWrong := stb != 0 && stb != det
		if stableWrong && under {
			cl.Violate("stableSign.underflow", "stableSign returns a wrong non-zero sign when |e1|^2*|e2|^2 underflows (regression of fix bfbf523: maxErr below the no-underflow limit must give Indeterminate)", r)
		} else if stableWrong {
			cl.Violate("stableSign.wrong", "stableSign returned a non-zero sign that is not the sign of the exact determinant (H-STABLE-DET)", r)
		}
		if det != 0 && rob != det && !(tri == 0 && stableWrong && under) {
			cl.Violate("RobustSign.det", "RobustSign is not the sign of the non-zero exact determinant", r)
		}
		if (rob == 0) != identical {
			cl.Violate("RobustSign.zero", "RobustSign is zero although the points are distinct, or non-zero with two identical points", r)
		}
		// rotation and swap laws on the real RobustSign, all six orders
		for _, q := range [][4]interface{}{{b, c, a, 1}, {c, a, b, 1}, {c, b, a, -1}, {b, a, c, -1}, {a, c, b, -1}} {
			qa, qb, qc := q[0].(s2.Point), q[1].(s2.Point), q[2].(s2.Point)
			got := int(s2.RobustSign(qa, qb, qc))
			if got != q[3].(int)*rob {
				// attribute to the known underflow defect when one of the two calls was decided by a
				// wrong, underflowed stableSign
				qs := int(s2.VerifC02StableSign(qa, qb, qc))
				qWrong := s2.VerifC02TriageSign(qa, qb, qc) == 0 && qs != 0 && qs != q[3].(int)*det
				if under && ((tri == 0 && stableWrong) || qWrong) {
					cl.Violate("stableSign.underflow", "RobustSign permutation law broken through the stableSign underflow defect", r)
				} else {
					cl.Violate("RobustSign.permutation", "RobustSign is not invariant under rotation / negated by a swap", r)
				}
				break
			}
		}
	}
	if !identical {
		// the same laws for exactSign on any finite distinct points
		for _, q := range [][4]interface{}{{b, c, a, 1}, {c, a, b, 1}, {c, b, a, -1}, {b, a, c, -1}, {a, c, b, -1}} {
			got := int(s2.VerifC02ExactSign(q[0].(s2.Point), q[1].(s2.Point), q[2].(s2.Point), true))
			if got != q[3].(int)*exs {
				cl.Violate("exactSign.permutation", "exactSign is not invariant under rotation / negated by a swap", r)
				break
			}
		}
	}
}

// symCase: a sorted, distinct, exactly coplanar triple straight into symbolicallyPerturbedSign.
func (o *obs) symCase(class string, a, b, c s2.Point) {
	cl := o.c
	br := tableBranch(a, b, c)
	cl.Class(fmt.Sprintf("%s:branch%02d", class, br))
	got := int(s2.VerifC02SymbolicallyPerturbedSign(a, b, c))
	k := key(a, b, c)
	cl.Eval("sym:"+k, true)
	cl.Check("sym "+k, vkit.App("zlist_eqb", vkit.App("sym_stages", P(a), P(b), P(c)), zl(got, br)))
	want, _ := oraclePerturbedSign([3]rvec{rv(a), rv(b), rv(c)}, [3]int{0, 1, 2})
	if got != want {
		r := rep(a, b, c)
		r["branch"] = br
		r["got"] = got
		r["want"] = want
		cl.Violate("symbolicallyPerturbedSign.table", "the table's answer differs from the sign of the perturbed determinant expanded from the definition", r)
	}
}

// tupleCase: 4- and 5-tuples of pairwise distinct points. One global perturbation (ranks
// in the whole tuple) must explain every triple, and the answers must satisfy the
// three-term Grassmann-Pluecker sign conditions.
func (o *obs) tupleCase(class string, pts []s2.Point) {
	cl := o.c
	n := len(pts)
	for i := 0; i < n; i++ {
		for j := i + 1; j < n; j++ {
			if samePoint(pts[i], pts[j]) {
				return
			}
		}
	}
	cl.Class(fmt.Sprintf("%s:%d-tuple", class, n))
	unit := true
	for _, p := range pts {
		unit = unit && isUnit(p)
	}
	sign := func(i, j, k int) int {
		if unit {
			return int(s2.RobustSign(pts[i], pts[j], pts[k]))
		}
		return int(s2.VerifC02ExactSign(pts[i], pts[j], pts[k], true))
	}
	ranks := ranksOf(pts)
	chi := map[[3]int]int{}
	r := rep(pts...)
	r["class"] = class
	degenerate := 0
	for i := 0; i < n; i++ {
		for j := 0; j < n; j++ {
			for k := 0; k < n; k++ {
				if i == j || j == k || i == k {
					continue
				}
				s := sign(i, j, k)
				chi[[3]int{i, j, k}] = s
				want, mask := oraclePerturbedSign([3]rvec{rv(pts[i]), rv(pts[j]), rv(pts[k])}, [3]int{ranks[i], ranks[j], ranks[k]})
				if mask != 0 {
					degenerate++
				}
				if s != want {
					r["triple"] = []int{i, j, k}
					cl.Violate("chirotope.global-perturbation", "a triple's sign is not the one given by the single perturbation fixed by the lexicographic rank in the whole tuple", r)
					return
				}
			}
		}
	}
	cl.Eval("tuple:"+key(pts...), degenerate > 0)
	// [T] the model on every increasing triple (the other orders are covered by signCase)
	for i := 0; i < n; i++ {
		for j := i + 1; j < n; j++ {
			for k := j + 1; k < n; k++ {
				f := "exact_sign"
				if unit {
					f = "robust_sign"
				}
				cl.Check(fmt.Sprintf("tuple %s %d%d%d %s", class, i, j, k, key(pts[i], pts[j], pts[k])),
					vkit.App("Z.eqb", vkit.App(f, P(pts[i]), P(pts[j]), P(pts[k])), vkit.Z(int64(chi[[3]int{i, j, k}]))))
			}
		}
	}
	// three-term Grassmann-Pluecker: [a b c][a d e] - [a b d][a c e] + [a b e][a c d] = 0
	// for real vectors, so the three signed terms cannot all be > 0 or all be < 0.
	if n >= 5 {
		for a := 0; a < n; a++ {
			rest := []int{}
			for i := 0; i < n; i++ {
				if i != a {
					rest = append(rest, i)
				}
			}
			for bi := 0; bi < len(rest); bi++ {
				b := rest[bi]
				oth := []int{}
				for _, i := range rest {
					if i != b {
						oth = append(oth, i)
					}
				}
				// all choices of (c,d,e) among the remaining (n=5: exactly one set, 6 orders)
				for x := 0; x < len(oth); x++ {
					for y := 0; y < len(oth); y++ {
						for z := 0; z < len(oth); z++ {
							if x == y || y == z || x == z {
								continue
							}
							c, d, e := oth[x], oth[y], oth[z]
							t1 := chi[[3]int{a, b, c}] * chi[[3]int{a, d, e}]
							t2 := -chi[[3]int{a, b, d}] * chi[[3]int{a, c, e}]
							t3 := chi[[3]int{a, b, e}] * chi[[3]int{a, c, d}]
							if (t1 > 0 && t2 > 0 && t3 > 0) || (t1 < 0 && t2 < 0 && t3 < 0) {
								r["gp"] = []int{a, b, c, d, e}
								cl.Violate("chirotope.grassmann-pluecker", "the signs of five points violate the three-term Grassmann-Pluecker condition: no real configuration has them", r)
								return
							}
						}
					}
				}
			}
		}
	}
}

// ---------------------------------------------------------------- distances

func (o *obs) distancesCase(class string, x, a, b s2.Point) {
	cl := o.c
	cl.Class(class)
	tc := s2.VerifC02TriageCompareCosDistances(x, a, b)
	ts := s2.VerifC02TriageCompareSin2Distances(x, a, b)
	ex := s2.VerifC02ExactCompareDistances(x, a, b)
	sy := s2.VerifC02SymbolicCompareDistances(x, a, b)
	cd := s2.CompareDistances(x, a, b)
	cosAX := a.Dot(x.Vector)
	stage, want := 0, 0
	s3 := 0
	if cosAX > 1/math.Sqrt2 {
		s3 = ts
	} else if cosAX < -1/math.Sqrt2 {
		s3 = -ts
	}
	switch {
	case tc != 0:
		stage, want = 1, tc
	case samePoint(a, b):
		stage, want = 2, 0
	case s3 != 0:
		stage, want = 3, s3
	case ex != 0:
		stage, want = 4, ex
	default:
		stage, want = 5, sy
	}
	k := key(x, a, b)
	cl.Eval("cd:"+k, stage >= 2)
	cl.Class(fmt.Sprintf("cd-decided-by:%d", stage))
	cl.Check("cd "+class+" "+k, vkit.App("zlist_eqb", vkit.App("cd_stages", P(x), P(a), P(b)), zl(tc, ts, ex, sy, cd, stage)))
	r := rep(x, a, b)
	r["class"] = class
	r["stages"] = map[string]int{"cos": tc, "sin2": ts, "exact": ex, "symbolic": sy, "CompareDistances": cd}
	if cd != want {
		cl.Violate("CompareDistances.stages", "CompareDistances differs from the composition of its stages", r)
	}
	or := oracleCompareDistances(x, a, b)
	if ex != or {
		cl.Violate("exactCompareDistances.exact", "exactCompareDistances is not the exact comparison of the two angles", r)
	}
	lex := lexCmp(a, b)
	if sy != -lex {
		cl.Violate("symbolicCompareDistances.order", "symbolicCompareDistances is not the reversed lexicographic order of a and b", r)
	}
	if isUnit(x) && isUnit(a) && isUnit(b) && !(normalized(x) && normalized(a) && normalized(b)) {
		// IsUnit holds but the points are not normalized to a few ulps: known finding, the
		// predicates then compare un-normalized dot products
		if (or != 0 && cd != or) || (or == 0 && cd != -lex) {
			// outside the property's quantifier ("unit-length float64 points": normalized to a few ulps);
			// counted in the input distribution, not reported
			cl.Class("cd:isunit-not-normalized answers differ from the exact comparison (out of domain)")
		}
	}
	if normalized(x) && normalized(a) && normalized(b) {
		if tc != 0 && tc != or {
			cl.Violate("triageCompareCosDistances.wrong", "cos triage returned a non-zero answer that is not the exact comparison (H-TRIAGE-COS)", r)
		}
		if tc == 0 && s3 != 0 && s3 != or {
			cl.Violate("triageCompareSin2Distances.wrong", "sin^2 triage (where CompareDistances uses it: cos triage undecided, |cos| > 1/sqrt2) returned a wrong non-zero answer (H-TRIAGE-SIN2)", r)
		}
		if or != 0 && cd != or {
			cl.Violate("CompareDistances.exact", "CompareDistances is not the exact comparison of the two distances", r)
		}
		if or == 0 && cd != -lex {
			cl.Violate("CompareDistances.tie", "CompareDistances on exactly equal distances is not the symbolic tie-break", r)
		}
		if (cd == 0) != samePoint(a, b) {
			cl.Violate("CompareDistances.zero", "CompareDistances is zero for distinct a, b (or non-zero for a == b)", r)
		}
		if back := s2.CompareDistances(x, b, a); back != -cd {
			cl.Violate("CompareDistances.antisymmetry", "CompareDistances(x,a,b) != -CompareDistances(x,b,a)", r)
		}
	}
}

func (o *obs) distanceCase(class string, x, y s2.Point, r2 float64) {
	cl := o.c
	cl.Class(class)
	tc := s2.VerifC02TriageCompareCosDistance(x, y, r2)
	ts := s2.VerifC02TriageCompareSin2Distance(x, y, r2)
	cd := s2.CompareDistance(x, y, s1.ChordAngle(r2))
	stage := 4
	want := 0
	if tc != 0 {
		stage, want = 1, tc
	} else if r2 < s2.VerifC02Ca45Degrees() && ts != 0 {
		stage, want = 3, ts
	} else {
		want = s2.VerifC02ExactCompareDistance(x, y, r2)
	}
	k := key(x, y) + fmt.Sprintf("%x", math.Float64bits(r2))
	cl.Eval("cd1:"+k, stage >= 3)
	cl.Class(fmt.Sprintf("cd1-decided-by:%d", stage))
	cl.Check("cd1 "+class+" "+k, vkit.App("zlist_eqb", vkit.App("cd1_stages", P(x), P(y), vkit.F(r2)), zl(tc, ts, cd, stage)))
	r := rep(x, y)
	r["class"] = class
	r["r2"] = fmt.Sprintf("%x", r2)
	r["stages"] = map[string]int{"cos": tc, "sin2": ts, "CompareDistance": cd}
	if cd != want {
		cl.Violate("CompareDistance.stages", "CompareDistance differs from the composition of its stages", r)
	}
	if math.IsInf(r2, 0) {
		return
	}
	or := oracleCompareDistance(x, y, r2)
	if !math.IsNaN(r2) {
		if ex := s2.VerifC02ExactCompareDistance(x, y, r2); ex != or {
			cl.Violate("exactCompareDistance.exact", "exactCompareDistance is not the exact comparison", r)
		}
	}
	if isUnit(x) && isUnit(y) && !(normalized(x) && normalized(y)) && r2 >= 0 && r2 <= 4 && cd != or {
		cl.Class("cd:isunit-not-normalized answers differ from the exact comparison (out of domain)")
	}
	if normalized(x) && normalized(y) && r2 >= 0 && r2 <= 4 {
		if tc != 0 && tc != or {
			cl.Violate("triageCompareCosDistance.wrong", "cos triage returned a wrong non-zero answer (H-TRIAGE-COS)", r)
		}
		if tc == 0 && r2 < s2.VerifC02Ca45Degrees() && ts != 0 && ts != or {
			cl.Violate("triageCompareSin2Distance.wrong", "sin^2 triage returned a wrong non-zero answer (H-TRIAGE-SIN2)", r)
		}
		if cd != or {
			cl.Violate("CompareDistance.exact", "CompareDistance is not the exact comparison of the distance with the limit", r)
		}
	}
}

func (o *obs) dotCase(class string, a, b s2.Point) {
	cl := o.c
	cl.Class(class)
	tr := s2.VerifC02TriageSignDotProd(a, b)
	sd := s2.SignDotProd(a, b)
	or := oracleDotSign(a, b)
	k := key(a, b)
	cl.Eval("dot:"+k, tr == 0)
	cl.Check("dot "+class+" "+k, vkit.App("zlist_eqb", vkit.App("dot_stages", P(a), P(b)), zl(tr, or, sd)))
	r := rep(a, b)
	r["class"] = class
	if a.Norm2() <= 2 && b.Norm2() <= 2 {
		if tr != 0 && tr != or {
			cl.Violate("triageSignDotProd.wrong", "triageSignDotProd returned a wrong non-zero sign (H-TRIAGE-DOT)", r)
		}
		if sd != or {
			cl.Violate("SignDotProd.exact", "SignDotProd is not the sign of the exact dot product", r)
		}
	}
}

func (o *obs) miscCase(a, b, c, d s2.Point) {
	cl := o.c
	cl.Check("Sign "+key(a, b, c), vkit.App("Bool.eqb", vkit.App("s2_Sign", P(a), P(b), P(c)), vkit.B(s2.Sign(a, b, c))))
	cl.Check("OrderedCCW "+key(a, b, c, d), vkit.App("Bool.eqb", vkit.App("ordered_ccw", P(a), P(b), P(c), P(d)), vkit.B(s2.OrderedCCW(a, b, c, d))))
	if s2.Sign(a, b, c) && s2.Sign(c, b, a) {
		cl.Violate("Sign.reversal", "Sign(a,b,c) and Sign(c,b,a) both true", rep(a, b, c))
	}
}

func run(c *vkit.Collector, rng *vkit.Rng, budget int) {
	o := &obs{c: c, rng: rng, K: s2.VerifC02MaxDeterminantError()}
	c.Extra["maxDeterminantError"] = fmt.Sprintf("%x", o.K)
	c.Extra["detErrorMultiplier"] = fmt.Sprintf("%x", s2.VerifC02DetErrorMultiplier())
	o.fixedCases()
	o.genSign(budget)
	o.genSym(budget)
	o.genTuples(budget)
	o.genDistances(budget)
	o.genDistance(budget)
	o.genDistanceGrid(budget)
	o.genDistancesGrid(budget)
	o.genDot(budget)
}
