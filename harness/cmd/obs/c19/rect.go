package main

import (
	"fmt"
	"math"

	"github.com/golang/geo/r1"
	"github.com/golang/geo/r2"
	"github.com/golang/geo/r3"
	"github.com/golang/geo/s1"
	"github.com/golang/geo/s2"
	"verifharness/internal/vkit"
)

// ---------------------------------------------------------------- r2.Rect

func r2Term(r r2.Rect) string    { return vkit.App("mk_r2_Rect", r1Term(r.X), r1Term(r.Y)) }
func r2PtTerm(p r2.Point) string { return vkit.App("mk_r2_Point", vkit.F(p.X), vkit.F(p.Y)) }
func r2Key(r r2.Rect) string {
	return fmt.Sprintf("%x/%x/%x/%x", math.Float64bits(r.X.Lo), math.Float64bits(r.X.Hi), math.Float64bits(r.Y.Lo), math.Float64bits(r.Y.Hi))
}

// independent oracles
func r2Mem(r r2.Rect, p r2.Point) bool { return r1Mem(r.X, p.X) && r1Mem(r.Y, p.Y) }
func r1Empty(i r1.Interval) bool       { return i.Lo > i.Hi }
func r2ValidO(r r2.Rect) bool          { return r1Empty(r.X) == r1Empty(r.Y) }

func runC19r2(c *vkit.Collector, rng *vkit.Rng, budget int) {
	lat := []float64{0, math.Copysign(0, -1), 1, -1, 0.5, 2, vkit.Ulps(1, 1), vkit.Ulps(1, -1), math.Inf(1), math.Inf(-1), 1e300, -1e300, rng.Range(-3, 3), rng.Range(-3, 3)}
	pickI := func() r1.Interval {
		a, b := rng.Pick(lat), rng.Pick(lat)
		if a > b {
			a, b = b, a
		}
		if rng.Intn(5) == 0 {
			b = a
		}
		return r1.Interval{Lo: a, Hi: b}
	}
	pick := func() r2.Rect {
		switch rng.Intn(8) {
		case 0:
			c.Class("r2:empty")
			return r2.EmptyRect()
		case 1:
			c.Class("r2:empty-noncanonical")
			return r2.Rect{X: r1.Interval{Lo: rng.Pick(lat[:8]) + 1, Hi: -3}, Y: r1.Interval{Lo: 2, Hi: rng.Pick(lat[:8]) - 3}}
		default:
			c.Class("r2:proper")
			return r2.Rect{X: pickI(), Y: pickI()}
		}
	}
	n := 60 * budget
	for k := 0; k < n; k++ {
		a, b := pick(), pick()
		key := r2Key(a) + "|" + r2Key(b)
		c.Eval("r2:"+key, !(r1Empty(a.X) && r1Empty(b.X)))
		A, Bt := r2Term(a), r2Term(b)
		u, x := a.Union(b), a.Intersection(b)
		rep := func(p r2.Point) map[string]interface{} {
			return map[string]interface{}{"type": "r2", "a": fs(a.X.Lo, a.X.Hi, a.Y.Lo, a.Y.Hi), "b": fs(b.X.Lo, b.X.Hi, b.Y.Lo, b.Y.Hi), "p": fs(p.X, p.Y), "bits": key}
		}
		c.Check("r2.Union "+key, vkit.App("r2_Rect_eqbits", vkit.App("r2_Rect_Union", A, Bt), r2Term(u)))
		c.Check("r2.AddRect "+key, vkit.App("r2_Rect_eqbits", vkit.App("r2_Rect_AddRect", A, Bt), r2Term(a.AddRect(b))))
		c.Check("r2.Intersection "+key, vkit.App("r2_Rect_eqbits", vkit.App("r2_Rect_Intersection", A, Bt), r2Term(x)))
		c.Check("r2.Contains "+key, vkit.App("Bool.eqb", vkit.App("r2_Rect_Contains", A, Bt), vkit.B(a.Contains(b))))
		c.Check("r2.InteriorContains "+key, vkit.App("Bool.eqb", vkit.App("r2_Rect_InteriorContains", A, Bt), vkit.B(a.InteriorContains(b))))
		c.Check("r2.Intersects "+key, vkit.App("Bool.eqb", vkit.App("r2_Rect_Intersects", A, Bt), vkit.B(a.Intersects(b))))
		c.Check("r2.InteriorIntersects "+key, vkit.App("Bool.eqb", vkit.App("r2_Rect_InteriorIntersects", A, Bt), vkit.B(a.InteriorIntersects(b))))
		c.Check("r2.IsValid "+key, vkit.App("Bool.eqb", vkit.App("r2_Rect_IsValid", A), vkit.B(a.IsValid())))
		c.Check("r2.IsEmpty "+key, vkit.App("Bool.eqb", vkit.App("r2_Rect_IsEmpty", A), vkit.B(a.IsEmpty())))
		mg := r2.Point{X: rng.Pick([]float64{0, 1e-16, 0.25, -0.25, 1e300}), Y: rng.Pick([]float64{0, 1e-16, 0.25, -2})}
		c.Check("r2.Expanded "+key, vkit.App("r2_Rect_eqbits", vkit.App("r2_Rect_Expanded", A, r2PtTerm(mg)), r2Term(a.Expanded(mg))))

		for name, r := range map[string]r2.Rect{"Union": u, "Intersection": x} {
			if !r2ValidO(r) {
				c.Violate("r2."+name+".valid", "result is not a valid rectangle (one side empty, the other not)", rep(r2.Point{}))
			}
		}
		xs := []float64{a.X.Lo, a.X.Hi, b.X.Lo, b.X.Hi, vkit.Ulps(a.X.Lo, -1), vkit.Ulps(a.X.Hi, 1), vkit.Ulps(b.X.Lo, 1), vkit.Ulps(b.X.Hi, -1)}
		ys := []float64{a.Y.Lo, a.Y.Hi, b.Y.Lo, b.Y.Hi, vkit.Ulps(a.Y.Lo, -1), vkit.Ulps(a.Y.Hi, 1), vkit.Ulps(b.Y.Lo, 1), vkit.Ulps(b.Y.Hi, -1)}
		anyCommon, allIn := false, true
		tp := rng.Intn(len(xs) * len(ys))
		for xi, px := range xs {
			for yi, py := range ys {
				if math.IsNaN(px) || math.IsNaN(py) {
					continue
				}
				p := r2.Point{X: px, Y: py}
				ma, mb := r2Mem(a, p), r2Mem(b, p)
				if r2ValidO(a) && r2ValidO(b) && ((r1Empty(b.X) && r2Mem(u, p) != ma) || (r1Empty(a.X) && r2Mem(u, p) != mb)) {
					c.Violate("r2.Union.empty-operand", "union with an empty rectangle is not the other operand", rep(p))
				}
				if (ma || mb) && !r2Mem(u, p) {
					c.Violate("r2.Union", "union misses a point of an operand", rep(p))
				}
				if (ma && mb) != r2Mem(x, p) {
					c.Violate("r2.Intersection", "intersection is not exactly the common points", rep(p))
				}
				if a.ContainsPoint(p) != ma {
					c.Violate("r2.ContainsPoint", "ContainsPoint disagrees with membership", rep(p))
				}
				if ma && mb {
					anyCommon = true
				}
				if mb && !ma {
					allIn = false
				}
				ap := a.AddPoint(p)
				if !r2Mem(ap, p) || !r2ValidO(ap) {
					c.Violate("r2.AddPoint", "AddPoint result misses the point or is invalid", rep(p))
				}
				if !a.IsEmpty() && r2ValidO(a) {
					if cp := a.ClampPoint(p); !r2Mem(a, cp) {
						c.Violate("r2.ClampPoint", "ClampPoint lands outside", rep(p))
					}
				}
				if ma && !math.IsInf(px, 0) && !math.IsInf(py, 0) {
					if ex := a.Expanded(r2.Point{X: 0.25, Y: 1e-16}); !r2Mem(ex, p) {
						c.Violate("r2.Expanded", "Expanded by non-negative margins loses a point", rep(p))
					}
				}
				if xi*len(ys)+yi == tp {
					pk := fmt.Sprintf("%s %x %x", key, math.Float64bits(px), math.Float64bits(py))
					c.Check("r2.ContainsPoint "+pk, vkit.App("Bool.eqb", vkit.App("r2_Rect_ContainsPoint", A, r2PtTerm(p)), vkit.B(a.ContainsPoint(p))))
					c.Check("r2.InteriorContainsPoint "+pk, vkit.App("Bool.eqb", vkit.App("r2_Rect_InteriorContainsPoint", A, r2PtTerm(p)), vkit.B(a.InteriorContainsPoint(p))))
					c.Check("r2.AddPoint "+pk, vkit.App("r2_Rect_eqbits", vkit.App("r2_Rect_AddPoint", A, r2PtTerm(p)), r2Term(ap)))
					if !a.IsEmpty() {
						c.Check("r2.ClampPoint "+pk, vkit.App("r2_Point_eqbits", vkit.App("r2_Rect_ClampPoint", A, r2PtTerm(p)), r2PtTerm(a.ClampPoint(p))))
					}
				}
			}
		}
		// all corner combinations of both operands were probed, so these two are decided exactly
		if r2ValidO(a) && r2ValidO(b) {
			if a.Intersects(b) != anyCommon {
				c.Violate("r2.Intersects", "Intersects disagrees with existence of a common point", rep(r2.Point{}))
			}
			if a.Contains(b) != allIn {
				c.Violate("r2.Contains", "Contains disagrees with the subset relation on points", rep(r2.Point{}))
			}
		}
	}
}

// ---------------------------------------------------------------- s2.Rect

func s2RectTerm(r s2.Rect) string { return vkit.App("mk_s2_Rect", r1Term(r.Lat), s1Term(r.Lng)) }
func llTerm(ll s2.LatLng) string {
	return vkit.App("mk_s2_LatLng", vkit.F(float64(ll.Lat)), vkit.F(float64(ll.Lng)))
}
func ptTerm(p s2.Point) string {
	return vkit.App("mk_s2_Point", vkit.App("mk_r3_Vector", vkit.F(p.X), vkit.F(p.Y), vkit.F(p.Z)))
}
func s2RectKey(r s2.Rect) string {
	return fmt.Sprintf("%x/%x/%s", math.Float64bits(r.Lat.Lo), math.Float64bits(r.Lat.Hi), s1Bits(r.Lng))
}

// independent oracles
func s2RectValidO(r s2.Rect) bool {
	if math.IsNaN(r.Lat.Lo) || math.IsNaN(r.Lat.Hi) || math.Abs(r.Lat.Lo) > math.Pi/2 || math.Abs(r.Lat.Hi) > math.Pi/2 {
		return false
	}
	return s1Valid(r.Lng) && r1Empty(r.Lat) == (len(s1Segs(r.Lng)) == 0)
}
func s2RectMem(r s2.Rect, lat, lng float64) bool { return r1Mem(r.Lat, lat) && s1Mem(r.Lng, lng) }

func runC19s2rect(c *vkit.Collector, rng *vkit.Rng, budget int) {
	hp := math.Pi / 2
	latL := []float64{-hp, vkit.Ulps(-hp, -1), -1, math.Copysign(0, -1), 0, 0.5, 1, vkit.Ulps(hp, -1), hp, rng.Range(-hp, hp), rng.Range(-hp, hp)}
	lngL := s1Lattice(rng)
	pick := func() s2.Rect {
		switch rng.Intn(9) {
		case 0:
			c.Class("s2rect:empty")
			return s2.EmptyRect()
		case 1:
			c.Class("s2rect:full")
			return s2.FullRect()
		case 2:
			c.Class("s2rect:empty-noncanonical-lat")
			return s2.Rect{Lat: r1.Interval{Lo: rng.Pick(latL[5:]), Hi: rng.Pick(latL[:3])}, Lng: s1.EmptyInterval()}
		default:
			a, b := rng.Pick(latL), rng.Pick(latL)
			if a > b {
				a, b = b, a
			}
			if rng.Intn(5) == 0 {
				b = a
			}
			var lng s1.Interval
			for {
				lng = s1Pick(c, rng, lngL, "s2rect.lng")
				if len(s1Segs(lng)) != 0 {
					break
				}
			}
			c.Class("s2rect:proper")
			return s2.Rect{Lat: r1.Interval{Lo: a, Hi: b}, Lng: lng}
		}
	}
	n := 60 * budget
	for k := 0; k < n; k++ {
		a, b := pick(), pick()
		key := s2RectKey(a) + "|" + s2RectKey(b)
		c.Eval("s2rect:"+key, !(r1Empty(a.Lat) && r1Empty(b.Lat)))
		A, Bt := s2RectTerm(a), s2RectTerm(b)
		u, x, pc := a.Union(b), a.Intersection(b), a.PolarClosure()
		rep := func(lat, lng float64) map[string]interface{} {
			return map[string]interface{}{"type": "s2.Rect", "a": fs(a.Lat.Lo, a.Lat.Hi, a.Lng.Lo, a.Lng.Hi), "b": fs(b.Lat.Lo, b.Lat.Hi, b.Lng.Lo, b.Lng.Hi), "latlng": fs(lat, lng), "bits": key}
		}
		c.Sample(map[string]interface{}{"type": "s2.Rect", "a": fmt.Sprint(a), "b": fmt.Sprint(b), "union": fmt.Sprint(u), "intersection": fmt.Sprint(x)})
		c.Check("s2rect.Union "+key, vkit.App("s2_Rect_eqbits", vkit.App("s2_Rect_Union", A, Bt), s2RectTerm(u)))
		c.Check("s2rect.Intersection "+key, vkit.App("s2_Rect_eqbits", vkit.App("s2_Rect_Intersection", A, Bt), s2RectTerm(x)))
		c.Check("s2rect.PolarClosure "+key, vkit.App("s2_Rect_eqbits", vkit.App("s2_Rect_PolarClosure", A), s2RectTerm(pc)))
		c.Check("s2rect.Contains "+key, vkit.App("Bool.eqb", vkit.App("s2_Rect_Contains", A, Bt), vkit.B(a.Contains(b))))
		c.Check("s2rect.Intersects "+key, vkit.App("Bool.eqb", vkit.App("s2_Rect_Intersects", A, Bt), vkit.B(a.Intersects(b))))
		c.Check("s2rect.IsValid "+key, vkit.App("Bool.eqb", vkit.App("s2_Rect_IsValid", A), vkit.B(a.IsValid())))
		c.Check("s2rect.IsEmpty "+key, vkit.App("Bool.eqb", vkit.App("s2_Rect_IsEmpty", A), vkit.B(a.IsEmpty())))
		c.Check("s2rect.IsFull "+key, vkit.App("Bool.eqb", vkit.App("s2_Rect_IsFull", A), vkit.B(a.IsFull())))
		c.Check("s2rect.IsPoint "+key, vkit.App("Bool.eqb", vkit.App("s2_Rect_IsPoint", A), vkit.B(a.IsPoint())))
		c.Check("s2rect.ApproxEqual "+key, vkit.App("Bool.eqb", vkit.App("s2_Rect_ApproxEqual", A, Bt), vkit.B(a.ApproxEqual(b))))
		c.Check("s2rect.Lo/Hi "+key, vkit.App("andb", vkit.App("s2_LatLng_eqbits", vkit.App("s2_Rect_Lo", A), llTerm(a.Lo())), vkit.App("s2_LatLng_eqbits", vkit.App("s2_Rect_Hi", A), llTerm(a.Hi()))))
		mll := s2.LatLng{Lat: s1.Angle(rng.Pick([]float64{0, 1e-16, 0.25, -0.25, 2})), Lng: s1.Angle(rng.Pick([]float64{0, 1e-16, 0.25, -0.25, 4}))}
		c.Check("s2rect.expanded "+key, vkit.App("s2_Rect_eqbits", vkit.App("s2_Rect_expanded", A, llTerm(mll)), s2RectTerm(s2.VerifC19RectExpanded(a, mll))))

		if a.IsValid() != s2RectValidO(a) {
			c.Violate("s2rect.IsValid", "IsValid disagrees with the definition of validity", rep(0, 0))
		}
		if !s2RectValidO(a) || !s2RectValidO(b) {
			continue
		}
		for name, r := range map[string]s2.Rect{"Union": u, "Intersection": x, "PolarClosure": pc} {
			if !s2RectValidO(r) {
				c.Violate("s2rect."+name+".valid", "result is not a valid rectangle", rep(0, 0))
			}
		}
		// relations decided exactly: latitude by endpoints, longitude by real segments
		latSub := r1Empty(b.Lat) || (a.Lat.Lo <= b.Lat.Lo && b.Lat.Hi <= a.Lat.Hi)
		latMeet := !r1Empty(a.Lat) && !r1Empty(b.Lat) && math.Max(a.Lat.Lo, b.Lat.Lo) <= math.Min(a.Lat.Hi, b.Lat.Hi)
		wantContains := r1Empty(b.Lat) || (latSub && s1Subset(a.Lng, b.Lng))
		wantMeet := latMeet && s1Meet(a.Lng, b.Lng)
		if a.Contains(b) != wantContains {
			c.Violate("s2rect.Contains", "Contains disagrees with the subset relation on points", rep(0, 0))
		}
		if a.Intersects(b) != wantMeet {
			c.Violate("s2rect.Intersects", "Intersects disagrees with existence of a common point", rep(0, 0))
		}
		if x.IsEmpty() != !wantMeet && !(wantMeet && false) {
			// the intersection is empty exactly when there is no common point
			c.Violate("s2rect.Intersection.empty", "Intersection empty although there is a common point, or non-empty although there is none", rep(0, 0))
		}
		lats := []float64{a.Lat.Lo, a.Lat.Hi, b.Lat.Lo, b.Lat.Hi, vkit.Ulps(a.Lat.Lo, -1), vkit.Ulps(a.Lat.Hi, 1), hp, -hp}
		lngs := s1Probes(rng, lngL, a.Lng, b.Lng)
		tp := rng.Intn(len(lats) * len(lngs))
		for li, la := range lats {
			for gi, lg := range lngs {
				if math.IsNaN(la) || math.Abs(la) > hp {
					continue
				}
				ma, mb := s2RectMem(a, la, lg), s2RectMem(b, la, lg)
				ll := s2.LatLng{Lat: s1.Angle(la), Lng: s1.Angle(lg)}
				if (r1Empty(b.Lat) && s2RectMem(u, la, lg) != ma) || (r1Empty(a.Lat) && s2RectMem(u, la, lg) != mb) {
					c.Violate("s2rect.Union.empty-operand", "union with an empty rectangle is not the other operand", rep(la, lg))
				}
				if (ma || mb) && !s2RectMem(u, la, lg) {
					c.Violate("s2rect.Union", "union misses a point of an operand", rep(la, lg))
				}
				if ma && mb && !s2RectMem(x, la, lg) {
					c.Violate("s2rect.Intersection.complete", "intersection misses a common point", rep(la, lg))
				}
				if !ma && !mb && s2RectMem(x, la, lg) {
					c.Violate("s2rect.Intersection.within", "intersection contains a point that lies in neither operand", rep(la, lg))
				}
				if a.ContainsLatLng(ll) != ma {
					c.Violate("s2rect.ContainsLatLng", "ContainsLatLng disagrees with membership", rep(la, lg))
				}
				if ma && !s2RectMem(pc, la, lg) {
					c.Violate("s2rect.PolarClosure", "PolarClosure loses a point", rep(la, lg))
				}
				ap := a.AddPoint(ll)
				if !s2RectMem(ap, la, lg) || !s2RectValidO(ap) {
					c.Violate("s2rect.AddPoint", "AddPoint result misses the point or is invalid", rep(la, lg))
				}
				if ma {
					for _, mm := range []s2.LatLng{{Lat: 0, Lng: 0}, {Lat: 1e-16, Lng: 1e-16}, {Lat: 0.25, Lng: 0.25}, {Lat: 2, Lng: 4}} {
						ex := s2.VerifC19RectExpanded(a, mm)
						if !s2RectValidO(ex) {
							c.Violate("s2rect.expanded.valid", "expanded result invalid", rep(la, lg))
						}
						if !s2RectMem(ex, la, lg) {
							c.Violate("s2rect.expanded", "expanded by non-negative margins loses a point", rep(la, lg))
						}
					}
				}
				if li*len(lngs)+gi == tp {
					pk := fmt.Sprintf("%s %x %x", key, math.Float64bits(la), math.Float64bits(lg))
					c.Check("s2rect.ContainsLatLng "+pk, vkit.App("Bool.eqb", vkit.App("s2_Rect_ContainsLatLng", A, llTerm(ll)), vkit.B(a.ContainsLatLng(ll))))
					c.Check("s2rect.AddPoint "+pk, vkit.App("s2_Rect_eqbits", vkit.App("s2_Rect_AddPoint", A, llTerm(ll)), s2RectTerm(ap)))
					bad := s2.LatLng{Lat: s1.Angle(la * 2), Lng: s1.Angle(lg * 1.5)}
					c.Check("s2rect.AddPoint(any) "+pk, vkit.App("s2_Rect_eqbits", vkit.App("s2_Rect_AddPoint", A, llTerm(bad)), s2RectTerm(a.AddPoint(bad))))
					p := s2.Point{Vector: r3.Vector{X: rng.Range(-1, 1), Y: rng.Range(-1, 1), Z: rng.Range(-1, 1)}}
					if rng.Intn(4) == 0 {
						p = s2.PointFromLatLng(ll)
					}
					c.Check("s2rect.ContainsPoint "+pk, vkit.App("Bool.eqb", vkit.App("s2_Rect_ContainsPoint", A, ptTerm(p)), vkit.B(a.ContainsPoint(p))))
				}
			}
		}
	}
}
