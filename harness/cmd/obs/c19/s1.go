package main

import (
	"fmt"
	"math"
	"sort"

	"github.com/golang/geo/s1"
	"verifharness/internal/vkit"
)

func s1Term(i s1.Interval) string { return vkit.App("mk_s1_Interval", vkit.F(i.Lo), vkit.F(i.Hi)) }

func s1Bits(i s1.Interval) string {
	return fmt.Sprintf("%x/%x", math.Float64bits(i.Lo), math.Float64bits(i.Hi))
}

// ---- independent oracle for s1 (never calls a method of s1.Interval) -------------------
//
// A valid interval denotes a closed subset of the circle; cut the circle at the point pi==-pi
// and it is a union of at most two closed segments of the real line within [-pi, pi]. Floats
// are compared as the reals they denote, so everything below is exact.

type seg struct{ lo, hi float64 }

func s1Valid(i s1.Interval) bool {
	if math.IsNaN(i.Lo) || math.IsNaN(i.Hi) || math.Abs(i.Lo) > math.Pi || math.Abs(i.Hi) > math.Pi {
		return false
	}
	if i.Lo == -math.Pi && i.Hi != math.Pi {
		return false
	}
	if i.Hi == -math.Pi && i.Lo != math.Pi {
		return false
	}
	return true
}

func s1Segs(i s1.Interval) []seg {
	if i.Lo == math.Pi && i.Hi == -math.Pi {
		return nil
	}
	var out []seg
	if i.Lo <= i.Hi {
		out = []seg{{i.Lo, i.Hi}}
	} else {
		out = []seg{{i.Lo, math.Pi}, {-math.Pi, i.Hi}}
	}
	// pi and -pi are the same point: if one of them is present, so is the other
	hasPi, hasNegPi := false, false
	for _, s := range out {
		if s.hi == math.Pi {
			hasPi = true
		}
		if s.lo == -math.Pi {
			hasNegPi = true
		}
	}
	if hasPi && !hasNegPi {
		out = append(out, seg{-math.Pi, -math.Pi})
	}
	if hasNegPi && !hasPi {
		out = append(out, seg{math.Pi, math.Pi})
	}
	return out
}

// membership of a float point p (|p| <= pi)
func s1Mem(i s1.Interval, p float64) bool {
	for _, s := range s1Segs(i) {
		if s.lo <= p && p <= s.hi {
			return true
		}
	}
	return false
}

func mergeSegs(in []seg) []seg {
	ss := append([]seg{}, in...)
	sort.Slice(ss, func(a, b int) bool { return ss[a].lo < ss[b].lo })
	var out []seg
	for _, s := range ss {
		if len(out) > 0 && s.lo <= out[len(out)-1].hi {
			if s.hi > out[len(out)-1].hi {
				out[len(out)-1].hi = s.hi
			}
		} else {
			out = append(out, s)
		}
	}
	return out
}

// every real point of b is a point of a
func s1Subset(a, b s1.Interval) bool {
	ma := mergeSegs(s1Segs(a))
	for _, s := range s1Segs(b) {
		ok := false
		for _, t := range ma {
			if t.lo <= s.lo && s.hi <= t.hi {
				ok = true
			}
		}
		if !ok {
			return false
		}
	}
	return true
}

// a and b have a real point in common
func s1Meet(a, b s1.Interval) bool {
	for _, s := range s1Segs(a) {
		for _, t := range s1Segs(b) {
			if math.Max(s.lo, t.lo) <= math.Min(s.hi, t.hi) {
				return true
			}
		}
	}
	return false
}

func s1Lattice(rng *vkit.Rng) []float64 {
	pi := math.Pi
	out := []float64{-pi, vkit.Ulps(-pi, 1), -pi / 2, -1, math.Copysign(0, -1), 0, 1, pi / 2, vkit.Ulps(pi, -1), pi,
		vkit.Ulps(1, 1), vkit.Ulps(1, -1), 3, -3, 1e-300, -1e-300}
	for k := 0; k < 4; k++ {
		out = append(out, rng.Range(-pi, pi))
	}
	return out
}

func s1Pick(c *vkit.Collector, rng *vkit.Rng, lat []float64, tag string) s1.Interval {
	for {
		var i s1.Interval
		switch rng.Intn(10) {
		case 0:
			i = s1.Interval{Lo: math.Pi, Hi: -math.Pi}
		case 1:
			i = s1.Interval{Lo: -math.Pi, Hi: math.Pi}
		case 2:
			p := rng.Pick(lat)
			i = s1.Interval{Lo: p, Hi: p}
		default:
			i = s1.Interval{Lo: rng.Pick(lat), Hi: rng.Pick(lat)}
		}
		if !s1Valid(i) {
			// the two invalid shapes are normalised the way IntervalFromEndpoints documents
			if i.Lo == -math.Pi {
				i.Lo = math.Pi
			}
			if i.Hi == -math.Pi {
				i.Hi = math.Pi
			}
			if !s1Valid(i) {
				continue
			}
		}
		switch {
		case i.Lo == math.Pi && i.Hi == -math.Pi:
			c.Class(tag + ":empty")
		case i.Lo == -math.Pi && i.Hi == math.Pi:
			c.Class(tag + ":full")
		case i.Lo == i.Hi:
			c.Class(tag + ":singleton")
		case i.Lo > i.Hi:
			c.Class(tag + ":inverted")
		default:
			c.Class(tag + ":normal")
		}
		return i
	}
}

func s1Probes(rng *vkit.Rng, lat []float64, is ...s1.Interval) []float64 {
	var out []float64
	add := func(p float64) {
		if !math.IsNaN(p) && math.Abs(p) <= math.Pi {
			out = append(out, p)
		}
	}
	for _, i := range is {
		for _, e := range []float64{i.Lo, i.Hi} {
			add(e)
			add(vkit.Ulps(e, 1))
			add(vkit.Ulps(e, -1))
		}
	}
	add(math.Pi)
	add(-math.Pi)
	add(rng.Pick(lat))
	return out
}

// regression inputs (run first on every tier).
//  1. FIXED by /repo 44b3e8d: Expanded returned a single point when Length + 2*margin + 2*dblEpsilon
//     evaluated to one ulp below 2*pi; these two inputs must now keep every point.
//  2. FIXED by /repo e59a11e: Length() was -1 for the valid non-empty interval {pi, succ(-pi)}, so the
//     full-circle guard did not fire for margins in [pi, pi+1/2) and Expanded lost every point.
//     The third input must now keep every point; the kind stays distinct so that a regression of
//     Length is reported under its own name.
func s1ExpandedRegression(c *vkit.Collector) {
	for _, w := range [][3]uint64{
		{0xc008000000000000, 0x3ff0000000000001, 0x3ff243f6a8885a2e},
		{0x3ff921fb54442d18, 0x3fe29eb9ce835144, 0x3fdfa53cda0508eb},
		{0x400921fb54442d18, 0xc00921fb54442d17, 0x400999999999999a},
	} {
		a := s1.Interval{Lo: math.Float64frombits(w[0]), Hi: math.Float64frombits(w[1])}
		mg := math.Float64frombits(w[2])
		ex := a.Expanded(mg)
		c.Check(fmt.Sprintf("s1.Expanded(regression) %x/%x %x", w[0], w[1], w[2]), vkit.App("s1_Interval_eqbits", vkit.App("s1_Interval_Expanded", s1Term(a), vkit.F(mg)), s1Term(ex)))
		for _, p := range []float64{a.Lo, a.Hi} {
			if s1Mem(a, p) && !s1Mem(ex, p) {
				c.Violate(s1ExpandedKind(a), "Expanded by a non-negative margin loses a point",
					map[string]interface{}{"type": "s1", "a": []float64{a.Lo, a.Hi}, "margin": mg, "p": p, "expanded": []float64{ex.Lo, ex.Hi},
						"bits": []string{s1Bits(a), fmt.Sprintf("%x", w[2]), fmt.Sprintf("%x", math.Float64bits(p))},
						"go":   fmt.Sprintf("i := s1.Interval{Lo: math.Float64frombits(%#x), Hi: math.Float64frombits(%#x)}; i.Expanded(math.Float64frombits(%#x)).Contains(i.Lo) == false", w[0], w[1], w[2])})
			}
		}
	}
}

// a non-empty interval whose Length() is negative: the defect repaired by /repo e59a11e
func s1ExpandedKind(a s1.Interval) string {
	if len(s1Segs(a)) != 0 && a.Length() < 0 {
		return "s1.Expanded.length-minus-one"
	}
	return "s1.Expanded"
}

func runC19s1(c *vkit.Collector, rng *vkit.Rng, budget int) {
	s1ExpandedRegression(c)
	lat := s1Lattice(rng)
	n := 110 * budget
	for k := 0; k < n; k++ {
		a, b := s1Pick(c, rng, lat, "s1"), s1Pick(c, rng, lat, "s1")
		key := s1Bits(a) + "/" + s1Bits(b)
		aEmpty := a.Lo == math.Pi && a.Hi == -math.Pi
		bEmpty := b.Lo == math.Pi && b.Hi == -math.Pi
		c.Eval("s1:"+key, !(aEmpty && bEmpty))
		A, Bt := s1Term(a), s1Term(b)
		u, x, cm := a.Union(b), a.Intersection(b), a.Complement()
		rep := func(p float64) map[string]interface{} {
			return map[string]interface{}{"type": "s1", "a": []float64{a.Lo, a.Hi}, "b": []float64{b.Lo, b.Hi}, "p": p,
				"bits": []string{s1Bits(a), s1Bits(b), fmt.Sprintf("%x", math.Float64bits(p))}}
		}
		c.Sample(map[string]interface{}{"type": "s1", "a": []float64{a.Lo, a.Hi}, "b": []float64{b.Lo, b.Hi}, "union": fmt.Sprint(u), "intersection": fmt.Sprint(x)})

		// [T] every translated function of the pair, bit-exactly
		eqI := func(name string, term string, got s1.Interval) {
			c.Check("s1."+name+" "+key, vkit.App("s1_Interval_eqbits", term, s1Term(got)))
		}
		eqB := func(name string, term string, got bool) {
			c.Check("s1."+name+" "+key, vkit.App("Bool.eqb", term, vkit.B(got)))
		}
		eqF := func(name string, term string, got float64) {
			c.Check("s1."+name+" "+key, vkit.App("fbiteq", term, vkit.F(got)))
		}
		eqI("Union", vkit.App("s1_Interval_Union", A, Bt), u)
		eqI("Intersection", vkit.App("s1_Interval_Intersection", A, Bt), x)
		eqI("Complement", vkit.App("s1_Interval_Complement", A), cm)
		eqI("Invert", vkit.App("s1_Interval_Invert", A), a.Invert())
		eqB("ContainsInterval", vkit.App("s1_Interval_ContainsInterval", A, Bt), a.ContainsInterval(b))
		eqB("InteriorContainsInterval", vkit.App("s1_Interval_InteriorContainsInterval", A, Bt), a.InteriorContainsInterval(b))
		eqB("Intersects", vkit.App("s1_Interval_Intersects", A, Bt), a.Intersects(b))
		eqB("InteriorIntersects", vkit.App("s1_Interval_InteriorIntersects", A, Bt), a.InteriorIntersects(b))
		eqB("IsValid", vkit.App("s1_Interval_IsValid", A), a.IsValid())
		eqB("IsEmpty", vkit.App("s1_Interval_IsEmpty", A), a.IsEmpty())
		eqB("IsFull", vkit.App("s1_Interval_IsFull", A), a.IsFull())
		eqB("IsInverted", vkit.App("s1_Interval_IsInverted", A), a.IsInverted())
		eqB("ApproxEqual", vkit.App("s1_Interval_ApproxEqual", A, Bt), a.ApproxEqual(b))
		eqF("Length", vkit.App("s1_Interval_Length", A), a.Length())
		eqF("Center", vkit.App("s1_Interval_Center", A), a.Center())
		eqF("ComplementCenter", vkit.App("s1_Interval_ComplementCenter", A), a.ComplementCenter())
		eqF("DirectedHausdorffDistance", vkit.App("s1_Interval_DirectedHausdorffDistance", A, Bt), float64(a.DirectedHausdorffDistance(b)))
		eqI("IntervalFromEndpoints", vkit.App("s1_IntervalFromEndpoints", vkit.F(a.Lo), vkit.F(b.Hi)), s1.IntervalFromEndpoints(a.Lo, b.Hi))
		eqI("IntervalFromPointPair", vkit.App("s1_IntervalFromPointPair", vkit.F(a.Lo), vkit.F(b.Hi)), s1.IntervalFromPointPair(a.Lo, b.Hi))
		margins := []float64{0, 1e-16, 4e-16, 0.25, 1, 3, math.Pi, 3.2, 3.6, 4, -1e-16, -0.25, -2, vkit.Ulps(math.Pi, -1) / 2}
		m := rng.Pick(margins)
		c.Check(fmt.Sprintf("s1.Expanded %s %x", key, math.Float64bits(m)), vkit.App("s1_Interval_eqbits", vkit.App("s1_Interval_Expanded", A, vkit.F(m)), s1Term(a.Expanded(m))))

		// [S] validity of every result
		for name, r := range map[string]s1.Interval{"Union": u, "Intersection": x, "Complement": cm,
			"IntervalFromPointPair": s1.IntervalFromPointPair(a.Lo, b.Hi), "IntervalFromEndpoints": s1.IntervalFromEndpoints(a.Lo, b.Hi)} {
			if !s1Valid(r) {
				c.Violate("s1."+name+".valid", "result is not a valid interval", rep(0))
			}
		}
		if (a.Length() < 0) != (len(s1Segs(a)) == 0) {
			c.Violate("s1.Length.sign", "Length() is negative iff the interval is empty", rep(0))
		}
		if a.IsValid() != s1Valid(a) {
			c.Violate("s1.IsValid", "IsValid disagrees with the definition of validity", rep(0))
		}
		if a.IsEmpty() != (len(s1Segs(a)) == 0) || a.IsFull() != s1Subset(a, s1.Interval{Lo: -math.Pi, Hi: math.Pi}) {
			c.Violate("s1.IsEmpty/IsFull", "IsEmpty/IsFull disagree with the point set", rep(0))
		}
		// relations against the real point sets
		if a.ContainsInterval(b) != s1Subset(a, b) {
			c.Violate("s1.ContainsInterval", "ContainsInterval disagrees with the subset relation on points", rep(0))
		}
		if a.Intersects(b) != s1Meet(a, b) {
			c.Violate("s1.Intersects", "Intersects disagrees with existence of a common point", rep(0))
		}
		pp := s1.IntervalFromPointPair(a.Lo, b.Hi)
		if !s1Mem(pp, a.Lo) || !s1Mem(pp, b.Hi) {
			c.Violate("s1.IntervalFromPointPair", "misses one of the two points", rep(0))
		}

		probes := s1Probes(rng, lat, a, b)
		tProbe := map[int]bool{rng.Intn(len(probes)): true, rng.Intn(len(probes)): true, rng.Intn(len(probes)): true}
		for pi, p := range probes {
			ma, mb := s1Mem(a, p), s1Mem(b, p)
			if (bEmpty && s1Mem(u, p) != ma) || (aEmpty && s1Mem(u, p) != mb) {
				c.Violate("s1.Union.empty-operand", "union with the empty interval is not the other operand", rep(p))
			}
			if (ma || mb) && !s1Mem(u, p) {
				c.Violate("s1.Union", "union misses a point of an operand", rep(p))
			}
			if ma && mb && !s1Mem(x, p) {
				c.Violate("s1.Intersection.complete", "intersection misses a common point", rep(p))
			}
			if !ma && !mb && s1Mem(x, p) {
				c.Violate("s1.Intersection.within", "intersection contains a point that lies in neither operand", rep(p))
			}
			if a.Contains(p) != ma {
				c.Violate("s1.Contains", "Contains disagrees with membership", rep(p))
			}
			if !ma && !s1Mem(cm, p) {
				c.Violate("s1.Complement", "a point is neither in the interval nor in its complement", rep(p))
			}
			ap := a.AddPoint(p)
			if !s1Valid(ap) {
				c.Violate("s1.AddPoint.valid", "AddPoint result invalid", rep(p))
			}
			if !s1Mem(ap, p) {
				c.Violate("s1.AddPoint", "AddPoint result misses the point", rep(p))
			}
			for _, q := range probes {
				if s1Mem(a, q) && !s1Mem(ap, q) {
					c.Violate("s1.AddPoint", "AddPoint loses an original point", rep(p))
					break
				}
			}
			if !aEmpty {
				pr := a.Project(p)
				if !s1Mem(a, pr) || math.Abs(pr) > math.Pi {
					c.Violate("s1.Project", "Project lands outside a non-empty interval", rep(p))
				}
			}
			// margins where the 2*dblEpsilon guard of Expanded is about to switch to "full":
			// the endpoints then wrap almost onto each other (attack on H_S1EXPAND)
			crit := []float64{}
			if L := a.Length(); L >= 0 {
				m0 := (2*math.Pi - L) / 2
				for _, d := range []float64{0, 1e-16, 2.3e-16, 4.5e-16, 9e-16, 2e-15} {
					crit = append(crit, m0-d, vkit.Ulps(m0-d, 1), vkit.Ulps(m0-d, -1))
				}
			}
			for _, mg := range append(append([]float64{}, margins...), crit...) {
				if mg < 0 || math.IsNaN(mg) {
					continue
				}
				ex := a.Expanded(mg)
				if !s1Valid(ex) {
					c.Violate("s1.Expanded.valid", "Expanded result invalid", rep(mg))
				}
				if ma && !s1Mem(ex, p) {
					kind := s1ExpandedKind(a)
					c.Violate(kind, "Expanded by a non-negative margin loses a point", map[string]interface{}{"type": "s1", "a": []float64{a.Lo, a.Hi}, "margin": mg, "p": p, "bits": []string{s1Bits(a), fmt.Sprintf("%x", math.Float64bits(mg)), fmt.Sprintf("%x", math.Float64bits(p))}})
				}
			}
			if tProbe[pi] {
				pk := fmt.Sprintf("%s %x", key, math.Float64bits(p))
				c.Check("s1.Contains "+pk, vkit.App("Bool.eqb", vkit.App("s1_Interval_Contains", A, vkit.F(p)), vkit.B(a.Contains(p))))
				c.Check("s1.InteriorContains "+pk, vkit.App("Bool.eqb", vkit.App("s1_Interval_InteriorContains", A, vkit.F(p)), vkit.B(a.InteriorContains(p))))
				c.Check("s1.AddPoint "+pk, vkit.App("s1_Interval_eqbits", vkit.App("s1_Interval_AddPoint", A, vkit.F(p)), s1Term(ap)))
				if !aEmpty {
					c.Check("s1.Project "+pk, vkit.App("fbiteq", vkit.App("s1_Interval_Project", A, vkit.F(p)), vkit.F(a.Project(p))))
				}
			}
		}
	}
}
