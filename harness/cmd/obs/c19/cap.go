package main

import (
	"fmt"
	"math"
	"math/big"

	"github.com/golang/geo/r3"
	"github.com/golang/geo/s1"
	"github.com/golang/geo/s2"
	"verifharness/internal/vkit"
)

// slack (in squared chord length) below which a disagreement with exact geometry is not
// flagged, and the eps of H_CAPARITH attacked on every run: 2^-40.
const capEps = 1.0 / (1 << 40)

func capTerm(c s2.Cap) string {
	ctr, r := s2.VerifC19CapFields(c)
	return vkit.App("mk_s2_Cap", ptTerm(ctr), vkit.F(r))
}
func capKey(c s2.Cap) string {
	ctr, r := s2.VerifC19CapFields(c)
	return fmt.Sprintf("%x,%x,%x:%x", math.Float64bits(ctr.X), math.Float64bits(ctr.Y), math.Float64bits(ctr.Z), math.Float64bits(r))
}
func ptKey(p s2.Point) string {
	return fmt.Sprintf("%x,%x,%x", math.Float64bits(p.X), math.Float64bits(p.Y), math.Float64bits(p.Z))
}

// ---- exact oracle: coordinates are dyadic rationals, so |a-b|^2 is computed exactly -------
func ratOf(x float64) *big.Rat { r := new(big.Rat); r.SetFloat64(x); return r }
func dist2Exact(a, b s2.Point) *big.Rat {
	s := new(big.Rat)
	for _, d := range [][2]float64{{a.X, b.X}, {a.Y, b.Y}, {a.Z, b.Z}} {
		t := new(big.Rat).Sub(ratOf(d[0]), ratOf(d[1]))
		s.Add(s, t.Mul(t, t))
	}
	return s
}
func norm2Exact(a s2.Point) *big.Rat { return dist2Exact(a, s2.Point{}) }

// exact: is p within squared chord r (+slack) of centre c ?  (r finite)
func capMemExact(ctr s2.Point, r float64, p s2.Point, slack float64) bool {
	if r < 0 {
		return false
	}
	if r >= 4 {
		return true // the full cap
	}
	lim := new(big.Rat).Add(ratOf(r), ratOf(slack))
	return dist2Exact(ctr, p).Cmp(lim) <= 0
}
func capValidO(c s2.Cap) bool {
	ctr, r := s2.VerifC19CapFields(c)
	if math.IsNaN(r) || r > 4 {
		return false
	}
	d := new(big.Rat).Sub(norm2Exact(ctr), big.NewRat(1, 1))
	d.Abs(d)
	return d.Cmp(ratOf(5e-14)) <= 0
}

func finitePt(p s2.Point) bool {
	return !math.IsNaN(p.X+p.Y+p.Z) && !math.IsInf(p.X+p.Y+p.Z, 0)
}

// ---- discriminating conditions of the two recorded cap defects ------------------------------

// capUnionKnownNaN: the recorded Cap.Union defect and nothing else. The result has a NaN centre,
// the two centres are within ~1e-7 of antipodal, and the tangent InterpolateAtDistance builds from
// PointCross is non-zero but has a squared norm that underflows to 0 (so sin/norm = Inf).
func capUnionKnownNaN(a, b, u s2.Cap) bool {
	uc, _ := s2.VerifC19CapFields(u)
	if !math.IsNaN(uc.X) && !math.IsNaN(uc.Y) && !math.IsNaN(uc.Z) {
		return false
	}
	ac, _ := s2.VerifC19CapFields(a)
	bc, _ := s2.VerifC19CapFields(b)
	if s := ac.Add(bc.Vector); s.Norm2() > 1e-14 {
		return false
	}
	for _, o := range [][2]s2.Point{{ac, bc}, {bc, ac}} {
		t := o[0].PointCross(o[1]).Cross(o[0].Vector)
		if t != (r3.Vector{}) && t.Norm2() == 0 {
			return true
		}
	}
	return false
}

func capUnionValidKind(a, b, u s2.Cap) string {
	if capUnionKnownNaN(a, b, u) {
		return "cap.Union.valid"
	}
	return "cap.Union.invalid-result"
}

// capInteriorKnownClamp: the recorded InteriorIntersects defect and nothing else: the answer is
// false, the centres are at squared chord distance exactly 4 and the radius sum is clamped to 4.
func capInteriorKnownClamp(x, y s2.Cap) bool {
	xc, xr := s2.VerifC19CapFields(x)
	yc, yr := s2.VerifC19CapFields(y)
	return xr > 0 && yr >= 0 && float64(s2.ChordAngleBetweenPoints(xc, yc)) == 4 &&
		float64(s1.ChordAngle(xr).Add(s1.ChordAngle(yr))) == 4
}

var knownClampReports int

// reportInterior: x.InteriorIntersects(y) answered false although want is true
func capInteriorKind(x, y s2.Cap, plain string) (kind string, report bool) {
	if capInteriorKnownClamp(x, y) {
		knownClampReports++
		return "cap.InteriorIntersects.antipodal-clamp", knownClampReports <= 2
	}
	return plain, true
}

// independent evaluation of the rounded squared chord (same specification as ChordAngleBetweenPoints)
func myChord2(x, y s2.Point) float64 {
	dx, dy, dz := x.X-y.X, x.Y-y.Y, x.Z-y.Z
	return math.Min(4, dx*dx+dy*dy+dz*dz)
}

// documented measurement error of a ChordAngle for an angle theta (s1/chordangle.go):
// min(1e-15 / tan((pi - theta)/2), sqrt(2e-15)); it grows to 4.5e-8 rad near pi
func chordTol(theta float64) float64 {
	x := math.Pi - theta
	if x <= 0 {
		return math.Sqrt(2e-15)
	}
	return math.Min(1e-15/math.Tan(x/2), math.Sqrt(2e-15))
}

// slack of the angle criterion "separation vs sum of radii": the distance and the clamped sum are
// both ChordAngles and carry the documented error near pi
func capAngleTol(sep, sum float64) float64 {
	return 1e-9 + 2*chordTol(sep) + 2*chordTol(math.Min(sum, math.Pi))
}

func capAngle(r2 float64) float64 { return 2 * math.Asin(math.Min(1, math.Sqrt(r2)/2)) }
func centreAngle(x, y s2.Point) float64 {
	cr := x.Cross(y.Vector)
	return math.Atan2(cr.Norm(), x.Dot(y.Vector))
}

// probes: centre, antipode, and points at (approximately) the boundary and just inside/outside
func capProbes(randPt func() s2.Point, cp s2.Cap) []s2.Point {
	ctr, r := s2.VerifC19CapFields(cp)
	out := []s2.Point{ctr, {Vector: ctr.Mul(-1)}, randPt()}
	if r >= 0 && r <= 4 {
		ang := 2 * math.Asin(math.Sqrt(r)/2)
		for k := 0; k < 3; k++ {
			dir := randPt()
			for _, f := range []float64{1, 1 - 1e-9, 1 + 1e-9, 0.5} {
				a := ang * f
				if a > math.Pi {
					a = math.Pi
				}
				out = append(out, s2.InterpolateAtDistance(s1.Angle(a), ctr, dir))
			}
		}
	}
	return out
}

func runC19cap(c *vkit.Collector, rng *vkit.Rng, budget int) {
	unit := func(x, y, z float64) s2.Point { return s2.Point{Vector: r3.Vector{X: x, Y: y, Z: z}.Normalize()} }
	randPt := func() s2.Point { return unit(rng.Range(-1, 1), rng.Range(-1, 1), rng.Range(-1, 1)) }
	base := []s2.Point{unit(1, 0, 0), unit(-1, 0, 0), unit(0, 1, 0), unit(0, 0, 1), unit(0, 0, -1), unit(1, 1e-8, 0), unit(1, 1, 1), unit(-1, -1, -1), unit(1, 1e-160, 0)}
	pickPt := func() s2.Point {
		if rng.Intn(3) == 0 {
			return randPt()
		}
		p := base[rng.Intn(len(base))]
		if rng.Intn(3) == 0 { // a neighbour: still within the IsUnit tolerance
			p = s2.Point{Vector: r3.Vector{X: p.X * (1 + rng.Range(-2e-14, 2e-14)), Y: p.Y, Z: vkit.Ulps(p.Z, rng.Intn(5)-2)}}
		}
		return p
	}
	radii := []float64{0, 1e-30, 1e-15, 1e-4, 0.5, 1, 2, vkit.Ulps(2, 1), vkit.Ulps(2, -1), 3, vkit.Ulps(4, -1), 4, -1, math.Copysign(0, -1)}
	pickCap := func(tag string) s2.Cap {
		switch rng.Intn(10) {
		case 0:
			c.Class(tag + ":empty")
			return s2.EmptyCap()
		case 1:
			c.Class(tag + ":full")
			return s2.FullCap()
		case 2:
			c.Class(tag + ":random-radius")
			return s2.VerifC19CapRaw(pickPt(), rng.Range(0, 4))
		default:
			r := rng.Pick(radii)
			switch {
			case r < 0:
				c.Class(tag + ":empty(noncanonical centre)")
			case r == 4:
				c.Class(tag + ":full(noncanonical centre)")
			case r == 0:
				c.Class(tag + ":point")
			default:
				c.Class(tag + ":lattice-radius")
			}
			return s2.VerifC19CapRaw(pickPt(), r)
		}
	}
	// probes: centre, antipode, and points at (approximately) the boundary and just inside/outside
	around := func(cp s2.Cap) []s2.Point { return capProbes(randPt, cp) }
	// regression input (run first on every tier): known finding, Cap.Union of two valid caps with
	// nearly antipodal centres and a subnormal coordinate has a NaN centre
	{
		f := math.Float64frombits
		a := s2.VerifC19CapRaw(s2.Point{Vector: r3.Vector{X: f(0xbff0000000000003), Y: 0, Z: f(0x8000000000000001)}}, f(0x4000000000000001))
		b := s2.VerifC19CapRaw(s2.Point{Vector: r3.Vector{X: f(0x3ff0000000000006), Y: 0, Z: 0}}, 1)
		u := a.Union(b)
		c.Check("cap.Union(regression)", vkit.App("s2_Cap_eqbits", vkit.App("s2_Cap_Union", capTerm(a), capTerm(b)), capTerm(u)))
		if capValidO(a) && capValidO(b) && !capValidO(u) {
			uc, ur := s2.VerifC19CapFields(u)
			c.Violate(capUnionValidKind(a, b, u), "Union of two valid caps is not a valid cap (NaN centre)", map[string]interface{}{"type": "s2.Cap",
				"a": capKey(a), "b": capKey(b), "union_center": fs(uc.X, uc.Y, uc.Z), "union_radius2": fs(ur),
				"go": "a := CapFromCenterChordAngle(Point{r3.Vector{-1.0000000000000007, 0, -5e-324}}, 2.0000000000000004); b := CapFromCenterChordAngle(Point{r3.Vector{1.0000000000000013, 0, 0}}, 1); a.Union(b).IsValid() == false"})
		}
	}
	maxExcess := 0.0
	note := func(x float64) {
		if x > maxExcess {
			maxExcess = x
		}
	}
	n := 45 * budget
	for k := 0; k < n; k++ {
		a, b := pickCap("cap"), pickCap("cap")
		key := capKey(a) + "|" + capKey(b)
		ac, ar := s2.VerifC19CapFields(a)
		bc, br := s2.VerifC19CapFields(b)
		c.Eval("cap:"+key, !(ar < 0 && br < 0))
		A, Bt := capTerm(a), capTerm(b)
		rep := func(p s2.Point) map[string]interface{} {
			return map[string]interface{}{"type": "s2.Cap", "a_center": fs(ac.X, ac.Y, ac.Z), "a_radius2": fs(ar), "b_center": fs(bc.X, bc.Y, bc.Z), "b_radius2": fs(br), "p": fs(p.X, p.Y, p.Z), "bits": key + " " + ptKey(p)}
		}
		un, ad, cm := a.Union(b), a.AddCap(b), a.Complement()
		dist := s1.Angle(rng.Pick([]float64{0, 1e-16, 1e-8, 0.1, 1, math.Pi / 2, 3, math.Pi, 4}))
		ex := a.Expanded(dist)
		c.Sample(map[string]interface{}{"type": "s2.Cap", "a": a.String(), "b": b.String(), "union": un.String(), "addcap": ad.String()})

		// [T]
		eqC := func(name, term string, got s2.Cap) {
			c.Check("cap."+name+" "+key, vkit.App("s2_Cap_eqbits", term, capTerm(got)))
		}
		eqB := func(name, term string, got bool) {
			c.Check("cap."+name+" "+key, vkit.App("Bool.eqb", term, vkit.B(got)))
		}
		eqC("Union", vkit.App("s2_Cap_Union", A, Bt), un)
		eqC("AddCap", vkit.App("s2_Cap_AddCap", A, Bt), ad)
		eqC("Complement", vkit.App("s2_Cap_Complement", A), cm)
		eqC("Expanded", vkit.App("s2_Cap_Expanded", A, vkit.F(float64(dist))), ex)
		eqB("Contains", vkit.App("s2_Cap_Contains", A, Bt), a.Contains(b))
		eqB("Intersects", vkit.App("s2_Cap_Intersects", A, Bt), a.Intersects(b))
		eqB("InteriorIntersects", vkit.App("s2_Cap_InteriorIntersects", A, Bt), a.InteriorIntersects(b))
		eqB("IsValid", vkit.App("s2_Cap_IsValid", A), a.IsValid())
		eqB("IsEmpty", vkit.App("s2_Cap_IsEmpty", A), a.IsEmpty())
		eqB("IsFull", vkit.App("s2_Cap_IsFull", A), a.IsFull())
		eqB("Equal", vkit.App("s2_Cap_Equal", A, Bt), a.Equal(b))
		eqB("ApproxEqual", vkit.App("s2_Cap_ApproxEqual", A, Bt), a.ApproxEqual(b))
		c.Check("cap.Radius "+key, vkit.App("fbiteq", vkit.App("s2_Cap_Radius", A), vkit.F(float64(a.Radius()))))
		c.Check("cap.Height "+key, vkit.App("fbiteq", vkit.App("s2_Cap_Height", A), vkit.F(a.Height())))
		// chord angle arithmetic on the two radii
		x, y := s1.ChordAngle(ar), s1.ChordAngle(br)
		X, Y := vkit.F(ar), vkit.F(br)
		c.Check("ChordAngle.Add "+key, vkit.App("fbiteq", vkit.App("s1_ChordAngle_Add", X, Y), vkit.F(float64(x.Add(y)))))
		c.Check("ChordAngle.Sub "+key, vkit.App("fbiteq", vkit.App("s1_ChordAngle_Sub", X, Y), vkit.F(float64(x.Sub(y)))))
		c.Check("ChordAngle.Expanded "+key, vkit.App("fbiteq", vkit.App("s1_ChordAngle_Expanded", X, Y), vkit.F(float64(x.Expanded(br)))))
		c.Check("ChordAngle.Successor "+key, vkit.App("fbiteq", vkit.App("s1_ChordAngle_Successor", X), vkit.F(float64(x.Successor()))))
		c.Check("ChordAngle.Predecessor "+key, vkit.App("fbiteq", vkit.App("s1_ChordAngle_Predecessor", X), vkit.F(float64(x.Predecessor()))))
		c.Check("ChordAngle.Angle "+key, vkit.App("fbiteq", vkit.App("s1_ChordAngle_Angle", X), vkit.F(float64(x.Angle()))))
		c.Check("ChordAngleFromAngle "+key, vkit.App("fbiteq", vkit.App("s1_ChordAngleFromAngle", vkit.F(float64(dist))), vkit.F(float64(s1.ChordAngleFromAngle(dist)))))
		c.Check("ChordAngleBetweenPoints "+key, vkit.App("fbiteq", vkit.App("s2_ChordAngleBetweenPoints", ptTerm(ac), ptTerm(bc)), vkit.F(float64(s2.ChordAngleBetweenPoints(ac, bc)))))

		if !capValidO(a) || !capValidO(b) {
			continue
		}
		if !a.IsValid() {
			c.Violate("cap.IsValid", "IsValid false on a cap with unit centre and radius <= 4", rep(ac))
		}
		// [S] results valid
		for name, r := range map[string]s2.Cap{"Union": un, "AddCap": ad, "Complement": cm, "Expanded": ex} {
			if !capValidO(r) {
				kind := "cap." + name + ".invalid-result"
				if name == "Union" {
					kind = capUnionValidKind(a, b, r)
				}
				c.Violate(kind, "result is not a valid cap", rep(ac))
			}
		}
		// exact cases of Contains: same centre, radius not larger (Add(0, r) = r exactly)
		if ar >= 0 {
			if !a.Contains(a) {
				c.Violate("cap.Contains.reflexive", "a valid non-empty cap does not contain itself", rep(ac))
			}
			if ar > 0 && !a.Contains(s2.VerifC19CapRaw(ac, ar/2)) {
				c.Violate("cap.Contains.concentric", "a cap does not contain the concentric cap of half the squared radius", rep(ac))
			}
			if !a.Intersects(a) {
				c.Violate("cap.Intersects.reflexive", "a valid non-empty cap does not intersect itself", rep(ac))
			}
		}
		// Intersects / InteriorIntersects against the angle criterion (float64 trigonometry; slack 1e-9 rad plus
		// the documented ChordAngle error, which reaches 4.5e-8 rad for angles near pi)
		overlapClear := true
		if ar >= 0 && br >= 0 && ar <= 4 && br <= 4 {
			sep, sum := centreAngle(ac, bc), capAngle(ar)+capAngle(br)
			tol := capAngleTol(sep, sum)
			overlapClear = sep+tol < sum
			ii := a.InteriorIntersects(b)
			switch {
			case ii && (ar <= 0 || sep > sum+tol):
				c.Violate("cap.InteriorIntersects.true-but-disjoint", "InteriorIntersects true although the receiver has no interior or the caps are clearly disjoint", rep(ac))
			case !ii && ar > 0 && overlapClear:
				if kind, report := capInteriorKind(a, b, "cap.InteriorIntersects.false-but-overlapping"); report {
					c.Violate(kind, "InteriorIntersects false although the caps clearly overlap", rep(ac))
				}
			}
			if a.Intersects(b) && sep > sum+tol {
				c.Violate("cap.Intersects.true-but-disjoint", "Intersects true although the caps are clearly disjoint", rep(ac))
			}
			if !a.Intersects(b) && overlapClear {
				c.Violate("cap.Intersects.false-but-overlapping", "Intersects false although the caps clearly overlap", rep(ac))
			}
		}
		// a point cap touching the boundary exactly: it meets the cap but not its interior
		if ar >= 0 {
			q := randPt()
			d := myChord2(ac, q)
			touch := s2.VerifC19CapRaw(ac, d)
			pc := s2.CapFromPoint(q)
			if d > 0 && touch.InteriorIntersects(pc) {
				c.Violate("cap.InteriorIntersects.boundary-point", "the interior of a cap meets a point cap that lies exactly on its boundary", rep(q))
			}
			if !touch.Intersects(pc) {
				c.Violate("cap.Intersects.boundary-point", "a cap does not intersect a point cap that lies exactly on its boundary", rep(q))
			}
			if d > 0 && d < 4 && !s2.VerifC19CapRaw(ac, vkit.Ulps(d, 1)).InteriorIntersects(pc) {
				c.Violate("cap.InteriorIntersects.inside-point", "the interior of a cap misses a point cap one ulp inside its boundary", rep(q))
			}
		}
		probes := append(around(a), around(b)...)
		tp := rng.Intn(len(probes))
		uc, ur := s2.VerifC19CapFields(un)
		dc, dr := s2.VerifC19CapFields(ad)
		ec, er := s2.VerifC19CapFields(ex)
		kc, kr := s2.VerifC19CapFields(cm)
		contains, intersects := a.Contains(b), a.Intersects(b)
		for pi, p := range probes {
			if !finitePt(p) {
				continue
			}
			inA, inB := capMemExact(ac, ar, p, 0), capMemExact(bc, br, p, 0)
			// ContainsPoint against exact geometry: may differ only within the slack
			if a.ContainsPoint(p) && !capMemExact(ac, ar, p, capEps) {
				c.Violate("cap.ContainsPoint", "ContainsPoint true for a point clearly outside", rep(p))
			}
			if !a.ContainsPoint(p) && ar >= 0 && capMemExact(ac, ar-capEps, p, 0) {
				c.Violate("cap.ContainsPoint", "ContainsPoint false for a point clearly inside", rep(p))
			}
			if contains && inB && !capMemExact(ac, ar, p, 2*capEps) {
				c.Violate("cap.Contains", "Contains true but a point of the other cap is clearly outside", rep(p))
			}
			if !intersects && overlapClear && inA && inB && capMemExact(ac, ar-2*capEps, p, 0) && capMemExact(bc, br-2*capEps, p, 0) {
				c.Violate("cap.Intersects", "Intersects false but a point lies clearly inside both caps", rep(p))
			}
			if (inA || inB) && !capMemExact(uc, ur, p, 2*capEps) {
				c.Violate("cap.Union", "Union clearly misses a point of an operand", rep(p))
			}
			if (inA || inB) && !capMemExact(dc, dr, p, 2*capEps) {
				c.Violate("cap.AddCap", "AddCap clearly misses a point of an operand", rep(p))
			}
			if inA && !capMemExact(ec, er, p, 2*capEps) {
				c.Violate("cap.Expanded", "Expanded by a non-negative angle clearly loses a point", rep(p))
			}
			if !capMemExact(ac, ar, p, 2*capEps) && !capMemExact(kc, kr, p, 2*capEps) && math.Abs(1-func() float64 { f, _ := norm2Exact(p).Float64(); return f }()) < 1e-14 {
				c.Violate("cap.Complement", "a unit point is clearly neither in the cap nor in its complement", rep(p))
			}
			ap := a.AddPoint(p)
			if !ap.ContainsPoint(p) {
				c.Violate("cap.AddPoint", "AddPoint result does not contain the added point", rep(p))
			}
			for _, q := range probes[:4] {
				if finitePt(q) && a.ContainsPoint(q) && !ap.ContainsPoint(q) {
					c.Violate("cap.AddPoint", "AddPoint loses a point", rep(p))
				}
			}
			// H_CAPARITH(eps), evaluated on the float expressions themselves
			if u := func() float64 { f, _ := norm2Exact(p).Float64(); return f }(); math.Abs(u-1) <= 5e-14 {
				dap, dab, dbp := float64(s2.ChordAngleBetweenPoints(ac, p)), s2.ChordAngleBetweenPoints(ac, bc), float64(s2.ChordAngleBetweenPoints(bc, p))
				if br >= 0 && dbp <= br {
					note(dap - float64(dab.Add(s1.ChordAngle(br))))
					if !(dap <= float64(dab.Add(s1.ChordAngle(br)))+capEps) {
						c.Violate("H_CAPARITH.triangle", "rounded chord triangle inequality exceeded by more than eps", rep(p))
					}
				}
				if ar >= 0 && br >= 0 && dap <= ar && dbp <= br {
					note(float64(dab) - float64(s1.ChordAngle(ar).Add(s1.ChordAngle(br))))
					if !(float64(dab) <= float64(s1.ChordAngle(ar).Add(s1.ChordAngle(br)))+capEps) {
						c.Violate("H_CAPARITH.triangle2", "two-radius triangle inequality exceeded by more than eps", rep(p))
					}
				}
				if ar >= 0 && !(dap <= ar) {
					anti := s2.Point{Vector: ac.Mul(-1)}
					lhs, rhs := float64(s2.ChordAngleBetweenPoints(anti, p)), float64(s1.StraightChordAngle.Sub(s1.ChordAngle(ar)))
					note(lhs - rhs)
					if !(lhs <= rhs+capEps) {
						c.Violate("H_CAPARITH.antipode", "antipode inequality exceeded by more than eps", rep(p))
					}
				}
			}
			if ar >= 0 && br >= 0 {
				s := float64(s1.ChordAngle(ar).Add(s1.ChordAngle(br)))
				note(ar - s)
				if !(ar <= s+capEps) {
					c.Violate("H_CAPARITH.addmono", "ChordAngle.Add loses its first operand by more than eps", rep(p))
				}
			}
			if pi == tp {
				pk := key + " " + ptKey(p)
				c.Check("cap.ContainsPoint "+pk, vkit.App("Bool.eqb", vkit.App("s2_Cap_ContainsPoint", A, ptTerm(p)), vkit.B(a.ContainsPoint(p))))
				c.Check("cap.InteriorContainsPoint "+pk, vkit.App("Bool.eqb", vkit.App("s2_Cap_InteriorContainsPoint", A, ptTerm(p)), vkit.B(a.InteriorContainsPoint(p))))
				c.Check("cap.AddPoint "+pk, vkit.App("s2_Cap_eqbits", vkit.App("s2_Cap_AddPoint", A, ptTerm(p)), capTerm(ap)))
			}
		}
	}
	c.Extra["H_CAPARITH_eps"] = capEps
	c.Extra["H_CAPARITH_max_observed_excess"] = maxExcess
}

// runC19capSpecial: empty and full caps in every valid representation, centred anywhere (also
// antipodal to the other operand), as receiver and as argument. Oracle: an empty cap has no
// member and a full cap has every member, so
//
//	x.Contains(empty), full.Contains(x)            are true,
//	nonfull.Contains(full), empty.Contains(nonempty) are false,
//	x.Intersects(empty), x.InteriorIntersects(empty) (either side) are false,
//	x.Intersects(full) is true for non-empty x,
//	Union / AddCap with an empty operand is the other operand as a point set, with a full one full,
//	Expanded(empty) is empty, Complement(empty) is full, Complement(full) is empty.
func runC19capSpecial(c *vkit.Collector, rng *vkit.Rng, budget int) {
	unit := func(x, y, z float64) s2.Point { return s2.Point{Vector: r3.Vector{X: x, Y: y, Z: z}.Normalize()} }
	randPt := func() s2.Point { return unit(rng.Range(-1, 1), rng.Range(-1, 1), rng.Range(-1, 1)) }
	anti := func(p s2.Point) s2.Point { return s2.Point{Vector: p.Mul(-1)} }
	centre := func(other s2.Point) s2.Point {
		switch rng.Intn(5) {
		case 0:
			return other
		case 1:
			return anti(other)
		case 2:
			return unit(1, 0, 0)
		case 3:
			return unit(-1, 0, 0)
		}
		return randPt()
	}
	empties := func(p s2.Point) []s2.Cap {
		return []s2.Cap{s2.EmptyCap(), s2.CapFromCenterHeight(p, -1), s2.CapFromCenterAngle(p, -1*s1.Degree),
			s2.CapFromCenterChordAngle(p, s1.NegativeChordAngle), s2.FullCap().Complement(), s2.CapFromCenterAngle(p, math.Pi).Complement(),
			s2.VerifC19CapRaw(p, -1e-300)}
	}
	fulls := func(p s2.Point) []s2.Cap {
		return []s2.Cap{s2.FullCap(), s2.CapFromCenterHeight(p, 2), s2.CapFromCenterAngle(p, math.Pi), s2.CapFromCenterAngle(p, 4),
			s2.CapFromCenterChordAngle(p, s1.StraightChordAngle), s2.EmptyCap().Complement(), s2.CapFromCenterHeight(p, -1).Complement()}
	}
	proper := func(p s2.Point) s2.Cap {
		return s2.VerifC19CapRaw(p, rng.Pick([]float64{0, 1e-15, 0.5, 1, 2, 3, vkit.Ulps(4, -1), rng.Range(0, 4)}))
	}
	isEmptyO := func(x s2.Cap) bool { _, r := s2.VerifC19CapFields(x); return r < 0 }
	isFullO := func(x s2.Cap) bool { _, r := s2.VerifC19CapFields(x); return r >= 4 }
	samePoints := func(x, y s2.Cap, probes []s2.Point) bool {
		xc, xr := s2.VerifC19CapFields(x)
		yc, yr := s2.VerifC19CapFields(y)
		for _, p := range probes {
			inX, inY := capMemExact(xc, xr, p, 0), capMemExact(yc, yr, p, 0)
			// differ clearly: in one by a margin, outside the other by a margin
			if (inX && !capMemExact(yc, yr, p, 2*capEps) && capMemExact(xc, xr-2*capEps, p, 0)) ||
				(inY && !capMemExact(xc, xr, p, 2*capEps) && capMemExact(yc, yr-2*capEps, p, 0)) {
				return false
			}
		}
		return true
	}
	n := 12 * budget
	for k := 0; k < n; k++ {
		pa := randPt()
		if rng.Intn(4) == 0 {
			pa = unit(1, 0, 0)
		}
		var as []s2.Cap
		as = append(as, proper(pa), proper(pa))
		as = append(as, empties(pa)[rng.Intn(7)], fulls(pa)[rng.Intn(7)])
		for _, a := range as {
			ac, _ := s2.VerifC19CapFields(a)
			pb := centre(ac)
			var bs []s2.Cap
			bs = append(bs, empties(pb)...)
			bs = append(bs, fulls(pb)...)
			for bi, b := range bs {
				if !capValidO(a) || !capValidO(b) {
					continue
				}
				key := capKey(a) + "|" + capKey(b)
				c.Eval("capS:"+key, true)
				if isEmptyO(b) {
					c.Class("capS:arg-empty")
				} else {
					c.Class("capS:arg-full")
				}
				bc, br := s2.VerifC19CapFields(b)
				_, ar := s2.VerifC19CapFields(a)
				rep := map[string]interface{}{"type": "s2.Cap", "a_center": fs(ac.X, ac.Y, ac.Z), "a_radius2": fs(ar), "b_center": fs(bc.X, bc.Y, bc.Z), "b_radius2": fs(br), "bits": key}
				A, Bt := capTerm(a), capTerm(b)
				if bi%3 == k%3 { // [T] on a third of the pairs, both orders
					c.Check("capS.Contains "+key, vkit.App("Bool.eqb", vkit.App("s2_Cap_Contains", A, Bt), vkit.B(a.Contains(b))))
					c.Check("capS.Contains' "+key, vkit.App("Bool.eqb", vkit.App("s2_Cap_Contains", Bt, A), vkit.B(b.Contains(a))))
					c.Check("capS.Intersects "+key, vkit.App("Bool.eqb", vkit.App("s2_Cap_Intersects", A, Bt), vkit.B(a.Intersects(b))))
					c.Check("capS.InteriorIntersects "+key, vkit.App("Bool.eqb", vkit.App("s2_Cap_InteriorIntersects", A, Bt), vkit.B(a.InteriorIntersects(b))))
					c.Check("capS.Union "+key, vkit.App("s2_Cap_eqbits", vkit.App("s2_Cap_Union", A, Bt), capTerm(a.Union(b))))
					c.Check("capS.AddCap "+key, vkit.App("s2_Cap_eqbits", vkit.App("s2_Cap_AddCap", A, Bt), capTerm(a.AddCap(b))))
					c.Check("capS.AddCap' "+key, vkit.App("s2_Cap_eqbits", vkit.App("s2_Cap_AddCap", Bt, A), capTerm(b.AddCap(a))))
				}
				probes := append(capProbes(randPt, a), capProbes(randPt, b)...)
				viol := func(kind, desc string) { c.Violate(kind, desc, rep) }
				if isEmptyO(b) {
					if !a.Contains(b) {
						viol("cap.Contains.empty-arg", "a cap does not contain an empty cap (centred elsewhere)")
					}
					if !isEmptyO(a) && b.Contains(a) {
						viol("cap.Contains.empty-receiver", "an empty cap contains a non-empty cap")
					}
					if a.Intersects(b) || b.Intersects(a) || a.InteriorIntersects(b) || b.InteriorIntersects(a) {
						viol("cap.Intersects.empty-operand", "a cap intersects an empty cap")
					}
					for name, u := range map[string]s2.Cap{"Union": a.Union(b), "Union'": b.Union(a), "AddCap": a.AddCap(b), "AddCap'": b.AddCap(a)} {
						if !capValidO(u) || !samePoints(u, a, probes) || isEmptyO(u) != isEmptyO(a) {
							viol("cap."+name+".empty-operand", "union with an empty cap is not the other operand as a point set")
						}
					}
					if !isEmptyO(b.Expanded(s1.Angle(rng.Pick([]float64{0, 0.1, 4})))) {
						viol("cap.Expanded.empty", "expanding an empty cap gives a non-empty cap")
					}
					if !isFullO(b.Complement()) {
						viol("cap.Complement.empty", "the complement of an empty cap is not full")
					}
				} else { // b full
					if !b.Contains(a) {
						viol("cap.Contains.full-receiver", "a full cap does not contain a cap")
					}
					if !isFullO(a) && !isEmptyO(a) && ar < 4-1e-9 && a.Contains(b) {
						viol("cap.Contains.full-arg", "a cap that is clearly not full contains a full cap")
					}
					if !isEmptyO(a) && (!a.Intersects(b) || !b.Intersects(a)) {
						viol("cap.Intersects.full-operand", "a non-empty cap does not intersect a full cap")
					}
					if !isEmptyO(a) && !b.InteriorIntersects(a) {
						// known only for chord distance exactly 4 with the radius sum clamped to 4
						if kind, report := capInteriorKind(b, a, "cap.InteriorIntersects.full-receiver"); report {
							viol(kind, "the interior of a full cap does not intersect a non-empty cap")
						}
					}
					if _, ar0 := s2.VerifC19CapFields(a); ar0 > 0 && !a.InteriorIntersects(b) {
						if kind, report := capInteriorKind(a, b, "cap.InteriorIntersects.full-arg"); report {
							viol(kind, "the interior of a cap with positive radius does not intersect a full cap")
						}
					}
					for name, u := range map[string]s2.Cap{"Union": a.Union(b), "Union'": b.Union(a), "AddCap": a.AddCap(b), "AddCap'": b.AddCap(a)} {
						_, ur := s2.VerifC19CapFields(u)
						if !capValidO(u) || ur < 4-2*capEps {
							viol("cap."+name+".full-operand", "union with a full cap is not full")
						}
					}
					if !isEmptyO(b.Complement()) {
						viol("cap.Complement.full", "the complement of a full cap is not empty")
					}
					if !isFullO(b.Expanded(s1.Angle(rng.Pick([]float64{0, 0.1, 4})))) {
						viol("cap.Expanded.full", "expanding a full cap gives a cap that is not full")
					}
				}
			}
		}
	}
}

// runC19capNearPi: operand pairs whose angles sum to pi -/+ (k*1e-13 ... 1e-8), radii 1..179 degrees:
// where the squared-chord sum is a few ulps from 4. Every result must be a valid value:
// ChordAngle.Add/Sub in [0,4], cap radius in [0,4] (or negative = empty), IsFull iff radius == 4.
func runC19capNearPi(c *vkit.Collector, rng *vkit.Rng, budget int) {
	unit := func(x, y, z float64) s2.Point { return s2.Point{Vector: r3.Vector{X: x, Y: y, Z: z}.Normalize()} }
	randPt := func() s2.Point { return unit(rng.Range(-1, 1), rng.Range(-1, 1), rng.Range(-1, 1)) }
	degs := []float64{1, 3, 10, 30, 45, 60, 89, 90, 91, 120, 150, 177, 179}
	for k := 0; k < 6*budget; k++ {
		degs = append(degs, float64(1+rng.Intn(179)))
	}
	offs := []float64{1e-12, 1e-11, 1e-10, 1e-9, 1e-8, 3e-8}
	for k := 1; k <= 20; k++ {
		offs = append(offs, float64(k)*1e-13)
	}
	capResultOK := func(name string, u s2.Cap, rep map[string]interface{}) {
		_, ur := s2.VerifC19CapFields(u)
		if !capValidO(u) {
			c.Violate("cap."+name+".invalid-result", "result is not a valid cap (radius NaN or above 4, or centre not unit)", rep)
			return
		}
		if u.IsFull() != (ur == 4) || u.IsEmpty() != (ur < 0) {
			c.Violate("cap."+name+".full-flag", "IsFull/IsEmpty of the result disagree with its radius", rep)
		}
		if ur >= 4 && !u.Complement().IsEmpty() {
			c.Violate("cap."+name+".full-complement", "a result covering the sphere has a non-empty complement", rep)
		}
	}
	tcount := 0
	for _, dg := range degs {
		r := dg * math.Pi / 180
		for _, off := range offs {
			for _, sg := range []float64{-1, 1} {
				e := math.Pi - r + sg*off // r + e = pi +/- off
				if e < 0 {
					continue
				}
				c.Eval(fmt.Sprintf("capPi:%v/%v/%v", dg, off, sg), true)
				c.Class("capPi:sum=pi" + map[float64]string{-1: "-", 1: "+"}[sg] + "delta")
				x, y := s1.ChordAngleFromAngle(s1.Angle(r)), s1.ChordAngleFromAngle(s1.Angle(e))
				rep := map[string]interface{}{"type": "s1.ChordAngle", "radius_deg": dg, "angle_r": fs(r), "angle_e": fs(e), "x": fs(float64(x)), "y": fs(float64(y)),
					"bits": fmt.Sprintf("%x %x", math.Float64bits(float64(x)), math.Float64bits(float64(y)))}
				// ChordAngle arithmetic itself
				for name, v := range map[string]float64{"Add": float64(x.Add(y)), "Add'": float64(y.Add(x)), "Sub": float64(x.Sub(y)), "Sub'": float64(y.Sub(x)),
					"Sub(4,x)": float64(s1.StraightChordAngle.Sub(x))} {
					if math.IsNaN(v) || v < 0 || v > 4 {
						c.Violate("ChordAngle."+name[:3]+".range", "the result of ChordAngle arithmetic on valid operands is outside [0,4]", rep)
					}
				}
				if s := float64(x.Add(y)); !(s+capEps >= float64(x)) || !(s+capEps >= float64(y)) {
					c.Violate("ChordAngle.Add.monotone", "ChordAngle.Add is smaller than an operand by more than eps", rep)
				}
				// caps
				p, q := randPt(), randPt()
				a := s2.CapFromCenterAngle(p, s1.Angle(r))
				ex := a.Expanded(s1.Angle(e))
				rep["center"] = fs(p.X, p.Y, p.Z)
				capResultOK("Expanded", ex, rep)
				ec, er := s2.VerifC19CapFields(ex)
				for _, pr := range capProbes(randPt, a)[:8] {
					ac, ar := s2.VerifC19CapFields(a)
					if finitePt(pr) && capMemExact(ac, ar, pr, 0) && !capMemExact(ec, er, pr, 2*capEps) {
						c.Violate("cap.Expanded", "Expanded by a non-negative angle clearly loses a point", rep)
					}
				}
				// second cap placed so that distance + its radius is pi +/- off
				r2 := rng.Range(0, math.Min(e, 1))
				b := s2.CapFromCenterAngle(s2.InterpolateAtDistance(s1.Angle(e-r2), p, q), s1.Angle(r2))
				small := s2.CapFromCenterAngle(p, s1.Angle(rng.Range(0, 0.5)))
				ad, ad2, un := small.AddCap(b), a.AddCap(b), a.Union(b)
				capResultOK("AddCap", ad, rep)
				capResultOK("AddCap", ad2, rep)
				if capUnionKnownNaN(a, b, un) {
					// the recorded Union defect, reported by its own regression input
				} else {
					capResultOK("Union", un, rep)
				}
				if tcount < 40*budget && rng.Intn(8) == 0 {
					tcount++
					key := fmt.Sprintf("%v %v %v", dg, off, sg)
					c.Check("capPi.ChordAngle.Add "+key, vkit.App("fbiteq", vkit.App("s1_ChordAngle_Add", vkit.F(float64(x)), vkit.F(float64(y))), vkit.F(float64(x.Add(y)))))
					c.Check("capPi.ChordAngle.Sub "+key, vkit.App("fbiteq", vkit.App("s1_ChordAngle_Sub", vkit.F(float64(x)), vkit.F(float64(y))), vkit.F(float64(x.Sub(y)))))
					c.Check("capPi.Expanded "+key, vkit.App("s2_Cap_eqbits", vkit.App("s2_Cap_Expanded", capTerm(a), vkit.F(e)), capTerm(ex)))
					c.Check("capPi.AddCap "+key, vkit.App("s2_Cap_eqbits", vkit.App("s2_Cap_AddCap", capTerm(a), capTerm(b)), capTerm(ad2)))
				}
			}
		}
	}
}
