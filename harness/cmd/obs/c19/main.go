package main

import (
	"fmt"
	"math"

	"github.com/golang/geo/r1"
	"verifharness/internal/vkit"
)

func main() {
	vkit.Main("C19", []string{"Gen.R1", "Gen.S1", "Gen.R2", "Gen.S2Rect", "Gen.S2Cap"}, runC19)
}

// floats as strings: JSON has no Inf/NaN
func fs(xs ...float64) []string {
	out := make([]string, len(xs))
	for i, x := range xs {
		out[i] = fmt.Sprintf("%g", x)
	}
	return out
}

func r1Term(i r1.Interval) string { return vkit.App("mk_r1_Interval", vkit.F(i.Lo), vkit.F(i.Hi)) }

// independent membership oracle for r1 (not the code's Contains)
func r1Mem(i r1.Interval, p float64) bool { return i.Lo <= p && p <= i.Hi }

func r1Lattice(rng *vkit.Rng) []float64 {
	base := []float64{0, math.Copysign(0, -1), 1, -1, 0.5, 2, -2.5, 1e-300, -1e-300, 1e300, math.MaxFloat64, -math.MaxFloat64,
		math.SmallestNonzeroFloat64, math.Inf(1), math.Inf(-1), math.Pi, -math.Pi}
	out := append([]float64{}, base...)
	for _, b := range []float64{1, -1, 0.5, math.Pi} {
		out = append(out, vkit.Ulps(b, 1), vkit.Ulps(b, -1))
	}
	for k := 0; k < 6; k++ {
		out = append(out, rng.Range(-3, 3))
	}
	return out
}

func runC19(c *vkit.Collector, rng *vkit.Rng, budget int) {
	runC19r1(c, rng, budget)
	runC19s1(c, rng, budget)
	runC19r2(c, rng, budget)
	runC19s2rect(c, rng, budget)
	runC19cap(c, rng, budget)
	runC19capSpecial(c, rng, budget)
	runC19capNearPi(c, rng, budget)
	runC19interior(c, rng, budget)
}

func runC19r1(c *vkit.Collector, rng *vkit.Rng, budget int) {
	lat := r1Lattice(rng)
	pick := func() r1.Interval {
		switch rng.Intn(6) {
		case 0:
			c.Class("r1:empty")
			return r1.EmptyInterval()
		case 1:
			c.Class("r1:singleton")
			p := rng.Pick(lat)
			return r1.Interval{Lo: p, Hi: p}
		default:
			a, b := rng.Pick(lat), rng.Pick(lat)
			if a > b && rng.Intn(4) != 0 {
				a, b = b, a
			}
			if a > b {
				c.Class("r1:inverted(empty)")
			} else {
				c.Class("r1:proper")
			}
			return r1.Interval{Lo: a, Hi: b}
		}
	}
	n := 90 * budget
	for k := 0; k < n; k++ {
		a, b := pick(), pick()
		key := fmt.Sprintf("%x/%x/%x/%x", math.Float64bits(a.Lo), math.Float64bits(a.Hi), math.Float64bits(b.Lo), math.Float64bits(b.Hi))
		c.Eval("r1:"+key, !(a.IsEmpty() && b.IsEmpty()))
		A, Bt := r1Term(a), r1Term(b)
		u, x := a.Union(b), a.Intersection(b)
		c.Sample(map[string]interface{}{"type": "r1", "a": fs(a.Lo, a.Hi), "b": fs(b.Lo, b.Hi), "union": fmt.Sprint(u), "intersection": fmt.Sprint(x)})
		// [T] every function of the pair, bit-exactly
		c.Check("r1.Union "+key, vkit.App("r1_Interval_eqbits", vkit.App("r1_Interval_Union", A, Bt), r1Term(u)))
		c.Check("r1.Intersection "+key, vkit.App("r1_Interval_eqbits", vkit.App("r1_Interval_Intersection", A, Bt), r1Term(x)))
		c.Check("r1.ContainsInterval "+key, vkit.App("Bool.eqb", vkit.App("r1_Interval_ContainsInterval", A, Bt), vkit.B(a.ContainsInterval(b))))
		c.Check("r1.InteriorContainsInterval "+key, vkit.App("Bool.eqb", vkit.App("r1_Interval_InteriorContainsInterval", A, Bt), vkit.B(a.InteriorContainsInterval(b))))
		c.Check("r1.Intersects "+key, vkit.App("Bool.eqb", vkit.App("r1_Interval_Intersects", A, Bt), vkit.B(a.Intersects(b))))
		c.Check("r1.InteriorIntersects "+key, vkit.App("Bool.eqb", vkit.App("r1_Interval_InteriorIntersects", A, Bt), vkit.B(a.InteriorIntersects(b))))
		c.Check("r1.Equal "+key, vkit.App("Bool.eqb", vkit.App("r1_Interval_Equal", A, Bt), vkit.B(a.Equal(b))))
		c.Check("r1.IsEmpty "+key, vkit.App("Bool.eqb", vkit.App("r1_Interval_IsEmpty", A), vkit.B(a.IsEmpty())))
		// [S] the property itself on the implementation, with the independent membership oracle
		probes := []float64{a.Lo, a.Hi, b.Lo, b.Hi}
		for _, e := range []float64{a.Lo, a.Hi, b.Lo, b.Hi} {
			probes = append(probes, vkit.Ulps(e, 1), vkit.Ulps(e, -1))
		}
		probes = append(probes, rng.Pick(lat))
		anyCommon := false
		tProbe := map[int]bool{rng.Intn(len(probes)): true, rng.Intn(len(probes)): true, rng.Intn(len(probes)): true}
		for pi, p := range probes {
			if math.IsNaN(p) {
				continue
			}
			ma, mb := r1Mem(a, p), r1Mem(b, p)
			rep := map[string]interface{}{"type": "r1", "a": fs(a.Lo, a.Hi), "b": fs(b.Lo, b.Hi), "p": fs(p),
				"bits": []string{fmt.Sprintf("%x", math.Float64bits(a.Lo)), fmt.Sprintf("%x", math.Float64bits(a.Hi)), fmt.Sprintf("%x", math.Float64bits(b.Lo)), fmt.Sprintf("%x", math.Float64bits(b.Hi)), fmt.Sprintf("%x", math.Float64bits(p))}}
			// an empty operand (any Lo > Hi) has no member: the union is the other operand as a point set
			if (r1Empty(b) && r1Mem(u, p) != ma) || (r1Empty(a) && r1Mem(u, p) != mb) {
				c.Violate("r1.Union.empty-operand", "union with an empty interval is not the other operand", rep)
			}
			if (ma || mb) && !r1Mem(u, p) {
				c.Violate("r1.Union", "union misses a point of an operand", rep)
			}
			if (ma && mb) != r1Mem(x, p) {
				c.Violate("r1.Intersection", "intersection is not exactly the common points", rep)
			}
			if a.Contains(p) != ma {
				c.Violate("r1.Contains", "Contains disagrees with membership", rep)
			}
			if mb && a.ContainsInterval(b) && !ma {
				c.Violate("r1.ContainsInterval", "ContainsInterval true but a point of b is outside a", rep)
			}
			if ma && mb {
				anyCommon = true
			}
			ap := a.AddPoint(p)
			if !r1Mem(ap, p) || (ma && !r1Mem(ap, p)) {
				c.Violate("r1.AddPoint", "AddPoint result misses the point", rep)
			}
			for _, q := range []float64{a.Lo, a.Hi} {
				if r1Mem(a, q) && !r1Mem(ap, q) {
					c.Violate("r1.AddPoint", "AddPoint loses an original point", rep)
				}
			}
			if tProbe[pi] {
				c.Check(fmt.Sprintf("r1.AddPoint %s %x", key, math.Float64bits(p)), vkit.App("r1_Interval_eqbits", vkit.App("r1_Interval_AddPoint", A, vkit.F(p)), r1Term(ap)))
				c.Check(fmt.Sprintf("r1.Contains %s %x", key, math.Float64bits(p)), vkit.App("Bool.eqb", vkit.App("r1_Interval_Contains", A, vkit.F(p)), vkit.B(a.Contains(p))))
			}
			if !a.IsEmpty() {
				cp := a.ClampPoint(p)
				if !r1Mem(a, cp) {
					c.Violate("r1.ClampPoint", "ClampPoint lands outside a non-empty interval", rep)
				}
				if tProbe[pi] {
					c.Check(fmt.Sprintf("r1.ClampPoint %s %x", key, math.Float64bits(p)), vkit.App("fbiteq", vkit.App("r1_Interval_ClampPoint", A, vkit.F(p)), vkit.F(cp)))
				}
			}
			for _, m := range []float64{0, 1e-16, 0.25, 1e300} {
				if !math.IsInf(a.Lo, 0) && !math.IsInf(a.Hi, 0) {
					ex := a.Expanded(m)
					if ma && !r1Mem(ex, p) {
						c.Violate("r1.Expanded", "Expanded by a non-negative margin loses a point", rep)
					}
				}
			}
		}
		if a.Intersects(b) != anyCommon && !(a.IsEmpty() || b.IsEmpty()) {
			// endpoints of both intervals are among the probes, so a common point, if any, was probed
			c.Violate("r1.Intersects", "Intersects disagrees with existence of a common point", map[string]interface{}{"type": "r1", "a": fs(a.Lo, a.Hi), "b": fs(b.Lo, b.Hi)})
		}
		if r1Empty(b) && !a.ContainsInterval(b) {
			c.Violate("r1.ContainsInterval.empty-arg", "an interval does not contain an empty interval", map[string]interface{}{"type": "r1", "a": fs(a.Lo, a.Hi), "b": fs(b.Lo, b.Hi)})
		}
		if (a.IsEmpty() || b.IsEmpty()) && a.Intersects(b) {
			c.Violate("r1.Intersects", "Intersects true with an empty operand", map[string]interface{}{"type": "r1", "a": fs(a.Lo, a.Hi), "b": fs(b.Lo, b.Hi)})
		}
		// ContainsInterval complete: if every point of b (its endpoints suffice) is in a, it must say true
		if !b.IsEmpty() && r1Mem(a, b.Lo) && r1Mem(a, b.Hi) && !a.ContainsInterval(b) {
			c.Violate("r1.ContainsInterval", "ContainsInterval false although b lies in a", map[string]interface{}{"type": "r1", "a": fs(a.Lo, a.Hi), "b": fs(b.Lo, b.Hi)})
		}
		m := rng.Pick([]float64{0, 1e-16, 0.25, 1, 1e300, -0.25})
		c.Check("r1.Expanded "+key, vkit.App("r1_Interval_eqbits", vkit.App("r1_Interval_Expanded", A, vkit.F(m)), r1Term(a.Expanded(m))))
	}
}
