package main

import (
	"fmt"
	"math"

	"github.com/golang/geo/r1"
	"github.com/golang/geo/r2"
	"github.com/golang/geo/s1"
	"verifharness/internal/vkit"
)

// Interior* predicates of r1, r2 and s1 on operands that share exactly one endpoint / edge with the
// receiver on one axis while being strictly inside on the other (every axis, both ends), that are
// equal to it, that stick out, and degenerate point operands on each boundary.
// Oracles (independent of the code): the interior of [lo,hi] is the open interval (lo,hi);
// a set lies in the interior iff all its points do (for intervals/rectangles: the corners), and
// an empty set lies in every interior; the interior meets a closed set iff they share a real point.

func r1Int(i r1.Interval, p float64) bool { return i.Lo < p && p < i.Hi }
func r1IntContainsO(a, b r1.Interval) bool {
	return r1Empty(b) || (r1Int(a, b.Lo) && r1Int(a, b.Hi))
}
func r1IntMeetsO(a, b r1.Interval) bool {
	// exists p with a.Lo < p < a.Hi and b.Lo <= p <= b.Hi (real p)
	return a.Lo < a.Hi && !r1Empty(b) && b.Lo < a.Hi && a.Lo < b.Hi
}

// sub-intervals of a: inside, touching lo, touching hi, equal, points on/inside the boundary, sticking out, empty
func r1Family(a r1.Interval) []r1.Interval {
	lo, hi := a.Lo, a.Hi
	m1, m2 := lo+(hi-lo)*0.25, lo+(hi-lo)*0.75
	return []r1.Interval{
		{Lo: m1, Hi: m2}, {Lo: lo, Hi: m2}, {Lo: m1, Hi: hi}, {Lo: lo, Hi: hi},
		{Lo: lo, Hi: lo}, {Lo: hi, Hi: hi}, {Lo: m1, Hi: m1},
		{Lo: vkit.Ulps(lo, 1), Hi: vkit.Ulps(hi, -1)}, {Lo: vkit.Ulps(lo, -1), Hi: m2}, {Lo: m1, Hi: vkit.Ulps(hi, 1)},
		{Lo: hi, Hi: hi + 1}, {Lo: lo - 1, Hi: lo}, {Lo: m2, Hi: m1}, r1.EmptyInterval(),
	}
}

func runC19interior(c *vkit.Collector, rng *vkit.Rng, budget int) {
	bases := []r1.Interval{{Lo: 0, Hi: 1}, {Lo: -1, Hi: 1}, {Lo: 0.5, Hi: 0.5}, {Lo: math.Copysign(0, -1), Hi: 0}, {Lo: 2, Hi: 1}}
	for k := 0; k < 2*budget; k++ {
		x := rng.Range(-3, 3)
		bases = append(bases, r1.Interval{Lo: x, Hi: x + rng.Range(0, 2)})
	}
	// ---- r1
	for _, a := range bases {
		for _, b := range r1Family(a) {
			key := fmt.Sprintf("%x/%x|%x/%x", math.Float64bits(a.Lo), math.Float64bits(a.Hi), math.Float64bits(b.Lo), math.Float64bits(b.Hi))
			c.Eval("r1int:"+key, true)
			c.Class("r1:interior-family")
			rep := map[string]interface{}{"type": "r1", "a": fs(a.Lo, a.Hi), "b": fs(b.Lo, b.Hi), "bits": key}
			if a.InteriorContainsInterval(b) != r1IntContainsO(a, b) {
				c.Violate("r1.InteriorContainsInterval", "InteriorContainsInterval disagrees with 'every point of the argument is interior'", rep)
			}
			if a.InteriorIntersects(b) != r1IntMeetsO(a, b) {
				c.Violate("r1.InteriorIntersects", "InteriorIntersects disagrees with 'the interior shares a point with the argument'", rep)
			}
			for _, p := range []float64{b.Lo, b.Hi} {
				if !math.IsNaN(p) && a.InteriorContains(p) != r1Int(a, p) {
					c.Violate("r1.InteriorContains", "InteriorContains(point) disagrees with lo < p < hi", rep)
				}
			}
			A, Bt := r1Term(a), r1Term(b)
			c.Check("r1int.InteriorContainsInterval "+key, vkit.App("Bool.eqb", vkit.App("r1_Interval_InteriorContainsInterval", A, Bt), vkit.B(a.InteriorContainsInterval(b))))
			c.Check("r1int.InteriorIntersects "+key, vkit.App("Bool.eqb", vkit.App("r1_Interval_InteriorIntersects", A, Bt), vkit.B(a.InteriorIntersects(b))))
		}
	}
	// ---- r2: every combination of the two axis families
	for bi, ax := range bases {
		ay := bases[(bi+1)%len(bases)]
		a := r2.Rect{X: ax, Y: ay}
		if r1Empty(ax) != r1Empty(ay) {
			continue
		}
		fx, fy := r1Family(ax), r1Family(ay)
		for xi, bx := range fx {
			for yi, by := range fy {
				b := r2.Rect{X: bx, Y: by}
				if r1Empty(bx) != r1Empty(by) {
					continue // not a valid rectangle
				}
				key := r2Key(a) + "|" + r2Key(b)
				c.Eval("r2int:"+key, true)
				c.Class("r2:interior-family")
				rep := map[string]interface{}{"type": "r2", "a": fs(a.X.Lo, a.X.Hi, a.Y.Lo, a.Y.Hi), "b": fs(b.X.Lo, b.X.Hi, b.Y.Lo, b.Y.Hi), "bits": key}
				// points of b: corners, edge midpoints, centre
				allInt, bEmpty := true, r1Empty(bx)
				if !bEmpty {
					for _, px := range []float64{bx.Lo, bx.Hi, (bx.Lo + bx.Hi) / 2} {
						for _, py := range []float64{by.Lo, by.Hi, (by.Lo + by.Hi) / 2} {
							in := r1Int(ax, px) && r1Int(ay, py)
							if a.InteriorContainsPoint(r2.Point{X: px, Y: py}) != in {
								c.Violate("r2.InteriorContainsPoint", "InteriorContainsPoint disagrees with strict inequalities on both axes", rep)
							}
							allInt = allInt && in
						}
					}
				}
				if a.InteriorContains(b) != (bEmpty || allInt) {
					c.Violate("r2.InteriorContains", "InteriorContains disagrees with 'every point of the argument is interior' (corners, edge midpoints, centre)", rep)
				}
				if a.InteriorIntersects(b) != (r1IntMeetsO(ax, bx) && r1IntMeetsO(ay, by)) {
					c.Violate("r2.InteriorIntersects", "InteriorIntersects disagrees with 'the interior shares a point with the argument'", rep)
				}
				if (xi*len(fy)+yi)%4 == bi%4 {
					A, Bt := r2Term(a), r2Term(b)
					c.Check("r2int.InteriorContains "+key, vkit.App("Bool.eqb", vkit.App("r2_Rect_InteriorContains", A, Bt), vkit.B(a.InteriorContains(b))))
					c.Check("r2int.InteriorIntersects "+key, vkit.App("Bool.eqb", vkit.App("r2_Rect_InteriorIntersects", A, Bt), vkit.B(a.InteriorIntersects(b))))
				}
			}
		}
	}
	// ---- s1: interior of an interval as a set of normalised points
	s1IntPt := func(i s1.Interval, p float64) bool {
		if p == -math.Pi {
			p = math.Pi
		}
		switch {
		case i.Lo == math.Pi && i.Hi == -math.Pi:
			return false
		case i.Lo == -math.Pi && i.Hi == math.Pi:
			return true
		case i.Lo <= i.Hi:
			return i.Lo < p && p < i.Hi
		}
		return p > i.Lo || p < i.Hi
	}
	lat := s1Lattice(rng)
	for k := 0; k < 40*budget; k++ {
		a := s1Pick(c, rng, lat, "s1int")
		fam := []s1.Interval{s1Pick(c, rng, lat, "s1int"), {Lo: a.Lo, Hi: a.Hi}, {Lo: a.Lo, Hi: a.Lo}, {Lo: a.Hi, Hi: a.Hi}, s1.EmptyInterval(), s1.FullInterval()}
		if a.Lo < a.Hi {
			m1, m2 := a.Lo+(a.Hi-a.Lo)*0.25, a.Lo+(a.Hi-a.Lo)*0.75
			fam = append(fam, s1.Interval{Lo: m1, Hi: m2}, s1.Interval{Lo: a.Lo, Hi: m2}, s1.Interval{Lo: m1, Hi: a.Hi}, s1.Interval{Lo: m1, Hi: m1})
		}
		for _, b := range fam {
			if !s1Valid(a) || !s1Valid(b) {
				continue
			}
			key := s1Bits(a) + "|" + s1Bits(b)
			c.Eval("s1int:"+key, true)
			rep := map[string]interface{}{"type": "s1", "a": []float64{a.Lo, a.Hi}, "b": []float64{b.Lo, b.Hi}, "bits": key}
			for _, p := range []float64{b.Lo, b.Hi, a.Lo, a.Hi, math.Pi, -math.Pi} {
				if a.InteriorContains(p) != s1IntPt(a, p) {
					c.Violate("s1.InteriorContains", "InteriorContains(point) disagrees with the open arc", rep)
				}
			}
			bEmpty := len(s1Segs(b)) == 0
			if a.InteriorContainsInterval(b) && !bEmpty && (!s1IntPt(a, b.Lo) || !s1IntPt(a, b.Hi) || !s1Subset(a, b)) {
				c.Violate("s1.InteriorContainsInterval", "InteriorContainsInterval true although an endpoint of the argument is not interior", rep)
			}
			if !a.InteriorContainsInterval(b) && (bEmpty || (a.Lo < a.Hi && b.Lo <= b.Hi && a.Lo < b.Lo && b.Hi < a.Hi)) {
				c.Violate("s1.InteriorContainsInterval", "InteriorContainsInterval false although the argument is empty or strictly inside", rep)
			}
			if a.InteriorIntersects(b) && !s1Meet(a, b) {
				c.Violate("s1.InteriorIntersects", "InteriorIntersects true although the intervals share no point", rep)
			}
			if !a.InteriorIntersects(b) && !bEmpty && (s1IntPt(a, b.Lo) || s1IntPt(a, b.Hi)) {
				c.Violate("s1.InteriorIntersects", "InteriorIntersects false although an endpoint of the argument is interior", rep)
			}
		}
	}
}
