package main

import (
	"fmt"
	"math"
	"strings"

	"github.com/golang/geo/s1"
	"github.com/golang/geo/s2"
	"verifharness/internal/vkit"
)

// ---- EdgeQuery histories ------------------------------------------------------------------

// what the caller configured (tracked by the harness, independently of the library's structs)
type userOpts struct {
	MaxResults int // 0 = unlimited
	Limit      float64
	LimitSet   bool // false: the query type's default (infinity / zero)
	MaxError   float64
	Interiors  bool
	Brute      bool
}

type tgtSpec struct {
	Kind  string // point | edge | cell | index
	A, B  [2]float64
	Level int
	Idx   int  // which target index
	Reuse bool // index targets: use the target OBJECT created earlier in this history
}

func (t tgtSpec) String() string {
	switch t.Kind {
	case "point":
		return fmt.Sprintf("point(%.3f,%.3f)", t.A[0], t.A[1])
	case "edge":
		return fmt.Sprintf("edge(%.3f,%.3f-%.3f,%.3f)", t.A[0], t.A[1], t.B[0], t.B[1])
	case "cell":
		return fmt.Sprintf("cell(%.3f,%.3f L%d)", t.A[0], t.A[1], t.Level)
	}
	if t.Reuse {
		return fmt.Sprintf("index#%d(same target object)", t.Idx)
	}
	return fmt.Sprintf("index#%d(new target object)", t.Idx)
}

type eqOp struct {
	K   string      // set | find | dist | less | greater | consle | reset | reinit
	Add []shapeSpec // reinit: shapes added to the queried index before query.Reset()
	Set string      // MaxResults | DistanceLimit | MaxError | IncludeInteriors | UseBruteForce
	N   int
	D   float64 // degrees
	B   bool
	T   tgtSpec
}

func (o eqOp) String() string {
	switch o.K {
	case "set":
		switch o.Set {
		case "MaxResults":
			return fmt.Sprintf("opts.MaxResults(%d)", o.N)
		case "DistanceLimit", "MaxError":
			return fmt.Sprintf("opts.%s(%.4gdeg)", o.Set, o.D)
		default:
			return fmt.Sprintf("opts.%s(%v)", o.Set, o.B)
		}
	case "find":
		return "FindEdges(" + o.T.String() + ")"
	case "dist":
		return "Distance(" + o.T.String() + ")"
	case "less":
		return fmt.Sprintf("IsDistanceLess(%s, %.4gdeg)", o.T, o.D)
	case "greater":
		return fmt.Sprintf("IsDistanceGreater(%s, %.4gdeg)", o.T, o.D)
	case "consle":
		return fmt.Sprintf("IsConservativeDistanceLessOrEqual(%s, %.4gdeg)", o.T, o.D)
	}
	if o.K == "reinit" {
		return fmt.Sprintf("index.Add%v; query.Reset()", o.Add)
	}
	return "Reset()"
}

// spreadSpec moves a shape to a random cube face, so that the top-level covering of the index
// changes in number and order when it is added.
func spreadSpec(rng *vkit.Rng) shapeSpec {
	sp := randSpec(rng)
	switch rng.Intn(6) {
	case 0:
		sp.Lat = 70 + rng.Range(-8, 8)
	case 1:
		sp.Lat = -70 + rng.Range(-8, 8)
	default:
		sp.Lng += 90 * float64(rng.Intn(4))
	}
	if sp.Kind == "points" || sp.Kind == "loop4" {
		sp.Kind, sp.N = "polyline", 9+rng.Intn(30)
	}
	return sp
}

type eqGen struct {
	furthest bool
	prebuilt bool
	specs    []shapeSpec   // the queried index
	tspecs   [][]shapeSpec // the target indexes
	u0       userOpts
	ops      []eqOp
}

func (g *eqGen) setup() string {
	var s []string
	for _, sp := range g.specs {
		s = append(s, sp.String())
	}
	kind := "closest"
	if g.furthest {
		kind = "furthest"
	}
	ts := ""
	for i, t := range g.tspecs {
		ts += fmt.Sprintf(" target-index#%d=%v", i, t)
	}
	return fmt.Sprintf("%s query, index built before=%v, index={%s}, initial options=%+v,%s", kind, g.prebuilt, strings.Join(s, " "), g.u0, ts)
}

func (g *eqGen) names() []string {
	var out []string
	for _, o := range g.ops {
		out = append(out, o.String())
	}
	return out
}

func randTarget(rng *vkit.Rng, specs []shapeSpec) tgtSpec {
	sp := specs[rng.Intn(len(specs))]
	a := [2]float64{sp.Lat + rng.Range(-2, 2)*sp.R, sp.Lng + rng.Range(-2, 2)*sp.R}
	b := [2]float64{a[0] + rng.Range(-6, 6), a[1] + rng.Range(-6, 6)}
	switch rng.Intn(8) {
	case 0, 1, 2:
		return tgtSpec{Kind: "point", A: a}
	case 3, 4:
		return tgtSpec{Kind: "edge", A: a, B: b}
	case 5:
		return tgtSpec{Kind: "cell", A: a, Level: 3 + rng.Intn(8)}
	}
	return tgtSpec{Kind: "index", Idx: rng.Intn(2), Reuse: rng.Intn(3) != 0}
}

func genEdgeQuery(j job) *eqGen {
	rng := vkit.NewRng(j.Seed)
	g := &eqGen{furthest: rng.Intn(4) == 0, prebuilt: rng.Bool(), u0: userOpts{Interiors: true}}
	small := rng.Intn(4) == 0 // fewer than 25 edges in total: the brute-force path
	ns := 1 + rng.Intn(4)
	for i := 0; i < ns; i++ {
		sp := randSpec(rng)
		if small {
			sp.Kind, sp.N = "loop4", 4
		} else if i == 0 {
			sp.Kind, sp.N = "loop100", 100
		}
		g.specs = append(g.specs, sp)
	}
	if !small && rng.Bool() { // an index spread over several faces
		for i := 1 + rng.Intn(3); i > 0; i-- {
			g.specs = append(g.specs, spreadSpec(rng))
		}
	}
	for k := 0; k < 2; k++ {
		var ts []shapeSpec
		for i := 0; i < 1+rng.Intn(2); i++ {
			sp := randSpec(rng)
			if k == 0 {
				sp.Kind, sp.N = "loop100", 100
			}
			ts = append(ts, sp)
		}
		g.tspecs = append(g.tspecs, ts)
	}
	if rng.Bool() {
		g.u0.MaxResults = []int{1, 3, 0}[rng.Intn(3)]
	}
	if j.Seed>>63 == 1 { // corpus: the witnesses of edge_query_old_refuted* / target_reuse_old_refuted
		g.furthest, g.u0 = false, userOpts{Interiors: true}
		g.specs = []shapeSpec{{Kind: "loop100", Lat: 10, Lng: 10, R: 5, N: 100}}
		g.tspecs = [][]shapeSpec{{{Kind: "loop100", Lat: 10, Lng: 30, R: 5, N: 100}, {Kind: "loop100", Lat: 10, Lng: 22, R: 1, N: 100}}, {{Kind: "loop4", Lat: 0, Lng: 0, R: 3, N: 4}}}
		pt := tgtSpec{Kind: "point", A: [2]float64{12, 17}}
		it := tgtSpec{Kind: "index", Idx: 0, Reuse: true}
		switch j.Seed & 0xff {
		case 1:
			g.ops = []eqOp{{K: "dist", T: pt}, {K: "find", T: pt}}
		case 2:
			g.ops = []eqOp{{K: "less", T: pt, D: 3}, {K: "dist", T: pt}, {K: "find", T: pt}}
		case 4: // reset_keeps_index_cells_refuted: query; the index grows; Reset; query
			pl := func(lat, lng float64) shapeSpec { return shapeSpec{Kind: "polyline", Lat: lat, Lng: lng, R: 6, N: 9} }
			g.specs = []shapeSpec{pl(5, 90), pl(5, 180), pl(5, -90), pl(75, 10)}
			g.ops = []eqOp{{K: "set", Set: "IncludeInteriors", B: false}, {K: "find", T: pt}, {K: "reinit", Add: []shapeSpec{pl(5, 0)}}, {K: "find", T: pt}, {K: "dist", T: pt}}
		default:
			g.ops = []eqOp{{K: "less", T: it, D: 30}, {K: "dist", T: it}}
		}
		g.ops = applyKeep(g.ops, j.Keep)
		return g
	}
	n := 1 + rng.Intn(30)
	for len(g.ops) < n {
		t := randTarget(rng, g.specs)
		d := []float64{0, 0.01, 0.5, 2, 5, 12, 30, 90}[rng.Intn(8)] * rng.Range(0.8, 1.2)
		switch x := rng.Intn(100); {
		case x < 22:
			o := eqOp{K: "set"}
			switch rng.Intn(6) {
			case 0, 1:
				o.Set, o.N = "MaxResults", []int{1, 3, 1000000}[rng.Intn(3)]
			case 2:
				o.Set, o.D = "DistanceLimit", []float64{0.3, 4, 15, 60, 170}[rng.Intn(5)]
			case 3:
				o.Set, o.D = "MaxError", []float64{0, 0, 0.5, 5}[rng.Intn(4)]
			case 4:
				o.Set, o.B = "IncludeInteriors", rng.Bool()
			default:
				o.Set, o.B = "UseBruteForce", rng.Bool()
			}
			g.ops = append(g.ops, o)
		case x < 42:
			g.ops = append(g.ops, eqOp{K: "find", T: t})
		case x < 60:
			g.ops = append(g.ops, eqOp{K: "dist", T: t})
		case x < 75:
			g.ops = append(g.ops, eqOp{K: "less", T: t, D: d})
		case x < 84:
			g.ops = append(g.ops, eqOp{K: "greater", T: t, D: d})
		case x < 94:
			g.ops = append(g.ops, eqOp{K: "consle", T: t, D: d})
		case x < 97:
			g.ops = append(g.ops, eqOp{K: "reset"})
		default:
			o := eqOp{K: "reinit"}
			for i := 1 + rng.Intn(2); i > 0; i-- {
				o.Add = append(o.Add, spreadSpec(rng))
			}
			g.ops = append(g.ops, o)
		}
	}
	g.ops = applyKeep(g.ops, j.Keep)
	return g
}

// a distance target with the calls bound (the target interface is unexported)
type target struct {
	find   func(q *s2.EdgeQuery) []s2.EdgeQueryResult
	dist   func(q *s2.EdgeQuery) s1.ChordAngle
	less   func(q *s2.EdgeQuery, l s1.ChordAngle) bool
	great  func(q *s2.EdgeQuery, l s1.ChordAngle) bool
	consle func(q *s2.EdgeQuery, l s1.ChordAngle) bool
	inner  *s2.MinDistanceToShapeIndexTarget
}

// bind: one case per concrete target type (the interface they implement is unexported)
func bind(t interface{}) *target {
	switch x := t.(type) {
	case *s2.MinDistanceToPointTarget:
		return &target{
			find:   func(q *s2.EdgeQuery) []s2.EdgeQueryResult { return q.FindEdges(x) },
			dist:   func(q *s2.EdgeQuery) s1.ChordAngle { return q.Distance(x) },
			less:   func(q *s2.EdgeQuery, l s1.ChordAngle) bool { return q.IsDistanceLess(x, l) },
			great:  func(q *s2.EdgeQuery, l s1.ChordAngle) bool { return q.IsDistanceGreater(x, l) },
			consle: func(q *s2.EdgeQuery, l s1.ChordAngle) bool { return q.IsConservativeDistanceLessOrEqual(x, l) },
		}
	case *s2.MinDistanceToEdgeTarget:
		return &target{
			find:   func(q *s2.EdgeQuery) []s2.EdgeQueryResult { return q.FindEdges(x) },
			dist:   func(q *s2.EdgeQuery) s1.ChordAngle { return q.Distance(x) },
			less:   func(q *s2.EdgeQuery, l s1.ChordAngle) bool { return q.IsDistanceLess(x, l) },
			great:  func(q *s2.EdgeQuery, l s1.ChordAngle) bool { return q.IsDistanceGreater(x, l) },
			consle: func(q *s2.EdgeQuery, l s1.ChordAngle) bool { return q.IsConservativeDistanceLessOrEqual(x, l) },
		}
	case *s2.MinDistanceToCellTarget:
		return &target{
			find:   func(q *s2.EdgeQuery) []s2.EdgeQueryResult { return q.FindEdges(x) },
			dist:   func(q *s2.EdgeQuery) s1.ChordAngle { return q.Distance(x) },
			less:   func(q *s2.EdgeQuery, l s1.ChordAngle) bool { return q.IsDistanceLess(x, l) },
			great:  func(q *s2.EdgeQuery, l s1.ChordAngle) bool { return q.IsDistanceGreater(x, l) },
			consle: func(q *s2.EdgeQuery, l s1.ChordAngle) bool { return q.IsConservativeDistanceLessOrEqual(x, l) },
		}
	case *s2.MinDistanceToShapeIndexTarget:
		return &target{
			find:   func(q *s2.EdgeQuery) []s2.EdgeQueryResult { return q.FindEdges(x) },
			dist:   func(q *s2.EdgeQuery) s1.ChordAngle { return q.Distance(x) },
			less:   func(q *s2.EdgeQuery, l s1.ChordAngle) bool { return q.IsDistanceLess(x, l) },
			great:  func(q *s2.EdgeQuery, l s1.ChordAngle) bool { return q.IsDistanceGreater(x, l) },
			consle: func(q *s2.EdgeQuery, l s1.ChordAngle) bool { return q.IsConservativeDistanceLessOrEqual(x, l) },
		}
	case *s2.MaxDistanceToPointTarget:
		return &target{
			find:   func(q *s2.EdgeQuery) []s2.EdgeQueryResult { return q.FindEdges(x) },
			dist:   func(q *s2.EdgeQuery) s1.ChordAngle { return q.Distance(x) },
			less:   func(q *s2.EdgeQuery, l s1.ChordAngle) bool { return q.IsDistanceLess(x, l) },
			great:  func(q *s2.EdgeQuery, l s1.ChordAngle) bool { return q.IsDistanceGreater(x, l) },
			consle: func(q *s2.EdgeQuery, l s1.ChordAngle) bool { return q.IsConservativeDistanceLessOrEqual(x, l) },
		}
	case *s2.MaxDistanceToEdgeTarget:
		return &target{
			find:   func(q *s2.EdgeQuery) []s2.EdgeQueryResult { return q.FindEdges(x) },
			dist:   func(q *s2.EdgeQuery) s1.ChordAngle { return q.Distance(x) },
			less:   func(q *s2.EdgeQuery, l s1.ChordAngle) bool { return q.IsDistanceLess(x, l) },
			great:  func(q *s2.EdgeQuery, l s1.ChordAngle) bool { return q.IsDistanceGreater(x, l) },
			consle: func(q *s2.EdgeQuery, l s1.ChordAngle) bool { return q.IsConservativeDistanceLessOrEqual(x, l) },
		}
	case *s2.MaxDistanceToCellTarget:
		return &target{
			find:   func(q *s2.EdgeQuery) []s2.EdgeQueryResult { return q.FindEdges(x) },
			dist:   func(q *s2.EdgeQuery) s1.ChordAngle { return q.Distance(x) },
			less:   func(q *s2.EdgeQuery, l s1.ChordAngle) bool { return q.IsDistanceLess(x, l) },
			great:  func(q *s2.EdgeQuery, l s1.ChordAngle) bool { return q.IsDistanceGreater(x, l) },
			consle: func(q *s2.EdgeQuery, l s1.ChordAngle) bool { return q.IsConservativeDistanceLessOrEqual(x, l) },
		}
	case *s2.MaxDistanceToShapeIndexTarget:
		return &target{
			find:   func(q *s2.EdgeQuery) []s2.EdgeQueryResult { return q.FindEdges(x) },
			dist:   func(q *s2.EdgeQuery) s1.ChordAngle { return q.Distance(x) },
			less:   func(q *s2.EdgeQuery, l s1.ChordAngle) bool { return q.IsDistanceLess(x, l) },
			great:  func(q *s2.EdgeQuery, l s1.ChordAngle) bool { return q.IsDistanceGreater(x, l) },
			consle: func(q *s2.EdgeQuery, l s1.ChordAngle) bool { return q.IsConservativeDistanceLessOrEqual(x, l) },
		}
	}
	panic("unknown target type")
}

func (g *eqGen) newTarget(t tgtSpec, tidx []*s2.ShapeIndex) *target {
	a, b := ll(t.A[0], t.A[1]), ll(t.B[0], t.B[1])
	switch {
	case t.Kind == "point" && !g.furthest:
		return bind(s2.NewMinDistanceToPointTarget(a))
	case t.Kind == "point":
		return bind(s2.NewMaxDistanceToPointTarget(a))
	case t.Kind == "edge" && !g.furthest:
		return bind(s2.NewMinDistanceToEdgeTarget(s2.Edge{V0: a, V1: b}))
	case t.Kind == "edge":
		return bind(s2.NewMaxDistanceToEdgeTarget(s2.Edge{V0: a, V1: b}))
	case t.Kind == "cell" && !g.furthest:
		return bind(s2.NewMinDistanceToCellTarget(s2.CellFromCellID(s2.CellFromPoint(a).ID().Parent(t.Level))))
	case t.Kind == "cell":
		return bind(s2.NewMaxDistanceToCellTarget(s2.CellFromCellID(s2.CellFromPoint(a).ID().Parent(t.Level))))
	case !g.furthest:
		x := s2.NewMinDistanceToShapeIndexTarget(tidx[t.Idx])
		tg := bind(x)
		tg.inner = x
		return tg
	}
	return bind(s2.NewMaxDistanceToShapeIndexTarget(tidx[t.Idx]))
}

func deg(d float64) s1.ChordAngle { return s1.ChordAngleFromAngle(s1.Angle(d) * s1.Degree) }

func (g *eqGen) newOptions(u userOpts) *s2.EdgeQueryOptions {
	var o *s2.EdgeQueryOptions
	if g.furthest {
		o = s2.NewFurthestEdgeQueryOptions()
	} else {
		o = s2.NewClosestEdgeQueryOptions()
	}
	if u.MaxResults > 0 {
		o.MaxResults(u.MaxResults)
	}
	if u.LimitSet {
		o.DistanceLimit(deg(u.Limit))
	}
	o.MaxError(deg(u.MaxError))
	o.IncludeInteriors(u.Interiors)
	o.UseBruteForce(u.Brute)
	return o
}

func (g *eqGen) newQuery(idx *s2.ShapeIndex, o *s2.EdgeQueryOptions) *s2.EdgeQuery {
	if g.furthest {
		return s2.NewFurthestEdgeQuery(idx, o)
	}
	return s2.NewClosestEdgeQuery(idx, o)
}

func resultsString(rs []s2.EdgeQueryResult) string {
	var s []string
	for _, r := range rs {
		s = append(s, fmt.Sprintf("(%x,%d,%d)", math.Float64bits(float64(r.Distance())), r.ShapeID(), r.EdgeID()))
	}
	return "[" + strings.Join(s, " ") + "]"
}

func distString(rs []s2.EdgeQueryResult) string {
	var s []string
	for _, r := range rs {
		s = append(s, fmt.Sprintf("%x", math.Float64bits(float64(r.Distance()))))
	}
	return "[" + strings.Join(s, " ") + "]"
}

func zbits(c s1.ChordAngle) string {
	return vkit.Z(int64(math.Float64bits(float64(c)))) // the 64 bits, as a signed integer
}

func coqOpts(o s2.VerifC13Opts) string {
	mr := o.MaxResults
	if mr > 1000 {
		mr = 1000 // "unlimited" (MaxInt32 by default): capped on both sides of the comparison
	}
	if mr < 0 {
		mr = 0
	}
	return fmt.Sprintf("(mkOpts %d %s %s %v %v)", mr, zbits(o.DistanceLimit), zbits(o.MaxError), o.IncludeInteriors, o.UseBruteForce)
}

// hookShape: OnEdge runs at every Edge call, i.e. in the middle of any query that looks at the
// shape's edges (an inspection point inside a query, no hook in the library needed).
type hookShape struct {
	s2.Shape
	OnEdge func()
}

func (h *hookShape) Edge(i int) s2.Edge {
	if f := h.OnEdge; f != nil {
		f()
	}
	return h.Shape.Edge(i)
}

func execEdgeQuery(j job, r *result) {
	g := genEdgeQuery(j)
	r.Setup, r.History = g.setup(), g.names()
	idx := s2.NewShapeIndex()
	total := 0
	var hooks []*hookShape
	for _, sp := range g.specs {
		sh := &hookShape{Shape: sp.build()}
		hooks = append(hooks, sh)
		idx.Add(sh)
		total += sh.NumEdges()
	}
	// [S] the options struct a query object points at is shared with every other query object
	// built from the same options value: it must never be written DURING a query either (an
	// override that is restored afterwards is invisible to the before/after comparison).
	inspect := func(f func()) {
		for _, h := range hooks {
			h.OnEdge = f
		}
	}
	if g.prebuilt {
		idx.Build()
	}
	var tidx []*s2.ShapeIndex
	for _, ts := range g.tspecs {
		ti := s2.NewShapeIndex()
		for _, sp := range ts {
			ti.Add(sp.build())
		}
		tidx = append(tidx, ti)
	}
	u := g.u0
	opts := g.newOptions(u)
	q := g.newQuery(idx, opts)
	kept := map[int]*target{} // index target objects kept across calls
	u0coq := coqOpts(s2.VerifC13UserOpts(opts))
	var coqOps []string
	calls, kinds, reinits := 0, map[string]bool{}, 0
	r.Classes = append(r.Classes, fmt.Sprintf("equery:furthest=%v", g.furthest), fmt.Sprintf("equery:brute-size=%v", total <= 25))
	for k, op := range g.ops {
		fail := func(kind, msg string) {
			r.Mismatch = append(r.Mismatch, fmt.Sprintf("op %d %s: %s", k, op, msg))
			r.Kinds = append(r.Kinds, kind)
		}
		var tg *target
		reusedIndexTarget := false
		if op.K != "set" && op.K != "reset" && op.K != "reinit" {
			if op.T.Kind == "index" && op.T.Reuse {
				if kept[op.T.Idx] == nil {
					kept[op.T.Idx] = g.newTarget(op.T, tidx)
				} else {
					reusedIndexTarget = true
				}
				tg = kept[op.T.Idx]
			} else {
				tg = g.newTarget(op.T, tidx)
			}
			calls++
			kinds[op.K] = true
			r.Classes = append(r.Classes, "equery-call:"+op.K+"/"+op.T.Kind)
		}
		kindOf := func() string {
			if reusedIndexTarget {
				return "EdgeQuery.targetMaxErrorSticky"
			}
			return "EdgeQuery.history"
		}
		// the FRESH side: new options object with what the caller set, new query, new target
		freshQ := func(uu userOpts) (*s2.EdgeQuery, *target) {
			return g.newQuery(idx, g.newOptions(uu)), g.newTarget(op.T, tidx)
		}
		lim := deg(op.D)
		if tg != nil {
			expect := s2.VerifC13UserOpts(g.newOptions(u))
			seen := false
			inspect(func() {
				if seen {
					return
				}
				seen = true
				inspect(nil)
				if now := s2.VerifC13UserOpts(opts); now != expect {
					fail("EdgeQuery.optionsWrittenDuringQuery", fmt.Sprintf("in the middle of the call (first edge looked at) the caller's options object holds %+v, the caller set %+v", now, expect))
				}
			})
		}
		switch op.K {
		case "set":
			switch op.Set {
			case "MaxResults":
				opts.MaxResults(op.N)
				u.MaxResults = op.N
				coqOps = append(coqOps, fmt.Sprintf("QSet (SetMaxResults %d)", min(op.N, 1000)))
			case "DistanceLimit":
				opts.DistanceLimit(deg(op.D))
				u.Limit, u.LimitSet = op.D, true
				coqOps = append(coqOps, fmt.Sprintf("QSet (SetLimit %s)", zbits(deg(op.D))))
			case "MaxError":
				opts.MaxError(deg(op.D))
				u.MaxError = op.D
				coqOps = append(coqOps, fmt.Sprintf("QSet (SetMaxError %s)", zbits(deg(op.D))))
			case "IncludeInteriors":
				opts.IncludeInteriors(op.B)
				u.Interiors = op.B
				coqOps = append(coqOps, fmt.Sprintf("QSet (SetInclInt %v)", op.B))
			case "UseBruteForce":
				opts.UseBruteForce(op.B)
				u.Brute = op.B
				coqOps = append(coqOps, fmt.Sprintf("QSet (SetBrute %v)", op.B))
			}
		case "reset":
			q.Reset()
			coqOps = append(coqOps, "QReset")
		case "reinit": // the index changes and the caller re-initialises the query, as the contract demands
			for _, sp := range op.Add {
				sh := &hookShape{Shape: sp.build()}
				hooks = append(hooks, sh)
				idx.Add(sh)
				total += sh.NumEdges()
			}
			q.Reset()
			reinits++
			coqOps = append(coqOps, "QReinit tt")
		case "find":
			got := tg.find(q)
			coqOps = append(coqOps, "QFindEdges tt")
			fq, ft := freshQ(u)
			want := ft.find(fq)
			r.Evals++
			if u.MaxError == 0 && u.MaxResults > 1 && u.MaxResults < 1000 {
				// truncated result list: the k best distances are determined, ties at distance 0
				// (interiors) may be picked in any order
				if distString(got) != distString(want) {
					fail(kindOf(), fmt.Sprintf("%d results at distances %s; a fresh query object with the caller's options returns %d at %s", len(got), distString(got), len(want), distString(want)))
				}
			} else if u.MaxError == 0 && u.MaxResults != 1 {
				if resultsString(got) != resultsString(want) {
					fail(kindOf(), fmt.Sprintf("%d results %s; a fresh query object with the caller's options returns %d results %s", len(got), resultsString(got), len(want), resultsString(want)))
				}
			} else {
				// a permitted error / single result: ties may be broken differently; compare what is determined
				if (len(got) == 0) != (len(want) == 0) || (u.MaxResults > 0 && len(got) > u.MaxResults) {
					fail(kindOf(), fmt.Sprintf("%d results; a fresh query object with the caller's options returns %d", len(got), len(want)))
				} else if u.MaxError == 0 && len(got) > 0 && got[0].Distance() != want[0].Distance() {
					fail(kindOf(), fmt.Sprintf("best distance %v; a fresh query object with the caller's options finds %v", got[0].Distance().Angle(), want[0].Distance().Angle()))
				}
			}
			if u.MaxError == 0 && u.MaxResults != 1 && !u.Brute {
				bu := u
				bu.Brute = true
				bq, bt := freshQ(bu)
				if bw := bt.find(bq); distString(got) != distString(bw) {
					fail(kindOf(), fmt.Sprintf("%d results at distances %s; a fresh BRUTE-FORCE query with the caller's options returns %d at %s", len(got), distString(got), len(bw), distString(bw)))
				}
			}
		case "dist":
			got := tg.dist(q)
			coqOps = append(coqOps, "QDistance tt")
			if u.MaxError == 0 && !u.Brute {
				bu := u
				bu.Brute = true
				bq, bt := freshQ(bu)
				if bw := bt.dist(bq); got != bw {
					fail(kindOf(), fmt.Sprintf("Distance = %v; a fresh BRUTE-FORCE query with the caller's options gives %v", got.Angle(), bw.Angle()))
				}
			}
			exact := u
			exact.MaxError = 0
			fq, ft := freshQ(exact)
			want := ft.dist(fq)
			r.Evals++
			tol := (s1.Angle(u.MaxError)*s1.Degree + 1e-9).Radians()
			g1, w1 := got.Angle().Radians(), want.Angle().Radians()
			bad := got != want
			if u.MaxError > 0 { // within the error the caller allowed, on the permitted side
				if g.furthest {
					bad = g1 > w1+1e-9 || g1 < w1-tol
				} else {
					bad = g1 < w1-1e-9 || g1 > w1+tol
				}
				if math.IsInf(g1, 0) || math.IsInf(w1, 0) || got < 0 || want < 0 {
					bad = (got != want)
				}
			}
			if bad {
				fail(kindOf(), fmt.Sprintf("Distance = %v (%x); a fresh query object with the caller's options (and no permitted error) gives %v (%x)", got.Angle(), math.Float64bits(float64(got)), want.Angle(), math.Float64bits(float64(want))))
			}
		case "less", "greater", "consle":
			var got, want bool
			fq, ft := freshQ(u)
			switch op.K {
			case "less":
				got, want = tg.less(q, lim), ft.less(fq, lim)
				coqOps = append(coqOps, fmt.Sprintf("QIsLess tt %s", zbits(lim)))
			case "greater":
				got, want = tg.great(q, lim), ft.great(fq, lim)
				coqOps = append(coqOps, fmt.Sprintf("QIsGreater tt %s", zbits(lim)))
			default:
				got, want = tg.consle(q, lim), ft.consle(fq, lim)
				coqOps = append(coqOps, fmt.Sprintf("QIsConsLE tt %s", zbits(lim)))
			}
			r.Evals++
			if got != want {
				fail(kindOf(), fmt.Sprintf("answer %v; a fresh query object with the caller's options answers %v", got, want))
			}
		}
		inspect(nil)
		// the caller's options object still holds exactly what the caller set
		have := s2.VerifC13UserOpts(opts)
		wantO := s2.VerifC13UserOpts(g.newOptions(u))
		if have != wantO {
			fail("EdgeQuery.optionLeak", fmt.Sprintf("the caller's options object now holds %+v, the caller set %+v", have, wantO))
		}
		if _, same := s2.VerifC13QueryOpts(q, opts); !same {
			fail("EdgeQuery.optionLeak", "the query no longer points at the caller's options object")
		}
		// cached edge count: exact when below its limit, otherwise at least the limit
		ne, nl, cov := s2.VerifC13QueryCache(q)
		if !((nl <= ne && ne <= total) || (ne == total && total < nl)) {
			fail("EdgeQuery.cache", fmt.Sprintf("cached edge count %d with limit %d, the index has %d edges", ne, nl, total))
		}
		if len(cov) > 0 {
			fq := g.newQuery(idx, g.newOptions(userOpts{MaxResults: 3, Interiors: false}))
			fq.FindEdges(s2.NewMinDistanceToPointTarget(ll(1, 1)))
			if _, _, fc := s2.VerifC13QueryCache(fq); len(fc) > 0 && fmt.Sprint(fc) != fmt.Sprint(cov) {
				fail("EdgeQuery.cache", fmt.Sprintf("cached covering %v, a fresh query computes %v", cov, fc))
			}
		}
	}
	if reinits > 0 {
		r.Classes = append(r.Classes, "equery:index-changed-then-Reset")
	}
	r.Nontriv = calls >= 2 && len(kinds) >= 2
	_, alias := s2.VerifC13QueryOpts(q, opts)
	r.Cases = append(r.Cases, fmt.Sprintf("eq_case %s %s [%s] %s %v", zbits(s1.StraightChordAngle), u0coq, strings.Join(coqOps, "; "), coqOpts(s2.VerifC13UserOpts(opts)), alias))
	r.Labels = append(r.Labels, fmt.Sprintf("edge query history seed=%d %v", j.Seed, r.History))
}
