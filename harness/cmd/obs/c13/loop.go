package main

import (
	"fmt"
	"math"
	"strings"

	"github.com/golang/geo/s1"
	"github.com/golang/geo/s2"
	"verifharness/internal/vkit"
)

// ---- loop histories -----------------------------------------------------------------------

type loopGen struct {
	spec   shapeSpec // Kind "empty"/"full" for the special loops
	ops    []string  // invert | build | query | brute
	probes []s2.Point
	cells  []s2.Cell
}

func (g *loopGen) setup() string   { return g.spec.String() }
func (g *loopGen) names() []string { return g.ops }

func (g *loopGen) vertices() []s2.Point {
	switch g.spec.Kind {
	case "empty":
		return append([]s2.Point{}, s2.EmptyLoop().Vertices()...)
	case "full":
		return append([]s2.Point{}, s2.FullLoop().Vertices()...)
	}
	return append([]s2.Point{}, g.spec.loop().Vertices()...)
}

func genLoop(j job) *loopGen {
	rng := vkit.NewRng(j.Seed)
	g := &loopGen{spec: shapeSpec{Kind: "loop", Lat: rng.Range(-40, 40), Lng: rng.Range(-60, 60), R: rng.Range(2, 25)}}
	switch rng.Intn(10) {
	case 0, 1, 2:
		g.spec.N = 4
	case 3:
		g.spec.N = 32 // the brute-force threshold itself
	case 4:
		g.spec.N = 33
	case 5, 6, 7, 8:
		g.spec.N = 100
	default:
		g.spec.N = 1
		g.spec.Kind = []string{"empty", "full"}[rng.Intn(2)]
	}
	if rng.Intn(6) == 0 && g.spec.N > 1 {
		g.spec.Lat = 89.5 - rng.Range(0, 3) // around / near the north pole: bound handling in Invert
	}
	c := ll(g.spec.Lat, g.spec.Lng)
	g.probes = []s2.Point{c, s2.Point{Vector: c.Mul(-1)}, ll(g.spec.Lat+0.5*g.spec.R, g.spec.Lng), ll(g.spec.Lat-1.4*g.spec.R, g.spec.Lng+1),
		ll(90, 0), ll(-90, 0), s2.OriginPoint(), ll(0, 0), ll(rng.Range(-80, 80), rng.Range(-170, 170)), ll(rng.Range(-80, 80), rng.Range(-170, 170))}
	if g.spec.N > 1 {
		g.probes = append(g.probes, g.spec.loop().Vertex(0), g.spec.loop().Vertex(1))
	}
	cid := s2.CellFromPoint(c).ID()
	for _, lvl := range []int{0, 2, 5, 8, 12} {
		g.cells = append(g.cells, s2.CellFromCellID(cid.Parent(lvl)))
	}
	g.cells = append(g.cells, s2.CellFromCellID(s2.CellFromPoint(g.probes[3]).ID().Parent(6)), s2.CellFromCellID(s2.CellIDFromFace(rng.Intn(6))))
	if j.Seed>>63 == 1 { // corpus: loop_reset_old_refuted
		g.spec.N, g.spec.Kind = 100, "loop"
		switch j.Seed & 0xff {
		case 1:
			g.ops = []string{"query", "invert", "query"}
		case 2:
			g.ops = []string{"build", "invert", "invert", "query"}
		default:
			g.spec.N = 4
			g.ops = []string{"query", "invert", "brute", "query", "invert", "query"}
		}
		g.ops = applyKeep(g.ops, j.Keep)
		return g
	}
	n := 1 + rng.Intn(30)
	inv := 0
	for len(g.ops) < n {
		switch x := rng.Intn(100); {
		case x < 28:
			if inv < 8 {
				g.ops = append(g.ops, "invert")
				inv++
			}
		case x < 42:
			g.ops = append(g.ops, "build")
		case x < 80 || g.spec.N > 32:
			g.ops = append(g.ops, "query")
		default:
			g.ops = append(g.ops, "brute")
		}
	}
	g.ops = applyKeep(g.ops, j.Keep)
	return g
}

func (g *loopGen) others() []*s2.Loop {
	c := ll(g.spec.Lat, g.spec.Lng)
	return []*s2.Loop{
		s2.RegularLoop(c, s1.Angle(0.4*g.spec.R)*s1.Degree, 50),
		s2.RegularLoop(ll(g.spec.Lat+0.9*g.spec.R, g.spec.Lng), s1.Angle(0.5*g.spec.R)*s1.Degree, 40),
	}
}

// loopAnswers: index-backed queries (indexed=true) or only brute-force-capable ones.
func (g *loopGen) loopAnswers(l *s2.Loop, indexed bool) []string {
	var out []string
	for _, p := range g.probes {
		out = append(out, fmt.Sprintf("ContainsPoint=%v", l.ContainsPoint(p)))
	}
	if !indexed {
		return out
	}
	for _, c := range g.cells {
		out = append(out, fmt.Sprintf("ContainsCell=%v IntersectsCell=%v", l.ContainsCell(c), l.IntersectsCell(c)))
	}
	if l.NumVertices() > 1 {
		for _, o := range g.others() {
			out = append(out, fmt.Sprintf("Contains(o)=%v Intersects(o)=%v o.Contains(l)=%v", l.Contains(o), l.Intersects(o), o.Contains(l)))
		}
	}
	return out
}

func execLoop(j job, r *result) {
	g := genLoop(j)
	r.Setup, r.History = g.setup(), g.names()
	vs0 := g.vertices()
	l := s2.LoopFromPoints(append([]s2.Point{}, vs0...))
	code := func(p s2.Point) int {
		if len(vs0) == 1 {
			if p == s2.EmptyLoop().Vertex(0) {
				return 1000
			}
			if p == s2.FullLoop().Vertex(0) {
				return 1001
			}
		}
		for i, v := range vs0 {
			if v == p {
				return i
			}
		}
		return 999
	}
	codes := func(ps []s2.Point) string {
		var s []string
		for _, p := range ps {
			s = append(s, fmt.Sprint(code(p)))
		}
		return "[" + strings.Join(s, "; ") + "]"
	}
	oi0 := l.ContainsOrigin()
	v0 := codes(l.Vertices())
	var coqOps, coqObs []string
	inverts, built, invertAfterBuild := 0, false, false
	r.Classes = append(r.Classes, fmt.Sprintf("loop:n=%d", len(vs0)))
	for k, op := range g.ops {
		switch op {
		case "invert":
			l.Invert()
			inverts++
			if built {
				invertAfterBuild = true
			}
			coqOps = append(coqOps, "LInvert")
		case "build":
			s2.VerifC13LoopIndex(l).Build()
			built = true
			coqOps = append(coqOps, "LBuild")
		case "query", "brute":
			indexed := op == "query"
			got := g.loopAnswers(l, indexed)
			fresh := s2.LoopFromPoints(append([]s2.Point{}, l.Vertices()...))
			want := g.loopAnswers(fresh, indexed)
			r.Evals++
			for i := range got {
				if got[i] != want[i] {
					r.Mismatch = append(r.Mismatch, fmt.Sprintf("op %d (%s) after %d Invert(s), probe %d: loop answers {%s}; a fresh loop built from its current vertices answers {%s}", k, op, inverts, i, got[i], want[i]))
					r.Kinds = append(r.Kinds, "Loop.Invert.history")
					break
				}
			}
			if l.ContainsOrigin() != fresh.ContainsOrigin() {
				r.Mismatch = append(r.Mismatch, fmt.Sprintf("op %d after %d Invert(s): originInside=%v, a fresh loop from the same vertices has %v", k, inverts, l.ContainsOrigin(), fresh.ContainsOrigin()))
				r.Kinds = append(r.Kinds, "Loop.Invert.originInside")
			}
			for i, p := range g.probes {
				if got[i] == "ContainsPoint=true" && !l.RectBound().ContainsPoint(p) {
					r.Mismatch = append(r.Mismatch, fmt.Sprintf("op %d after %d Invert(s): probe %d is contained but outside RectBound()", k, inverts, i))
					r.Kinds = append(r.Kinds, "Loop.Invert.bound")
				}
			}
			ids := "[0]"
			if indexed {
				built = true
				st := s2.VerifC13IndexState(s2.VerifC13LoopIndex(l))
				ids = coqNatList(st.CellShapeIDs)
				if len(st.CellShapeIDs) == 0 && l.NumEdges() == 0 && st.PendingPos > 0 {
					ids = "[0]" // an edgeless, empty shape leaves no cell although it has been indexed
				}
				if len(st.CellShapeIDs) == 0 && l.IsEmpty() && st.PendingPos > 0 {
					ids = "[0]"
				}
				if st.NumShapes != 1 {
					r.Mismatch = append(r.Mismatch, fmt.Sprintf("op %d after %d Invert(s): the loop's own index holds %d shapes", k, inverts, st.NumShapes))
					r.Kinds = append(r.Kinds, "Loop.Invert.index")
				}
				coqOps = append(coqOps, "LQuery")
			} else {
				coqOps = append(coqOps, "LBrute")
			}
			coqObs = append(coqObs, fmt.Sprintf("(%s, %v, %s)", codes(l.Vertices()), l.ContainsOrigin(), ids))
		}
	}
	r.Nontriv = invertAfterBuild
	if invertAfterBuild {
		r.Classes = append(r.Classes, "loop:invert-after-build")
	}
	r.Classes = append(r.Classes, fmt.Sprintf("loop:inverts=%d", inverts))
	r.Cases = append(r.Cases, fmt.Sprintf("loop_case %s %v [%s] 0 [%s]", v0, oi0, strings.Join(coqOps, "; "), strings.Join(coqObs, "; ")))
	r.Labels = append(r.Labels, fmt.Sprintf("loop history seed=%d %s %v", j.Seed, r.Setup, r.History))
}

// ---- polygon histories --------------------------------------------------------------------

type polyGen struct {
	specs  []shapeSpec
	ops    []string // invert | build | query
	probes []s2.Point
	cells  []s2.Cell
}

func (g *polyGen) setup() string {
	var s []string
	for _, sp := range g.specs {
		s = append(s, sp.String())
	}
	return strings.Join(s, " ")
}
func (g *polyGen) names() []string { return g.ops }

func genPolygon(j job) *polyGen {
	rng := vkit.NewRng(j.Seed)
	g := &polyGen{}
	if rng.Intn(5) < 2 {
		return genManyLoopPolygon(j, rng, g)
	}
	n := []int{4, 40, 100}[rng.Intn(3)]
	shell := shapeSpec{Kind: "loop", Lat: rng.Range(-30, 30), Lng: rng.Range(-50, 50), R: rng.Range(5, 20), N: n}
	g.specs = append(g.specs, shell)
	if rng.Bool() { // a hole
		g.specs = append(g.specs, shapeSpec{Kind: "loop", Lat: shell.Lat, Lng: shell.Lng, R: shell.R * 0.4, N: []int{4, 30}[rng.Intn(2)]})
	}
	if rng.Bool() { // a second shell far away
		g.specs = append(g.specs, shapeSpec{Kind: "loop", Lat: -shell.Lat + 40, Lng: shell.Lng + 100, R: rng.Range(3, 10), N: []int{4, 60}[rng.Intn(2)]})
	}
	for _, sp := range g.specs {
		g.probes = append(g.probes, ll(sp.Lat+0.01, sp.Lng+0.02), ll(sp.Lat+0.7*sp.R, sp.Lng+0.03), ll(sp.Lat+1.2*sp.R, sp.Lng+0.04))
	}
	for k := 0; k < 6; k++ {
		g.probes = append(g.probes, ll(rng.Range(-85, 85), rng.Range(-175, 175)))
	}
	cid := s2.CellFromPoint(ll(shell.Lat, shell.Lng)).ID()
	for _, lvl := range []int{1, 4, 7, 10} {
		g.cells = append(g.cells, s2.CellFromCellID(cid.Parent(lvl)))
	}
	m := 1 + rng.Intn(14)
	for len(g.ops) < m {
		switch x := rng.Intn(100); {
		case x < 35:
			g.ops = append(g.ops, "invert")
		case x < 50:
			g.ops = append(g.ops, "build")
		default:
			g.ops = append(g.ops, "query")
		}
	}
	g.ops = applyKeep(g.ops, j.Keep)
	return g
}

// genManyLoopPolygon: 13..30 disjoint shells of different sizes and vertex counts on a grid
// (more than 12 loops: the polygon keeps a table of per-loop edge offsets), the largest one
// NOT first, so that Invert (which moves the inverted largest shell to the front) reorders them.
func genManyLoopPolygon(j job, rng *vkit.Rng, g *polyGen) *polyGen {
	k := 13 + rng.Intn(18)
	big := 1 + rng.Intn(k-1)
	lat0, lng0 := rng.Range(-30, -10), rng.Range(-60, -30)
	for i := 0; i < k; i++ {
		sp := shapeSpec{Kind: "loop", Lat: lat0 + 9*float64(i/6), Lng: lng0 + 9*float64(i%6), R: rng.Range(0.8, 2.5), N: 3 + rng.Intn(9)}
		if i == big {
			sp.R, sp.N = 3.9, 20+rng.Intn(30)
		}
		g.specs = append(g.specs, sp)
	}
	for i, sp := range g.specs {
		if i%3 == 0 || i == big {
			g.probes = append(g.probes, ll(sp.Lat+0.01, sp.Lng+0.02), ll(sp.Lat+1.3*sp.R, sp.Lng+0.04))
		}
	}
	for q := 0; q < 6; q++ {
		g.probes = append(g.probes, ll(rng.Range(-85, 85), rng.Range(-175, 175)))
	}
	cid := s2.CellFromPoint(ll(g.specs[big].Lat, g.specs[big].Lng)).ID()
	for _, lvl := range []int{3, 6, 9} {
		g.cells = append(g.cells, s2.CellFromCellID(cid.Parent(lvl)))
	}
	g.ops = []string{"query"}
	for inv := 1 + rng.Intn(3); inv > 0; inv-- {
		g.ops = append(g.ops, "invert")
		if rng.Bool() {
			g.ops = append(g.ops, []string{"build", "query"}[rng.Intn(2)])
		}
	}
	g.ops = append(g.ops, "query")
	g.ops = applyKeep(g.ops, j.Keep)
	return g
}

// shapeView: everything the Shape interface of a polygon exposes, against (a) the same calls on
// a fresh polygon and (b) offsets recomputed from Loops() by the harness.
func polygonShapeProblems(p, fresh *s2.Polygon) []string {
	var out []string
	sameOrder := p.NumLoops() == fresh.NumLoops()
	for i := 0; sameOrder && i < p.NumLoops(); i++ {
		a, b := p.Loop(i).Vertices(), fresh.Loop(i).Vertices()
		sameOrder = len(a) == len(b) && (len(a) == 0 || a[0] == b[0])
	}
	if p.NumEdges() != fresh.NumEdges() || p.NumChains() != fresh.NumChains() {
		return []string{fmt.Sprintf("NumEdges/NumChains = %d/%d, fresh polygon %d/%d", p.NumEdges(), p.NumChains(), fresh.NumEdges(), fresh.NumChains())}
	}
	off := 0
	for i, l := range p.Loops() {
		n := l.NumVertices()
		if n == 1 { // full loop: a chain without edges
			continue
		}
		if c := p.Chain(i); c.Start != off || c.Length != n {
			out = append(out, fmt.Sprintf("Chain(%d) = {%d %d}, its loops say {%d %d}", i, c.Start, c.Length, off, n))
		}
		for k := 0; k < n; k++ {
			e := off + k
			want := s2.Edge{V0: l.OrientedVertex(k), V1: l.OrientedVertex(k + 1)}
			if got := p.Edge(e); got != want {
				out = append(out, fmt.Sprintf("Edge(%d) is not edge %d of loop %d", e, k, i))
			}
			if cp := p.ChainPosition(e); cp.ChainID != i || cp.Offset != k {
				out = append(out, fmt.Sprintf("ChainPosition(%d) = {%d %d}, its loops say {%d %d}", e, cp.ChainID, cp.Offset, i, k))
			}
			if sameOrder {
				if p.Edge(e) != fresh.Edge(e) || p.ChainPosition(e) != fresh.ChainPosition(e) {
					out = append(out, fmt.Sprintf("Edge(%d)/ChainPosition(%d) differ from the fresh polygon's", e, e))
				}
			}
			if len(out) > 3 {
				return out
			}
		}
		if sameOrder && p.Chain(i) != fresh.Chain(i) {
			out = append(out, fmt.Sprintf("Chain(%d) = %v, fresh polygon %v", i, p.Chain(i), fresh.Chain(i)))
		}
		off += n
	}
	return out
}

// external index holding the polygon as a shape: ContainsPointQuery / CrossingEdgeQuery / EdgeQuery
func (g *polyGen) indexedAnswers(p *s2.Polygon) []string {
	ix := s2.NewShapeIndex()
	ix.Add(p)
	q := s2.NewContainsPointQuery(ix, s2.VertexModelSemiOpen)
	var out []string
	for i, pt := range g.probes {
		s := fmt.Sprintf("ContainsPointQuery=%v", q.Contains(pt))
		if i+1 < len(g.probes) {
			es := append([]int{}, s2.NewCrossingEdgeQuery(ix).Crossings(pt, g.probes[i+1], p, s2.CrossingTypeAll)...)
			s += fmt.Sprintf(" crossings=%d", len(es))
		}
		if i%4 == 0 {
			d := s2.NewClosestEdgeQuery(ix, s2.NewClosestEdgeQueryOptions().IncludeInteriors(false)).Distance(s2.NewMinDistanceToPointTarget(pt))
			s += fmt.Sprintf(" dist=%x", math.Float64bits(float64(d)))
		}
		out = append(out, s)
	}
	return out
}

func (g *polyGen) build() *s2.Polygon {
	var ls []*s2.Loop
	for _, sp := range g.specs {
		ls = append(ls, sp.loop())
	}
	return s2.PolygonFromLoops(ls)
}

func (g *polyGen) answers(p *s2.Polygon) (pts []bool, rest []string) {
	for _, q := range g.probes {
		pts = append(pts, p.ContainsPoint(q))
	}
	for _, c := range g.cells {
		rest = append(rest, fmt.Sprintf("ContainsCell=%v IntersectsCell=%v", p.ContainsCell(c), p.IntersectsCell(c)))
	}
	return
}

func execPolygon(j job, r *result) {
	g := genPolygon(j)
	r.Setup, r.History = g.setup(), g.names()
	p := g.build()
	base, _ := g.answers(g.build())
	inverts, built := 0, false
	for k, op := range g.ops {
		switch op {
		case "invert":
			p.Invert()
			inverts++
			if built {
				r.Nontriv = true
			}
		case "build":
			if ix := s2.VerifC13PolygonIndex(p); ix != nil {
				ix.Build()
			}
			built = true
		case "query":
			built = true
			gotP, gotR := g.answers(p)
			r.Evals++
			// oracle 1: the complement, k times
			for i := range gotP {
				if gotP[i] != (base[i] != (inverts%2 == 1)) {
					r.Mismatch = append(r.Mismatch, fmt.Sprintf("op %d after %d Invert(s): ContainsPoint(probe %d)=%v, the untouched polygon says %v", k, inverts, i, gotP[i], base[i]))
					r.Kinds = append(r.Kinds, "Polygon.Invert.history")
					break
				}
			}
			// oracle 2: a fresh polygon assembled from copies of the current loops
			var ls []*s2.Loop
			for _, l := range p.Loops() {
				ls = append(ls, s2.LoopFromPoints(append([]s2.Point{}, l.Vertices()...)))
			}
			fresh := s2.PolygonFromLoops(ls)
			wantP, wantR := g.answers(fresh)
			for _, msg := range polygonShapeProblems(p, fresh) {
				r.Mismatch = append(r.Mismatch, fmt.Sprintf("op %d after %d Invert(s), polygon of %d loops: %s", k, inverts, p.NumLoops(), msg))
				r.Kinds = append(r.Kinds, "Polygon.Invert.shape")
			}
			if gi, wi := g.indexedAnswers(p), g.indexedAnswers(fresh); true {
				for i := range gi {
					if gi[i] != wi[i] {
						r.Mismatch = append(r.Mismatch, fmt.Sprintf("op %d after %d Invert(s), probe %d, polygon as a shape in an index: {%s}, a fresh polygon from copies of its loops: {%s}", k, inverts, i, gi[i], wi[i]))
						r.Kinds = append(r.Kinds, "Polygon.Invert.history")
						break
					}
				}
			}
			for i := range gotP {
				if gotP[i] != wantP[i] {
					r.Mismatch = append(r.Mismatch, fmt.Sprintf("op %d after %d Invert(s): ContainsPoint(probe %d)=%v, a fresh polygon from copies of its loops says %v", k, inverts, i, gotP[i], wantP[i]))
					r.Kinds = append(r.Kinds, "Polygon.Invert.history")
					break
				}
			}
			for i := range gotR {
				if gotR[i] != wantR[i] {
					r.Mismatch = append(r.Mismatch, fmt.Sprintf("op %d after %d Invert(s), cell %d: {%s}, a fresh polygon from copies of its loops says {%s}", k, inverts, i, gotR[i], wantR[i]))
					r.Kinds = append(r.Kinds, "Polygon.Invert.history")
					break
				}
			}
			if ix := s2.VerifC13PolygonIndex(p); ix != nil {
				st := s2.VerifC13IndexState(ix)
				if st.NumShapes != 1 || (p.NumEdges() > 0 && (len(st.CellShapeIDs) != 1 || st.CellShapeIDs[0] != 0)) {
					r.Mismatch = append(r.Mismatch, fmt.Sprintf("op %d after %d Invert(s): polygon index holds %d shapes, cell map ids %v", k, inverts, st.NumShapes, st.CellShapeIDs))
					r.Kinds = append(r.Kinds, "Polygon.Invert.index")
				}
			}
		}
	}
	r.Classes = append(r.Classes, fmt.Sprintf("polygon:loops=%d", len(g.specs)), fmt.Sprintf("polygon:inverts=%d", inverts))
}
