// Observer for C13 "answers depend on current geometry and options only, never on call history".
//
// Random operation histories are run on the REAL objects (ShapeIndex, Loop, Polygon, EdgeQuery,
// ContainsPointQuery, CrossingEdgeQuery). Every history runs in a child process (this binary
// re-executed with -child) under a watchdog, so that a self-deadlock (Go's fatal "all
// goroutines are asleep", or a timeout) or an unrecoverable runtime error is an OUTCOME
// (Hang / Panic) instead of the end of the run.
//
// [S] oracle: the same final state reached by the shortest sequence on FRESH objects.
// [T] correspondence: Model/Lazy.v's machines run on the same history inside coqc.
package main

import (
	"bufio"
	"bytes"
	"encoding/json"
	"fmt"
	"os"
	"os/exec"
	"strings"
	"time"

	"verifharness/internal/vkit"
)

// A job is one history, identified by (kind, seed): parent and child generate the same
// history from the seed. Keep, when non-nil, selects the operations to keep (shrinking).
type job struct {
	ID   int    `json:"id"`
	Kind string `json:"kind"` // index | loop | polygon | equery
	Seed uint64 `json:"seed"`
	Keep []int  `json:"keep,omitempty"`
}

// What the child reports for one history.
type result struct {
	ID       int      `json:"id"`
	History  []string `json:"history"`  // readable operation list (the replay)
	Setup    string   `json:"setup"`    // shapes / vertices / options the history starts from
	Panic    string   `json:"panic"`    // recovered panic, if any
	Mismatch []string `json:"mismatch"` // [S]: answers that differ from the fresh objects
	Kinds    []string `json:"kinds"`    // violation kind per mismatch
	Cases    []string `json:"cases"`    // [T]: Coq bool terms
	Labels   []string `json:"labels"`
	Classes  []string `json:"classes"` // input-distribution counters
	Evals    int      `json:"evals"`
	Nontriv  bool     `json:"nontrivial"`
}

func main() {
	if len(os.Args) > 1 && os.Args[1] == "-child" {
		childMain()
		return
	}
	vkit.Main("C13", []string{"Model.Lazy", "Proofs.C13_Index", "Proofs.C13_Loop", "Proofs.C13_EdgeQuery"}, run)
}

func childMain() {
	var jobs []job
	if err := json.NewDecoder(os.Stdin).Decode(&jobs); err != nil {
		fmt.Fprintln(os.Stderr, "child: bad input:", err)
		os.Exit(3)
	}
	w := bufio.NewWriter(os.Stdout)
	for _, j := range jobs {
		r := runJob(j)
		b, _ := json.Marshal(r)
		w.Write(b)
		w.WriteByte('\n')
		w.Flush()
	}
}

func runJob(j job) (r result) {
	r.ID = j.ID
	defer func() {
		if e := recover(); e != nil {
			r.Panic = fmt.Sprint(e)
		}
	}()
	switch j.Kind {
	case "index":
		execIndex(j, &r)
	case "loop":
		execLoop(j, &r)
	case "polygon":
		execPolygon(j, &r)
	case "equery":
		execEdgeQuery(j, &r)
	}
	return r
}

// describe regenerates the readable history of a job without executing it (for replays of
// histories whose execution did not come back).
func describe(j job) (setup string, hist []string) {
	switch j.Kind {
	case "index":
		g := genIndex(j)
		return g.setup(), g.names()
	case "loop":
		g := genLoop(j)
		return g.setup(), g.names()
	case "polygon":
		g := genPolygon(j)
		return g.setup(), g.names()
	case "equery":
		g := genEdgeQuery(j)
		return g.setup(), g.names()
	}
	return "", nil
}

type outcome struct {
	res    *result
	class  string // ok | hang | panic
	detail string
}

// runBatch runs jobs in child processes; a child that dies or exceeds the watchdog marks the
// first unanswered job Hang/Panic and the rest is re-run in a new child.
func runBatch(jobs []job, perJob time.Duration) map[int]outcome {
	out := map[int]outcome{}
	pending := jobs
	for len(pending) > 0 {
		in, _ := json.Marshal(pending)
		cmd := exec.Command(os.Args[0], "-child")
		cmd.Stdin = bytes.NewReader(in)
		var so, se bytes.Buffer
		cmd.Stdout, cmd.Stderr = &so, &se
		if err := cmd.Start(); err != nil {
			panic(err)
		}
		done := make(chan error, 1)
		go func() { done <- cmd.Wait() }()
		// watchdog: 10 s for the history that is stuck + a generous allowance for the others
		limit := 10*time.Second + time.Duration(len(pending))*perJob
		timedOut := false
		var werr error
		select {
		case werr = <-done:
		case <-time.After(limit):
			timedOut = true
			cmd.Process.Kill()
			<-done
		}
		answered := map[int]bool{}
		sc := bufio.NewScanner(&so)
		sc.Buffer(make([]byte, 1<<20), 1<<28)
		for sc.Scan() {
			var r result
			if json.Unmarshal(sc.Bytes(), &r) == nil {
				rr := r
				cls := "ok"
				if r.Panic != "" {
					cls = "panic"
				}
				out[r.ID] = outcome{&rr, cls, r.Panic}
				answered[r.ID] = true
			}
		}
		var rest []job
		culprit := -1
		for i, j := range pending {
			if !answered[j.ID] {
				culprit = i
				break
			}
		}
		if culprit < 0 {
			break
		}
		stderr := se.String()
		cls, det := "panic", lastLines(stderr, 12)
		if timedOut || strings.Contains(stderr, "all goroutines are asleep") {
			cls = "hang"
			if timedOut {
				det = "watchdog: no answer within " + limit.String()
			}
		} else if werr == nil {
			det = "child exited without an answer"
		}
		out[pending[culprit].ID] = outcome{nil, cls, det}
		for _, j := range pending[culprit+1:] {
			if !answered[j.ID] {
				rest = append(rest, j)
			}
		}
		pending = rest
	}
	return out
}

func lastLines(s string, n int) string {
	ls := strings.Split(strings.TrimSpace(s), "\n")
	// the interesting part of a Go fatal error is at the top
	if len(ls) > n {
		ls = ls[:n]
	}
	return strings.Join(ls, " | ")
}

// failing reports whether a job (possibly reduced) still fails, and how.
func failing(j job) (bool, outcome) {
	o := runBatch([]job{j}, 200*time.Millisecond)[j.ID]
	if o.class != "ok" {
		return true, o
	}
	return len(o.res.Mismatch) > 0, o
}

// shrink drops operations one at a time while the history keeps failing (bounded effort).
func shrink(j job, nops int, deadline time.Time) (job, outcome) {
	keep := make([]int, nops)
	for i := range keep {
		keep[i] = i
	}
	best := j
	best.Keep = keep
	_, bo := failing(best)
	for i := len(keep) - 1; i >= 0 && time.Now().Before(deadline); i-- {
		if i >= len(best.Keep) {
			continue
		}
		trial := best
		trial.Keep = append(append([]int{}, best.Keep[:i]...), best.Keep[i+1:]...)
		if f, o := failing(trial); f {
			best, bo = trial, o
		}
	}
	return best, bo
}

func run(c *vkit.Collector, rng *vkit.Rng, budget int) {
	counts := []struct {
		kind string
		n    int
	}{{"index", 160}, {"loop", 90}, {"polygon", 45}, {"equery", 70}}
	var jobs []job
	id := 0
	for _, k := range counts {
		for i := 0; i < k.n*budget; i++ {
			jobs = append(jobs, job{ID: id, Kind: k.kind, Seed: rng.U64() >> 1}) // top bit clear: random history
			id++
		}
	}
	// fixed regression histories first (the witnesses of the refuted theorems)
	for _, k := range []string{"index", "loop", "equery"} {
		for s := uint64(1); s <= 4; s++ {
			jobs = append(jobs, job{ID: id, Kind: k, Seed: s | 1<<63}) // top bit: corpus history
			id++
		}
	}
	res := map[int]outcome{}
	const chunk = 60
	for i := 0; i < len(jobs); i += chunk {
		j := i + chunk
		if j > len(jobs) {
			j = len(jobs)
		}
		for k, v := range runBatch(jobs[i:j], 150*time.Millisecond) {
			res[k] = v
		}
	}
	shrinkBudget := time.Now().Add(25 * time.Second)
	shrunk := 0
	for _, j := range jobs {
		o, ok := res[j.ID]
		if !ok {
			continue
		}
		c.Class("history:" + j.Kind)
		c.Class("outcome:" + o.class)
		if o.class != "ok" {
			setup, hist := describe(j)
			jj, oo := j, o
			if shrunk < 3 {
				shrunk++
				jj, oo = shrink(j, len(hist), shrinkBudget)
				if oo.class == "ok" && (oo.res == nil || len(oo.res.Mismatch) == 0) {
					jj, oo = j, o
				}
				setup, hist = describe(jj)
			}
			kind := map[string]string{"index": "ShapeIndex", "loop": "Loop.Invert", "polygon": "Polygon.Invert", "equery": "EdgeQuery"}[j.Kind] + "." + oo.class
			if oo.class == "ok" { // shrinking turned a hang into a plain mismatch
				kind = oo.res.Kinds[0]
			}
			c.Violate(kind, fmt.Sprintf("history on a %s ends in %s: %s", j.Kind, oo.class, oo.detail),
				map[string]interface{}{"kind": j.Kind, "seed": j.Seed, "keep": jj.Keep, "setup": setup, "history": hist, "detail": oo.detail})
			// [T]: the model says Ok for every history
			c.Check(fmt.Sprintf("%s outcome class seed=%d", j.Kind, j.Seed), "false")
			continue
		}
		r := o.res
		for _, cl := range r.Classes {
			c.Class(cl)
		}
		for k := 0; k < r.Evals; k++ {
			c.Eval(fmt.Sprintf("%s/%d/%d", j.Kind, j.Seed, k), r.Nontriv)
		}
		c.Sample(map[string]interface{}{"kind": j.Kind, "setup": r.Setup, "history": r.History})
		for k, t := range r.Cases {
			c.Check(r.Labels[k], t)
		}
		if len(r.Mismatch) > 0 {
			jj, rr := j, r
			if shrunk < 3 {
				shrunk++
				sj, so := shrink(j, len(r.History), shrinkBudget)
				if so.class == "ok" && so.res != nil && len(so.res.Mismatch) > 0 {
					jj, rr = sj, so.res
				}
			}
			c.Violate(rr.Kinds[0], rr.Mismatch[0],
				map[string]interface{}{"kind": j.Kind, "seed": j.Seed, "keep": jj.Keep, "setup": rr.Setup, "history": rr.History, "all": rr.Mismatch})
		}
	}
}
