package main

import (
	"fmt"
	"sort"
	"strings"

	"github.com/golang/geo/s1"
	"github.com/golang/geo/s2"
	"verifharness/internal/vkit"
)

// ---- shapes -------------------------------------------------------------------------------

type shapeSpec struct {
	Kind string // loop4 | loop40 | loop100 | polyline | points
	Lat  float64
	Lng  float64
	R    float64 // degrees
	N    int
}

func ll(lat, lng float64) s2.Point { return s2.PointFromLatLng(s2.LatLngFromDegrees(lat, lng)) }

func (s shapeSpec) String() string {
	return fmt.Sprintf("%s(%.3f,%.3f r=%.3f n=%d)", s.Kind, s.Lat, s.Lng, s.R, s.N)
}

func (s shapeSpec) loop() *s2.Loop {
	return s2.RegularLoop(ll(s.Lat, s.Lng), s1.Angle(s.R)*s1.Degree, s.N)
}

// build makes a NEW shape object every time (fresh oracles never share objects with the
// history under test).
func (s shapeSpec) build() s2.Shape {
	switch s.Kind {
	case "polyline":
		pts := make(s2.Polyline, s.N)
		for i := range pts {
			t := float64(i) / float64(s.N-1)
			pts[i] = ll(s.Lat+s.R*(t-0.5), s.Lng+s.R*(2*t-1)+0.3*s.R*float64(i%2))
		}
		return &pts
	case "points":
		pts := make(s2.PointVector, s.N)
		for i := range pts {
			pts[i] = ll(s.Lat+s.R*float64(i%3-1)*0.4, s.Lng+s.R*float64(i/3-1)*0.4)
		}
		return &pts
	}
	return s.loop()
}

func randSpec(rng *vkit.Rng) shapeSpec {
	s := shapeSpec{Lat: rng.Range(-25, 25), Lng: rng.Range(-30, 30), R: rng.Range(1.5, 9)}
	switch rng.Intn(7) {
	case 0, 1:
		s.Kind, s.N = "loop4", 4
	case 2, 3:
		s.Kind, s.N = "loop100", 100
	case 4:
		s.Kind, s.N = "loop40", 40
	case 5:
		s.Kind, s.N = "polyline", 3+rng.Intn(40)
	default:
		s.Kind, s.N = "points", 1+rng.Intn(9)
	}
	return s
}

func probesFor(specs []shapeSpec, rng *vkit.Rng) (pts []s2.Point, edges [][2]s2.Point) {
	for _, s := range specs {
		pts = append(pts, ll(s.Lat, s.Lng), ll(s.Lat+0.5*s.R, s.Lng+0.1), ll(s.Lat+1.3*s.R, s.Lng-0.2), ll(s.Lat, s.Lng+0.99*s.R))
		if s.Kind != "polyline" && s.Kind != "points" {
			pts = append(pts, s.loop().Vertex(0)) // exactly on a vertex: the vertex models differ here
		}
	}
	for k := 0; k < 4; k++ {
		pts = append(pts, ll(rng.Range(-35, 35), rng.Range(-40, 40)))
	}
	for k := 0; k < 6 && len(pts) > 1; k++ {
		a, b := pts[rng.Intn(len(pts))], pts[rng.Intn(len(pts))]
		if a != b {
			edges = append(edges, [2]s2.Point{a, b})
		}
	}
	return
}

// ---- index histories ----------------------------------------------------------------------

type idxOp struct {
	K     string // add | build | query | reset
	Spec  int
	Reuse bool // query: keep using the query objects of the previous query if still valid
}

type indexGen struct {
	specs  []shapeSpec
	ops    []idxOp
	probes []s2.Point
	edges  [][2]s2.Point
}

func (g *indexGen) setup() string {
	var s []string
	for i, sp := range g.specs {
		s = append(s, fmt.Sprintf("%d=%s", i, sp))
	}
	return strings.Join(s, " ")
}

func (g *indexGen) names() []string {
	var out []string
	for _, o := range g.ops {
		switch o.K {
		case "add":
			out = append(out, fmt.Sprintf("Add(%d)", o.Spec))
		case "query":
			if o.Reuse {
				out = append(out, "Query(reuse)")
			} else {
				out = append(out, "Query")
			}
		default:
			out = append(out, strings.Title(o.K))
		}
	}
	return out
}

func applyKeep[T any](ops []T, keep []int) []T {
	if keep == nil {
		return ops
	}
	var out []T
	for _, i := range keep {
		if i >= 0 && i < len(ops) {
			out = append(out, ops[i])
		}
	}
	return out
}

func genIndex(j job) *indexGen {
	rng := vkit.NewRng(j.Seed)
	g := &indexGen{}
	for i := 0; i < 8; i++ {
		g.specs = append(g.specs, randSpec(rng))
	}
	g.probes, g.edges = probesFor(g.specs, rng)
	if j.Seed>>63 == 1 { // corpus: the witnesses of index_history_old_refuted / reset_old_refuted
		g.specs[0].Kind, g.specs[0].N = "loop100", 100
		g.specs[1].Kind, g.specs[1].N = "loop4", 4
		switch j.Seed & 0xff {
		case 1:
			g.ops = []idxOp{{K: "add", Spec: 0}, {K: "build"}, {K: "add", Spec: 1}, {K: "build"}, {K: "query"}}
		case 2:
			g.ops = []idxOp{{K: "add", Spec: 0}, {K: "build"}, {K: "reset"}, {K: "add", Spec: 1}, {K: "query"}}
		default:
			g.ops = []idxOp{{K: "add", Spec: 0}, {K: "query"}, {K: "add", Spec: 1}, {K: "add", Spec: 2}, {K: "query", Reuse: true}, {K: "reset"}, {K: "query"}}
		}
		g.ops = applyKeep(g.ops, j.Keep)
		return g
	}
	n := 1 + rng.Intn(30)
	held := 0
	for len(g.ops) < n {
		switch x := rng.Intn(100); {
		case x < 36:
			if held < 6 {
				g.ops = append(g.ops, idxOp{K: "add", Spec: rng.Intn(len(g.specs))})
				held++
			}
		case x < 56:
			g.ops = append(g.ops, idxOp{K: "build"})
		case x < 92:
			g.ops = append(g.ops, idxOp{K: "query", Reuse: rng.Bool()})
		default:
			g.ops = append(g.ops, idxOp{K: "reset"})
			held = 0
		}
	}
	g.ops = applyKeep(g.ops, j.Keep)
	return g
}

type indexQueries struct {
	semi, closed *s2.ContainsPointQuery
	cross        *s2.CrossingEdgeQuery
}

func newIndexQueries(idx *s2.ShapeIndex) *indexQueries {
	return &indexQueries{s2.NewContainsPointQuery(idx, s2.VertexModelSemiOpen),
		s2.NewContainsPointQuery(idx, s2.VertexModelClosed), s2.NewCrossingEdgeQuery(idx)}
}

func shapeID(shapes []s2.Shape, s s2.Shape) int {
	for i, x := range shapes {
		if x == s {
			return i
		}
	}
	return -1
}

// indexAnswers: every answer as a canonical string, one entry per probe.
func indexAnswers(q *indexQueries, shapes []s2.Shape, probes []s2.Point, edges [][2]s2.Point) []string {
	var out []string
	for _, p := range probes {
		var ids []int
		for _, s := range q.semi.ContainingShapes(p) {
			ids = append(ids, shapeID(shapes, s))
		}
		sort.Ints(ids)
		per := ""
		for i, s := range shapes {
			if q.semi.ShapeContains(s, p) {
				per += fmt.Sprint(i, ",")
			}
		}
		out = append(out, fmt.Sprintf("contains(semi)=%v contains(closed)=%v containing=%v shapeContains=%s", q.semi.Contains(p), q.closed.Contains(p), ids, per))
	}
	for _, e := range edges {
		em := q.cross.CrossingsEdgeMap(e[0], e[1], s2.CrossingTypeAll)
		s := "crossings:"
		for i, sh := range shapes {
			if es, ok := em[sh]; ok {
				es = append([]int{}, es...)
				sort.Ints(es)
				s += fmt.Sprintf(" %d:%v", i, es)
			}
		}
		for i, sh := range shapes {
			es := append([]int{}, q.cross.Crossings(e[0], e[1], sh, s2.CrossingTypeInterior)...)
			sort.Ints(es)
			if len(es) > 0 {
				s += fmt.Sprintf(" int%d:%v", i, es)
			}
		}
		out = append(out, s)
	}
	return out
}

func coqNatList(xs []int32) string {
	var s []string
	for _, x := range xs {
		s = append(s, fmt.Sprint(x))
	}
	return "[" + strings.Join(s, "; ") + "]"
}

func execIndex(j job, r *result) {
	g := genIndex(j)
	r.Setup, r.History = g.setup(), g.names()
	idx := s2.NewShapeIndex()
	var held []shapeSpec
	var shapes []s2.Shape
	var q *indexQueries
	var coqOps, coqStates []string
	built, updateOfBuilt := false, false
	for k, op := range g.ops {
		switch op.K {
		case "add":
			sp := g.specs[op.Spec]
			sh := sp.build()
			idx.Add(sh)
			held, shapes = append(held, sp), append(shapes, sh)
			q = nil
			coqOps = append(coqOps, fmt.Sprintf("IAdd %d", op.Spec))
			r.Classes = append(r.Classes, "index-shape:"+sp.Kind)
			if built {
				updateOfBuilt = true
			}
		case "build":
			idx.Build()
			built = true
			coqOps = append(coqOps, "IBuild")
		case "reset":
			idx.Reset()
			held, shapes, q = nil, nil, nil
			coqOps = append(coqOps, "IReset")
			if built {
				updateOfBuilt = true
			}
		case "query":
			if q == nil || !op.Reuse {
				q = newIndexQueries(idx)
			}
			built = true
			got := indexAnswers(q, shapes, g.probes, g.edges)
			fresh := s2.NewShapeIndex()
			var fshapes []s2.Shape
			for _, sp := range held {
				sh := sp.build()
				fresh.Add(sh)
				fshapes = append(fshapes, sh)
			}
			fresh.Build()
			want := indexAnswers(newIndexQueries(fresh), fshapes, g.probes, g.edges)
			r.Evals++
			for i := range got {
				if got[i] != want[i] {
					r.Mismatch = append(r.Mismatch, fmt.Sprintf("op %d (%s), probe %d: index after this history answers {%s}; a fresh index holding the same %d shapes answers {%s}", k, r.History[k], i, got[i], len(held), want[i]))
					r.Kinds = append(r.Kinds, "ShapeIndex.history")
					break
				}
			}
			coqOps = append(coqOps, "IQuery")
		}
		st := s2.VerifC13IndexState(idx)
		if !st.CellsSorted {
			r.Mismatch = append(r.Mismatch, fmt.Sprintf("op %d (%s): cell list not strictly increasing / out of step with the cell map", k, r.History[k]))
			r.Kinds = append(r.Kinds, "ShapeIndex.cells")
		}
		coqStates = append(coqStates, fmt.Sprintf("(%d, %d, %v, %d, %s)", st.NextID, st.PendingPos, st.Fresh, st.NumShapes, coqNatList(st.CellShapeIDs)))
	}
	r.Nontriv = updateOfBuilt
	if updateOfBuilt {
		r.Classes = append(r.Classes, "index:update-of-built-index")
	}
	r.Cases = append(r.Cases, fmt.Sprintf("index_trace_case [%s] [%s]", strings.Join(coqOps, "; "), strings.Join(coqStates, "; ")))
	r.Labels = append(r.Labels, fmt.Sprintf("index history seed=%d %v", j.Seed, r.History))
}
