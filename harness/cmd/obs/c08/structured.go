package main

// Two structured families.
//  leafStream:     indexes with LEVEL-30 index cells (11..30 coincident points or sub-leaf-size
//                  edges at leaf-cell centres in child positions 0..3, at the first/last leaf of
//                  cells of several levels, at face corners and at the ends of the curve), so
//                  that findEdgesOptimized splits cells whose children are leaf index cells.
//  interiorStream: 1..4 indexed polygons (overlapping or not) and multi-component ShapeIndex
//                  targets whose components lie in one, several or none of them, with every
//                  MaxResults / IncludeInteriors / UseBruteForce combination, closest and furthest.

import (
	"fmt"
	"math"

	"github.com/golang/geo/r3"
	"github.com/golang/geo/s2"
)

func (r *runner) leafStream(budget int) {
	rng := r.rng
	kinds := []string{"point", "edge", "cell", "index"}
	for i := 0; i < 10*budget; i++ {
		g := &geom{desc: "leafcells", radius: 1e-6}
		// a base cell; clusters sit at leaves related to it
		var base s2.CellID
		switch rng.Intn(5) {
		case 0: // a face corner / end of the curve
			f := rng.Intn(6)
			if rng.Bool() {
				base = s2.CellIDFromFace(f).RangeMin().Parent(29)
			} else {
				base = s2.CellIDFromFace(f).RangeMax().Parent(29)
			}
			if rng.Intn(3) == 0 {
				base = s2.CellIDFromFace(0).RangeMin().Parent(29)
			}
			if rng.Intn(3) == 0 {
				base = s2.CellIDFromFace(5).RangeMax().Parent(29)
			}
		default:
			lv := []int{29, 29, 28, 26, 22, 15, 8}[rng.Intn(7)]
			base = s2.VerifC08LeafCellID(randPoint(rng)).Parent(lv)
		}
		g.center = base.Point()
		var leaves []s2.CellID
		p29 := base.RangeMin().Parent(29)
		cands := []s2.CellID{base.RangeMin(), base.RangeMax(), p29.Children()[0], p29.Children()[1], p29.Children()[2], p29.Children()[3],
			base.RangeMax().Parent(29).Children()[0], base.RangeMin().Next(), base.RangeMin().Parent(28).Children()[1].RangeMin()}
		leaves = append(leaves, base.RangeMin()) // always the first leaf of the base cell (child position 0 all the way down)
		for k := rng.Intn(4); k > 0; k-- {
			leaves = append(leaves, cands[rng.Intn(len(cands))])
		}
		seen := map[s2.CellID]bool{}
		for _, l := range leaves {
			if seen[l] {
				continue
			}
			seen[l] = true
			m := 11 + rng.Intn(20)
			ctr := l.Point()
			if rng.Intn(3) != 0 { // coincident points
				pv := make(s2.PointVector, 0, m)
				for k := 0; k < m; k++ {
					pv = append(pv, ctr)
				}
				g.add(&pv)
			} else { // sub-leaf-size edges
				pl := s2.Polyline{ctr}
				o1 := s2.Point{Vector: ctr.Ortho()}
				for k := 0; k < m; k++ {
					q := s2.Point{Vector: ctr.Add(o1.Mul(1e-10 * float64(k%3-1))).Normalize()}
					if k%2 == 0 {
						q = ctr
					}
					pl = append(pl, q)
				}
				g.add(&pl)
			}
		}
		// other geometry so that the index has more cells and the leaf cells are reached by splitting
		switch rng.Intn(3) {
		case 0:
			g.add(cloud(rng, g.center, []float64{1e-7, 1e-3, 0.5, math.Pi}[rng.Intn(4)], 5+rng.Intn(25)))
		case 1:
			g.add(walk(rng, g.center, []float64{1e-6, 0.01, 1}[rng.Intn(3)], 5+rng.Intn(20)))
		default:
			g.add(cloud(rng, randPoint(rng), 0.3, 6+rng.Intn(10)))
		}
		g.desc = fmt.Sprintf("leafcells/base=%s/n=%d", base.ToToken(), g.nedges)
		idx := g.index()
		nleaf := 0
		for _, ic := range s2.VerifC08IndexCells(idx) {
			if ic.ID.Level() == 30 {
				nleaf++
			}
		}
		r.c.Class(fmt.Sprintf("stream:leafcells(level-30 index cells: %s)", bucket(nleaf)))
		r.leafIndexes++
		r.c.Extra["indexes_with_leaf_level_cells"] = r.leafIndexes
		for j := 0; j < 5; j++ {
			kind := kinds[(i+j)%4]
			far := rng.Intn(4) == 0
			gg := *g
			gg.radius = []float64{1e-8, 1e-6, 1e-3, 0.3}[rng.Intn(4)] // scale used to place the target
			t := genTarget(rng, &gg, far, kind)
			r.runPair(g, idx, t, 9, g.nedges <= 130 && j%2 == 0)
		}
	}
}

func antipode(p s2.Point) s2.Point { return s2.Point{Vector: r3.Vector{X: -p.X, Y: -p.Y, Z: -p.Z}} }

func (r *runner) interiorStream(budget int) {
	rng := r.rng
	for i := 0; i < 12*budget; i++ {
		g := &geom{desc: "polygons"}
		g.center = randPoint(rng)
		np := 1 + rng.Intn(4)
		type disc struct {
			c   s2.Point
			rad float64
		}
		var discs []disc
		for k := 0; k < np; k++ {
			d := disc{pointIn(rng, g.center, 0.5), rng.Range(0.08, 0.45)}
			if k > 0 && rng.Intn(2) == 0 { // overlap an earlier polygon
				d.c = pointIn(rng, discs[rng.Intn(len(discs))].c, 0.2)
			}
			discs = append(discs, d)
			g.add(regLoop(d.c, d.rad, 6+rng.Intn(12)))
		}
		if rng.Bool() {
			g.add(cloud(rng, g.center, 0.8, 3+rng.Intn(25)))
		}
		g.radius = 0.8
		g.desc = fmt.Sprintf("polygons/np=%d/n=%d", np, g.nedges)
		idx := g.index()
		for j := 0; j < 5; j++ {
			far := rng.Intn(3) == 0
			// components: inside polygon k, inside an overlap (by chance), or in none
			ncomp := 2 + rng.Intn(5)
			place := func() s2.Point {
				var p s2.Point
				if rng.Intn(5) == 0 {
					p = pointIn(rng, antipode(g.center), 0.5) // in no polygon
				} else {
					d := discs[rng.Intn(len(discs))]
					if rng.Intn(3) == 0 {
						d = discs[0] // several components in the same polygon
					}
					p = pointIn(rng, d.c, 0.8*d.rad)
				}
				if far {
					p = antipode(p)
				}
				return p
			}
			tg := &geom{desc: "components", center: g.center, radius: 0.5}
			if rng.Intn(3) != 0 { // one shape, one chain per point
				pv := s2.PointVector{}
				for k := 0; k < ncomp; k++ {
					pv = append(pv, place())
				}
				tg.add(&pv)
			} else { // several shapes: points and short polylines
				for k := 0; k < ncomp; k++ {
					p := place()
					if rng.Bool() {
						pv := s2.PointVector{p}
						tg.add(&pv)
					} else {
						pl := s2.Polyline{p, pointIn(rng, p, 0.01)}
						tg.add(&pl)
					}
				}
			}
			t := &tgt{kind: "index", far: far, tg: tg, tidx: tg.index(), desc: fmt.Sprintf("index{%d components, %d shapes}", ncomp, len(tg.shapes))}
			r.c.Class("stream:interiors/multi-component-target")
			r.runPairWith(g, idx, t, 0, len(tg.shapes) == 1 && j%2 == 0, func(all []cand) []qopts {
				var qs []qopts
				for _, k := range []int{1, 2, 3, 5, 0} {
					qs = append(qs, qopts{k: k, interiors: true, brute: rng.Bool()})
				}
				qs = append(qs, qopts{k: 2, interiors: false, brute: rng.Bool()}, qopts{k: 3, interiors: true, brute: true}, qopts{k: 2, interiors: true, brute: false})
				if len(all) > 2 {
					qs = append(qs, qopts{k: []int{2, 3}[rng.Intn(2)], interiors: true, hasLimit: true, limit: all[len(all)/2].d})
				}
				return qs
			})
		}
	}
}
