// Observer C08: closest/furthest edge queries against an exhaustive scan ([S]) and against
// the Coq model of edge_query.go run on the dumped index and distance tables ([T]).
package main

import (
	"fmt"
	"math"
	"sort"
	"strings"

	"github.com/golang/geo/s1"
	"github.com/golang/geo/s2"
	"verifharness/internal/vkit"
)

func main() { vkit.Main("C08", []string{"Model.EdgeQuery", "Model.EdgeQueryF"}, run) }

func newQuery(idx *s2.ShapeIndex, far bool, q qopts) *s2.EdgeQuery {
	if far {
		return s2.NewFurthestEdgeQuery(idx, q.build(true))
	}
	return s2.NewClosestEdgeQuery(idx, q.build(false))
}

func replayOf(g *geom, t *tgt, q qopts) map[string]interface{} {
	shapes := []interface{}{}
	for _, sh := range g.shapes {
		es := [][]float64{}
		for i := 0; i < sh.NumEdges(); i++ {
			e := sh.Edge(i)
			es = append(es, []float64{e.V0.X, e.V0.Y, e.V0.Z, e.V1.X, e.V1.Y, e.V1.Z})
		}
		shapes = append(shapes, map[string]interface{}{"type": fmt.Sprintf("%T", sh), "dimension": sh.Dimension(), "edges": es})
	}
	tr := map[string]interface{}{"kind": t.kind, "furthest": t.far, "desc": t.desc}
	switch t.kind {
	case "point":
		tr["point"] = []float64{t.p.X, t.p.Y, t.p.Z}
	case "edge":
		tr["edge"] = []float64{t.e.V0.X, t.e.V0.Y, t.e.V0.Z, t.e.V1.X, t.e.V1.Y, t.e.V1.Z}
	case "cell":
		tr["cell"] = t.cell.ID().ToToken()
	default:
		ts := []interface{}{}
		for _, sh := range t.tg.shapes {
			es := [][]float64{}
			for i := 0; i < sh.NumEdges(); i++ {
				e := sh.Edge(i)
				es = append(es, []float64{e.V0.X, e.V0.Y, e.V0.Z, e.V1.X, e.V1.Y, e.V1.Z})
			}
			ts = append(ts, map[string]interface{}{"type": fmt.Sprintf("%T", sh), "edges": es})
		}
		tr["index"] = ts
	}
	return map[string]interface{}{"index": g.desc, "shapes": shapes, "target": tr, "options": q.String(),
		"limit_bits": fmt.Sprintf("%x", math.Float64bits(float64(q.limit))), "max_error_bits": fmt.Sprintf("%x", math.Float64bits(float64(q.maxErr)))}
}

// limitsFor picks distance limits around the candidates' distances.
func limitsFor(rng *vkit.Rng, o order, el []cand) []qopts {
	out := []qopts{{}} // no limit
	if len(el) > 0 {
		j := rng.Intn(minInt(len(el), 7))
		d := el[j].d
		out = append(out, qopts{hasLimit: true, limit: d}) // exactly an edge's distance: that edge is excluded
		if o.far {
			out = append(out, qopts{hasLimit: true, limit: clampChord(d.Predecessor())})
		} else {
			out = append(out, qopts{hasLimit: true, limit: clampChord(d.Successor())})
		}
		m := el[len(el)/2].d
		out = append(out, qopts{hasLimit: true, limit: m})
		w := el[len(el)-1].d
		out = append(out, qopts{hasLimit: true, limit: looseLimit(o, w)}) // loose: beyond the worst
	}
	out = append(out, qopts{hasLimit: true, limit: o.zero()})
	out = append(out, qopts{hasLimit: true, limit: chordOf(rng.Range(0.001, 3))})
	return out
}

// clampChord keeps a limit inside the valid chord-angle range [0, 4].
func clampChord(c s1.ChordAngle) s1.ChordAngle {
	if c < 0 {
		return 0
	}
	if c > s1.StraightChordAngle {
		return s1.StraightChordAngle
	}
	return c
}

func looseLimit(o order, w s1.ChordAngle) s1.ChordAngle {
	if o.far {
		return clampChord(w - 1e-3)
	}
	return clampChord(w + 1e-3)
}

func minInt(a, b int) int {
	if a < b {
		return a
	}
	return b
}

var ks = []int{1, 2, 5, 0, 3, 1000}

func optionSets(rng *vkit.Rng, o order, el []cand, n int) []qopts {
	lims := limitsFor(rng, o, el)
	errs := []s1.ChordAngle{0, 0, 0, chordOf(1e-4), chordOf(0.02), chordOf(0.5), 1, s1.StraightChordAngle}
	var out []qopts
	mk := func(k int, l qopts, e s1.ChordAngle, in, br bool) qopts {
		l.k, l.maxErr, l.interiors, l.brute = k, e, in, br
		return l
	}
	// systematic core
	out = append(out, mk(1, lims[0], 0, true, false), mk(0, lims[0], 0, true, false), mk(5, lims[0], 0, false, false),
		mk(2, lims[0], chordOf(0.02), true, false), mk(1, lims[0], chordOf(0.02), true, false))
	if len(lims) > 2 {
		out = append(out, mk(0, lims[1], 0, true, false), mk(1, lims[2], 0, true, false), mk(5, lims[3], 0, true, false))
	}
	for len(out) < n {
		out = append(out, mk(ks[rng.Intn(len(ks))], lims[rng.Intn(len(lims))], errs[rng.Intn(len(errs))], rng.Intn(3) != 0, rng.Intn(3) == 0))
	}
	return out
}

type runner struct {
	c              *vkit.Collector
	rng            *vkit.Rng
	pendingInitial []s2.CellID
	perKind        map[string]int
	descRuns       int // optimized runs whose initial cells include a proper descendant of an index cell
	descRunsBig    int // ... of these, the index cell holds >= 10 edges (it is enqueued, not processed directly)
	leafIndexes    int // indexes generated with level-30 index cells
}

// violate reports at most a few violations per kind so that one class does not hide the others.
func (r *runner) violate(kind, desc string, replay interface{}) {
	if r.perKind == nil {
		r.perKind = map[string]int{}
	}
	r.perKind[kind]++
	r.c.Extra["violations_by_kind"] = r.perKind
	if r.perKind[kind] <= 3 {
		r.c.Violate(kind, desc, replay)
	}
}

// runPair runs every option set for one (geometry, target) pair.
func (r *runner) runPair(g *geom, idx *s2.ShapeIndex, t *tgt, nopts int, wantT bool) {
	r.runPairWith(g, idx, t, nopts, wantT, nil)
}

// runPairWith: as runPair; a non-nil mk builds the option sets from the sorted candidates.
func (r *runner) runPairWith(g *geom, idx *s2.ShapeIndex, t *tgt, nopts int, wantT bool, mk func(all []cand) []qopts) {
	c := r.c
	o := order{t.far}
	edges, interiors := candidates(g, t)
	all := eligible(o, edges, interiors, qopts{interiors: true})
	qs := optionSets(r.rng, o, all, nopts)
	if mk != nil {
		qs = mk(all)
	}
	dir := "closest"
	if t.far {
		dir = "furthest"
	}
	c.Class(fmt.Sprintf("target:%s/%s", dir, t.kind))
	var tcases []string
	icells := s2.VerifC08IndexCells(idx)
	for qi, q := range qs {
		query := newQuery(idx, t.far, q)
		fresh := true
		s2.VerifC08ClearInitialCells(query)
		rs := query.FindEdges(t.make())
		st := s2.VerifC08State(query)
		el := eligible(o, edges, interiors, q)
		path := "brute"
		if st.UsedOptimized {
			path = "optimized"
		}
		c.Class("path:" + path)
		if st.UsedOptimized && len(st.InitialCells) > 0 {
			// did initQueue meet an initial cell that is a proper descendant of an index cell?
			desc, big := false, false
			for _, id := range st.InitialCells {
				for _, ic := range icells {
					if ic.ID != id && ic.ID.Contains(id) {
						desc = true
						if len(ic.Edges) >= 10 {
							big = true
						}
					}
				}
			}
			if desc {
				r.descRuns++
				c.Class("initQueue:initial-cell-inside-index-cell")
			}
			if big {
				r.descRunsBig++
				c.Class("initQueue:initial-cell-inside-index-cell(>=10 edges, enqueued)")
			}
			c.Extra["initqueue_indexed_descendant_runs"] = r.descRuns
			c.Extra["initqueue_indexed_descendant_runs_enqueued"] = r.descRunsBig
		}
		key := fmt.Sprintf("%s|%s|%s", g.desc, t.desc, q)
		c.Eval(key, st.UsedOptimized && len(el) > 0)
		if qi == 0 {
			c.Sample(map[string]interface{}{"index": g.desc, "target": t.desc, "direction": dir, "options": q.String(), "path": path,
				"results": len(rs), "eligible": len(el), "covering_cells": len(st.IndexCovering)})
		}
		if bad, msg := outOfRange(rs); bad {
			r.violate("EdgeQuery.reportedDistance.outOfRange", fmt.Sprintf("%s target, %s, %s path, index %s: %s", dir, t.kind, path, g.desc, msg), replayOf(g, t, q))
			continue
		}
		if dup := duplicateEdge(rs); dup != "" {
			kind := "EdgeQuery.FindEdges.duplicateEdge"
			if t.far {
				kind = "EdgeQuery.FindEdges.furthestDuplicates"
			}
			r.violate(kind, fmt.Sprintf("%s target, %s, %s path, index %s: %s (%d results for %d edges)", dir, t.kind, path, g.desc, dup, len(rs), len(edges)), replayOf(g, t, q))
			continue
		}
		if msg := checkResults(t, q, rs, edges, interiors); msg != "" {
			r.violate("EdgeQuery.FindEdges."+path, fmt.Sprintf("%s target, %s, %s path, index %s: %s", dir, t.kind, path, g.desc, msg), replayOf(g, t, q))
		}
		// Distance / threshold predicates on the same query object
		if qi%2 == 0 {
			r.checkScalar(g, idx, t, q, query, edges, interiors, path)
		}
		// the brute-force loop ranges over a Go map of shapes: with MaxResults = 1 and MaxError > 0 the
		// first acceptable edge wins, which the model (shapes in id order) cannot reproduce for several shapes
		randomOrder := q.k == 1 && q.maxErr != 0 && len(g.shapes) > 1 && !st.UsedOptimized
		if wantT && fresh && !randomOrder && (t.kind != "index" || q.maxErr == 0) {
			if tc := r.modelCase(g, idx, t, q, rs, st); tc != "" {
				tcases = append(tcases, tc)
			}
		}
	}
	if len(tcases) > 0 {
		r.emitModel(g, idx, t, tcases)
	}
}

func (r *runner) checkScalar(g *geom, idx *s2.ShapeIndex, t *tgt, q qopts, query *s2.EdgeQuery, edges, interiors []cand, path string) {
	o := order{t.far}
	el := eligible(o, edges, interiors, q)
	dir := "closest"
	if t.far {
		dir = "furthest"
	}
	d := query.Distance(t.make())
	want := o.inf()
	if len(el) > 0 {
		want = el[0].d
	}
	if d != o.inf() && (d < 0 || d > s1.StraightChordAngle+1e-12 || math.IsNaN(float64(d))) {
		r.violate("EdgeQuery.reportedDistance.outOfRange", fmt.Sprintf("%s target, %s, %s path, index %s: Distance() = %v is not a chord angle in [0,4]", dir, t.kind, path, g.desc, float64(d)), replayOf(g, t, q))
		return
	}
	bad := false
	if q.maxErr == 0 {
		bad = d != want
	} else if len(el) == 0 {
		bad = d != want
	} else {
		bad = o.less(d, want) || o.less(want, o.sub(d, q.maxErr)) || d == o.inf()
	}
	if bad {
		r.violate("EdgeQuery.Distance."+path, fmt.Sprintf("%s target, %s, index %s: Distance = %v, exhaustive scan %v (MaxError %v)", dir, t.kind, g.desc, float64(d), float64(want), float64(q.maxErr)), replayOf(g, t, q))
	}
	// thresholds: around candidate distances and arbitrary ones; the query's own limit and error are overridden
	all := eligible(o, edges, interiors, qopts{interiors: q.interiors})
	var ths []s1.ChordAngle
	if len(all) > 0 {
		b := all[0].d
		ths = append(ths, b, clampChord(b.Successor()), clampChord(b.Predecessor()), all[len(all)-1].d)
	}
	ths = append(ths, chordOf(r.rng.Range(0, 3.1)), 0, s1.StraightChordAngle, o.zero())
	for _, th := range ths {
		exp := false
		for _, cd := range all {
			if o.less(cd.d, th) {
				exp = true
				break
			}
		}
		var got bool
		name := "IsDistanceLess"
		if t.far {
			name = "IsDistanceGreater"
			got = query.IsDistanceGreater(t.make(), th)
		} else {
			got = query.IsDistanceLess(t.make(), th)
		}
		if got != exp {
			r.violate("EdgeQuery."+name+"."+path, fmt.Sprintf("%s target, %s, index %s: %s(%v) = %v, exhaustive scan says %v", dir, t.kind, g.desc, name, float64(th), got, exp),
				map[string]interface{}{"case": replayOf(g, t, q), "threshold": float64(th), "threshold_bits": fmt.Sprintf("%x", math.Float64bits(float64(th)))})
		}
		// conservative variants: the threshold widened by the documented distance error
		if th > 0 && th < s1.StraightChordAngle {
			if t.far {
				th2 := th.Expanded(-s2.VerifC08MinUpdateDistanceMaxError(th))
				exp2 := false
				for _, cd := range all {
					if o.less(cd.d, th2) {
						exp2 = true
						break
					}
				}
				if got2 := query.IsConservativeDistanceGreaterOrEqual(t.make(), th); got2 != exp2 {
					r.violate("EdgeQuery.IsConservativeDistanceGreaterOrEqual."+path, fmt.Sprintf("furthest target, %s, index %s: (%v) = %v, exhaustive scan says %v", t.kind, g.desc, float64(th), got2, exp2),
						map[string]interface{}{"case": replayOf(g, t, q), "threshold": float64(th)})
				}
			} else {
				th2 := th.Expanded(s2.VerifC08MinUpdateDistanceMaxError(th))
				exp2 := false
				for _, cd := range all {
					if o.less(cd.d, th2) {
						exp2 = true
						break
					}
				}
				if got2 := query.IsConservativeDistanceLessOrEqual(t.make(), th); got2 != exp2 {
					r.violate("EdgeQuery.IsConservativeDistanceLessOrEqual."+path, fmt.Sprintf("closest target, %s, index %s: (%v) = %v, exhaustive scan says %v", t.kind, g.desc, float64(th), got2, exp2),
						map[string]interface{}{"case": replayOf(g, t, q), "threshold": float64(th)})
				}
			}
		}
	}
	// after the scalar calls the configured options must still be in force (option leak, 784d87c)
	rs := query.FindEdges(t.make())
	if msg := checkResults(t, q, rs, edges, interiors); msg != "" {
		r.violate("EdgeQuery.FindEdges.afterScalarCalls", fmt.Sprintf("%s target, %s, index %s: after Distance/IsDistance* calls: %s", dir, t.kind, g.desc, msg), replayOf(g, t, q))
	}
}

// duplicateEdge: the same (shape, edge) reported more than once.
func duplicateEdge(rs []s2.EdgeQueryResult) string {
	seen := map[[2]int32]bool{}
	for _, r := range rs {
		id := [2]int32{r.ShapeID(), r.EdgeID()}
		if seen[id] {
			return fmt.Sprintf("edge (%d,%d) is reported more than once", id[0], id[1])
		}
		seen[id] = true
	}
	return ""
}

// outOfRange: a reported distance that is not a chord angle in [0, 4].
func outOfRange(rs []s2.EdgeQueryResult) (bool, string) {
	for i, r := range rs {
		d := r.Distance()
		if d < 0 || d > s1.StraightChordAngle+1e-12 || math.IsNaN(float64(d)) { // (UpdateMinDistance itself may exceed 4 by an ulp)
			return true, fmt.Sprintf("result %d (%d,%d) reports distance %v, not a chord angle in [0,4]", i, r.ShapeID(), r.EdgeID(), float64(d))
		}
	}
	return false, ""
}

// ---- [T]: the Coq model on the dumped tables ----

func zlist(xs []string) string { return "[" + strings.Join(xs, "; ") + "]" }

func opsName(far bool) string {
	if far {
		return "fmax_ops"
	}
	return "fmin_ops"
}

// modelCase renders one option set + observation as a Coq term using the let-bound x, et, ct.
func (r *runner) modelCase(g *geom, idx *s2.ShapeIndex, t *tgt, q qopts, rs []s2.EdgeQueryResult, st s2.VerifC08QueryState) string {
	o := order{t.far}
	tm := t.make()
	lim := o.inf()
	if q.hasLimit {
		lim = q.limit
	}
	k := int64(q.k)
	if q.k <= 0 {
		k = math.MaxInt32
	}
	uses := s2.VerifC08SetMaxError(tm, q.maxErr)
	cont := []string{}
	for _, s := range s2.VerifC08ContainingShapes(tm, idx) {
		cont = append(cont, vkit.Z(int64(s)))
	}
	// an index target visits its shapes in Go map order: which of the containing polygons make it into
	// a truncated interior result set is then not reproducible
	if t.kind == "index" && len(t.tg.shapes) > 1 && q.interiors && q.k > 0 {
		distinct := map[string]bool{}
		for _, s := range cont {
			distinct[s] = true
		}
		if len(distinct) > q.k {
			return ""
		}
	}
	cb := s2.VerifC08CapBound(tm)
	leaf := uint64(0)
	if !cb.IsEmpty() {
		leaf = uint64(s2.VerifC08LeafCellID(cb.Center()))
	}
	init := []string{}
	for _, id := range st.InitialCells {
		init = append(init, vkit.U(uint64(id)))
		r.pendingInitial = append(r.pendingInitial, id)
	}
	obs := []string{}
	for _, x := range rs {
		obs = append(obs, fmt.Sprintf("(%s, %s, %s)", vkit.F(float64(x.Distance())), vkit.Z(int64(x.ShapeID())), vkit.Z(int64(x.EdgeID()))))
	}
	cov := []string{}
	if st.UsedOptimized {
		for _, id := range st.IndexCovering {
			cov = append(cov, vkit.U(uint64(id)))
		}
	}
	opts := vkit.App("mkOptions", vkit.Z(k), vkit.F(float64(lim)), vkit.F(float64(q.maxErr)), vkit.B(q.interiors), vkit.B(q.brute))
	return vkit.App("c08_case", opsName(t.far), opts, vkit.B(uses), vkit.Z(int64(s2.VerifC08MaxBruteForceIndexSize(tm))),
		zlist(cont), vkit.B(cb.IsEmpty()), vkit.U(leaf), zlist(init), "x", "et", "ct", zlist(obs), vkit.B(st.UsedOptimized), zlist(cov), vkit.B(q.k == 1))
}

// emitModel dumps the index and the distance tables once and checks all option sets against them.
func (r *runner) emitModel(g *geom, idx *s2.ShapeIndex, t *tgt, tcases []string) {
	c := r.c
	o := order{t.far}
	tm := t.make()
	s2.VerifC08SetMaxError(tm, 0)
	cells := s2.VerifC08IndexCells(idx)
	cs := []string{}
	for _, ce := range cells {
		es := []string{}
		for _, e := range ce.Edges {
			es = append(es, fmt.Sprintf("(%s, %s)", vkit.Z(int64(e[0])), vkit.Z(int64(e[1]))))
		}
		cs = append(cs, fmt.Sprintf("(%s, %s)", vkit.U(uint64(ce.ID)), zlist(es)))
	}
	shs := []string{}
	for sid, sh := range g.shapes {
		shs = append(shs, fmt.Sprintf("(%s, %s)", vkit.Z(int64(sid)), vkit.Z(int64(sh.NumEdges()))))
	}
	// edge table: the target's own updateDistanceToEdge with an infinite limit
	et := []string{}
	for sid, sh := range g.shapes {
		for i := 0; i < sh.NumEdges(); i++ {
			d, ok := s2.VerifC08EdgeDist(tm, sh.Edge(i), o.inf())
			if !ok {
				d = o.inf()
			}
			et = append(et, fmt.Sprintf("((%s, %s), %s)", vkit.Z(int64(sid)), vkit.Z(int64(i)), vkit.F(float64(d))))
		}
	}
	// cell table: every index cell, every ancestor of an index cell, (initial cells are descendants
	// of covering cells and ancestors-or-descendants of index cells: add them from the terms' lists)
	ids := map[s2.CellID]bool{}
	for _, ce := range cells {
		ids[ce.ID] = true
		for l := ce.ID.Level() - 1; l >= 0; l-- {
			ids[ce.ID.Parent(l)] = true
		}
	}
	// all cells at levels between an ancestor chain are covered; initial cells that are proper
	// descendants of index cells are never handed to updateDistanceToCell.
	extra := r.pendingInitial
	for _, id := range extra {
		ids[id] = true
	}
	r.pendingInitial = nil
	sorted := make([]s2.CellID, 0, len(ids))
	for id := range ids {
		sorted = append(sorted, id)
	}
	sort.Slice(sorted, func(i, j int) bool { return sorted[i] < sorted[j] })
	ct := []string{}
	for _, id := range sorted {
		d, ok := s2.VerifC08CellDist(tm, s2.CellFromCellID(id), o.inf())
		if !ok {
			d = o.inf()
		}
		ct = append(ct, fmt.Sprintf("(%s, %s)", vkit.U(uint64(id)), vkit.F(float64(d))))
	}
	term := fmt.Sprintf("(let x := mkIndex %s %s in let et := %s in let ct := %s in forallb (fun b => b) %s)",
		zlist(cs), zlist(shs), zlist(et), zlist(ct), zlist(tcases))
	c.Check(fmt.Sprintf("model %s | %s | %d option sets", g.desc, t.desc, len(tcases)), term)
	c.Class("model-runs")
	c.Extra["model_runs"] = addInt(c.Extra["model_runs"], len(tcases))
}

func addInt(v interface{}, n int) int {
	if x, ok := v.(int); ok {
		return x + n
	}
	return n
}

func run(c *vkit.Collector, rng *vkit.Rng, budget int) {
	r := &runner{c: c, rng: rng}
	r.fixed()
	r.approxStream(budget)
	r.bigCellStream(budget)
	r.reuseStream(budget)
	r.leafStream(budget)
	r.interiorStream(budget)
	kinds := []string{"point", "edge", "cell", "index"}
	nIdx := 60 * budget
	for i := 0; i < nIdx; i++ {
		n := edgeCounts[rng.Intn(len(edgeCounts))]
		if i%3 == 0 {
			n = edgeCounts[8+rng.Intn(len(edgeCounts)-8)] // above the thresholds
		}
		g := genGeom(rng, n, false)
		idx := g.index()
		faces := map[int]bool{}
		for _, ce := range s2.VerifC08IndexCells(idx) {
			faces[ce.ID.Face()] = true
		}
		c.Class(fmt.Sprintf("index:faces=%d", len(faces)))
		switch {
		case g.nedges <= 25:
			c.Class("index:edges<=25")
		case g.nedges <= 30:
			c.Class("index:edges 26..30")
		default:
			c.Class("index:edges>30")
		}
		c.Class(fmt.Sprintf("index:shapes=%s", bucket(len(g.shapes))))
		for j := 0; j < 7; j++ {
			kind := kinds[(i+j)%4]
			far := rng.Intn(3) == 0
			t := genTarget(rng, g, far, kind)
			wantT := g.nedges <= 130 && (i+j)%5 == 0
			nopts := 12
			if kind == "index" && g.nedges > 120 {
				nopts = 8
			}
			r.runPair(g, idx, t, nopts, wantT)
		}
	}
	// last, so that the random stream of everything above is the one the stored seeded changes were verified with
	r.resetStream(budget)
}

// approxStream: large indexes queried with ShapeIndex targets and a permitted error of the order
// of the distances involved, so that the targets' approximate cell/edge distances, the
// conservative cell distances and duplicate avoidance decide the outcome.
func (r *runner) approxStream(budget int) {
	rng := r.rng
	for i := 0; i < 30*budget; i++ {
		n := []int{64, 100, 180, 320}[rng.Intn(4)]
		g := genGeom(rng, n, true)
		idx := g.index()
		rad := g.radius
		if rad > 1 {
			rad = 1
		}
		for j := 0; j < 3; j++ {
			far := rng.Intn(4) == 0
			c := pointIn(rng, g.center, math.Min(math.Pi, 2*g.radius))
			tn := []int{3, 6, 12, 28, 40}[rng.Intn(5)]
			tg := &geom{center: c, radius: rad}
			if rng.Bool() {
				tg.add(walk(rng, c, rad, tn))
				tg.desc = "walk"
			} else {
				tg.add(cloud(rng, c, rad, tn))
				tg.desc = "cloud"
			}
			t := &tgt{kind: "index", far: far, tg: tg, tidx: tg.index(), desc: fmt.Sprintf("index{%s n=%d near}", tg.desc, tg.nedges)}
			r.c.Class("stream:approx-index")
			r.runPairWith(g, idx, t, 0, false, func(all []cand) []qopts {
				var qs []qopts
				for _, f := range []float64{0.1, 0.5, 1.5} {
					e := chordOf(f * rad)
					qs = append(qs, qopts{k: 1, maxErr: e, interiors: true}, qopts{k: []int{2, 5, 0}[rng.Intn(3)], maxErr: e, interiors: rng.Bool()})
					if len(all) > 4 {
						lim := all[len(all)/3].d
						qs = append(qs, qopts{k: []int{1, 3, 0}[rng.Intn(3)], maxErr: e, interiors: true, hasLimit: true, limit: lim})
					}
				}
				return qs
			})
		}
	}
}

// closedRing is a closed polyline through the vertices of a regular n-gon.
func closedRing(c s2.Point, radius float64, n int) s2.Shape {
	vs := s2.RegularLoop(c, s1.Angle(radius), n).Vertices()
	pl := make(s2.Polyline, 0, n+1)
	pl = append(pl, vs...)
	pl = append(pl, vs[0])
	return &pl
}

// bigCellStream: few, large index cells (a cube face or a level-1 cell holding exactly ten long
// edges, so the index does not subdivide it and the cell is enqueued, not processed directly)
// queried with small distance limits from everywhere inside the big cells: the initial cells of
// the search disc are then proper descendants of an index cell (the Indexed branch of initQueue).
func (r *runner) bigCellStream(budget int) {
	rng := r.rng
	deg := math.Pi / 180
	for i := 0; i < 12*budget; i++ {
		g := &geom{desc: "bigcells", radius: math.Pi, center: faceCenters[0]}
		nf := 4 + rng.Intn(3)
		start := rng.Intn(6)
		var anchors []s2.Point // vertices of the geometry, to aim targets at
		for f := 0; f < nf; f++ {
			fc := faceCenters[(start+f)%6]
			switch rng.Intn(3) {
			case 0: // a decagon around the face centre
				c := pointIn(rng, fc, 5*deg)
				g.add(closedRing(c, rng.Range(15, 33)*deg, 10))
			case 1: // two pentagons on the face
				g.add(closedRing(pointIn(rng, fc, 12*deg), rng.Range(8, 20)*deg, 5))
				g.add(closedRing(pointIn(rng, fc, 12*deg), rng.Range(3, 9)*deg, 5))
			default: // a decagon inside one level-1 child, a stray edge elsewhere on the face
				child := s2.CellFromCellID(s2.VerifC08LeafCellID(fc).Parent(0).Children()[rng.Intn(4)])
				g.add(closedRing(child.Center(), rng.Range(4, 9)*deg, 10))
				other := s2.CellFromCellID(s2.VerifC08LeafCellID(fc).Parent(0).Children()[rng.Intn(4)]).Center()
				pl := s2.Polyline{other, pointIn(rng, other, 3*deg)}
				g.add(&pl)
			}
		}
		for _, sh := range g.shapes {
			for k := 0; k < sh.NumEdges(); k++ {
				anchors = append(anchors, sh.Edge(k).V0)
			}
		}
		g.desc = fmt.Sprintf("bigcells/faces=%d/n=%d", nf, g.nedges)
		idx := g.index()
		big := 0
		for _, ic := range s2.VerifC08IndexCells(idx) {
			if len(ic.Edges) >= 10 && ic.ID.Level() <= 2 {
				big++
			}
		}
		r.c.Class(fmt.Sprintf("stream:bigcells(index cells of level<=2 with >=10 edges: %s)", bucket(big)))
		for j := 0; j < 7; j++ {
			kind := []string{"point", "point", "edge", "cell"}[rng.Intn(4)]
			var pos s2.Point
			switch rng.Intn(4) {
			case 0: // anywhere on a used face, including its far corners
				pos = pointIn(rng, faceCenters[(start+rng.Intn(nf))%6], 0.95)
			case 1: // a corner region of a face cell
				fcell := s2.CellFromCellID(s2.VerifC08LeafCellID(faceCenters[(start+rng.Intn(nf))%6]).Parent(0))
				pos = pointIn(rng, fcell.Vertex(rng.Intn(4)), 6*deg)
			default: // near the geometry, within a few degrees
				pos = pointIn(rng, anchors[rng.Intn(len(anchors))], rng.Range(0.01, 4)*deg)
			}
			t := &tgt{kind: kind, far: false}
			switch kind {
			case "point":
				t.p = pos
				t.desc = fmt.Sprintf("point%v", pos)
			case "edge":
				t.e = s2.Edge{V0: pos, V1: pointIn(rng, pos, rng.Range(0.01, 2)*deg)}
				t.desc = fmt.Sprintf("edge%v-%v", t.e.V0, t.e.V1)
			default:
				id := s2.VerifC08LeafCellID(pos).Parent([]int{6, 9, 12, 18}[rng.Intn(4)])
				t.cell = s2.CellFromCellID(id)
				t.desc = "cell " + id.ToToken()
			}
			r.runPairWith(g, idx, t, 0, j%2 == 0, func(all []cand) []qopts {
				var qs []qopts
				for _, d := range []float64{0.01, 0.1, 0.5, 1, 3} {
					qs = append(qs, qopts{k: []int{0, 2, 5}[rng.Intn(3)], hasLimit: true, limit: chordOf(d * deg), interiors: rng.Bool()})
				}
				qs = append(qs, qopts{k: 0, hasLimit: true, limit: chordOf(rng.Range(0.01, 3) * deg), interiors: true},
					qopts{k: 1, hasLimit: true, limit: chordOf(rng.Range(0.1, 3) * deg), interiors: true},
					qopts{k: 5, hasLimit: true, limit: chordOf(rng.Range(0.01, 3) * deg), maxErr: chordOf(0.2 * deg), interiors: true})
				return qs
			})
		}
	}
}

func bucket(n int) string {
	switch {
	case n <= 1:
		return "1"
	case n <= 4:
		return "2..4"
	case n <= 16:
		return "5..16"
	}
	return ">16"
}
