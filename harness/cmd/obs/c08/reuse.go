package main

// Target-reuse histories: ONE distance-target object (ShapeIndex targets keep an inner query
// whose MaxError is set by the outer query) is handed to a sequence of calls — threshold tests
// (which search with an error of 180 degrees), approximate queries with MaxError > 0, exact
// queries, on one query object and on several query objects sharing the target. Every answer
// is compared with the exhaustive scan, and the exact ones with a fresh target as well.

import (
	"fmt"
	"math"

	"github.com/golang/geo/s1"
	"github.com/golang/geo/s2"
)

func sameDistances(a, b []s2.EdgeQueryResult) bool {
	if len(a) != len(b) {
		return false
	}
	for i := range a {
		if a[i].Distance() != b[i].Distance() {
			return false
		}
	}
	return true
}

// reuseHistory runs one history on one target object.
func (r *runner) reuseHistory(g *geom, idx *s2.ShapeIndex, t *tgt, steps int) {
	rng := r.rng
	c := r.c
	o := order{t.far}
	dir := "closest"
	if t.far {
		dir = "furthest"
	}
	edges, interiors := candidates(g, t)
	all := eligible(o, edges, interiors, qopts{interiors: true})
	tm := t.make() // the reused target
	base := qopts{interiors: true}
	qA := newQuery(idx, t.far, base)
	hist := []string{}
	errs := []s1.ChordAngle{0, 0, 0, chordOf(0.02), chordOf(0.5), 1, s1.StraightChordAngle}
	c.Class(fmt.Sprintf("stream:target-reuse/%s/%s", dir, t.kind))
	for s := 0; s < steps; s++ {
		op := rng.Intn(5)
		replay := func(q qopts) map[string]interface{} {
			rp := replayOf(g, t, q)
			rp["history_on_the_same_target_object"] = append([]string{}, hist...)
			return rp
		}
		switch op {
		case 0, 1: // FindEdges on a NEW query object sharing the target (random options), or on qA
			q := base
			query := qA
			name := "FindEdges(same query)"
			if op == 0 {
				q = qopts{k: ks[rng.Intn(len(ks))], maxErr: errs[rng.Intn(len(errs))], interiors: rng.Intn(3) != 0, brute: rng.Intn(3) == 0}
				if len(all) > 0 && rng.Intn(3) == 0 {
					q.hasLimit, q.limit = true, all[rng.Intn(len(all))].d
				}
				query = newQuery(idx, t.far, q)
				name = "FindEdges(new query: " + q.String() + ")"
			}
			rs := query.FindEdges(tm)
			hist = append(hist, name)
			c.Eval(fmt.Sprintf("reuse|%s|%s|%d|%s", g.desc, t.desc, s, name), len(hist) > 1)
			if bad, msg := outOfRange(rs); bad {
				r.violate("EdgeQuery.reportedDistance.outOfRange", fmt.Sprintf("%s target, %s, reused target, index %s: %s", dir, t.kind, g.desc, msg), replay(q))
				continue
			}
			if msg := checkResults(t, q, rs, edges, interiors); msg != "" {
				r.violate("EdgeQuery.targetReuse.FindEdges", fmt.Sprintf("%s target, %s, index %s, after %v on the same target object: %s", dir, t.kind, g.desc, hist[:len(hist)-1], msg), replay(q))
			}
			if q.maxErr == 0 {
				fresh := newQuery(idx, t.far, q).FindEdges(t.make())
				if !sameDistances(rs, fresh) {
					r.violate("EdgeQuery.targetReuse.FindEdges", fmt.Sprintf("%s target, %s, index %s, MaxError 0: answer with the reused target (after %v) differs from the answer with a fresh target (%d vs %d results)", dir, t.kind, g.desc, hist[:len(hist)-1], len(rs), len(fresh)), replay(q))
				}
			}
		case 2: // Distance on qA (MaxError 0): must be the exact optimum
			d := qA.Distance(tm)
			hist = append(hist, "Distance")
			c.Eval(fmt.Sprintf("reuse|%s|%s|%d|Distance", g.desc, t.desc, s), len(hist) > 1)
			want := o.inf()
			if len(all) > 0 {
				want = all[0].d
			}
			if d != want {
				r.violate("EdgeQuery.targetReuse.Distance", fmt.Sprintf("%s target, %s, index %s, MaxError 0, after %v on the same target object: Distance = %v, exhaustive scan %v", dir, t.kind, g.desc, hist[:len(hist)-1], float64(d), float64(want)), replay(base))
			}
		default: // threshold test
			var th s1.ChordAngle
			if len(all) > 0 && rng.Intn(2) == 0 {
				th = all[rng.Intn(len(all))].d
				if rng.Bool() {
					th = clampChord(s1.ChordAngle(float64(th) * (1 + 0.5*rng.Float())))
				}
			} else {
				th = chordOf(rng.Range(0, math.Pi))
			}
			exp := false
			for _, cd := range all {
				if o.less(cd.d, th) {
					exp = true
					break
				}
			}
			var got bool
			name := "IsDistanceLess"
			if t.far {
				name = "IsDistanceGreater"
				got = qA.IsDistanceGreater(tm, th)
			} else {
				got = qA.IsDistanceLess(tm, th)
			}
			hist = append(hist, fmt.Sprintf("%s(%v)", name, float64(th)))
			c.Eval(fmt.Sprintf("reuse|%s|%s|%d|%s", g.desc, t.desc, s, name), len(hist) > 1)
			if got != exp {
				r.violate("EdgeQuery.targetReuse."+name, fmt.Sprintf("%s target, %s, index %s, after %v on the same target object: %s(%v) = %v, exhaustive scan says %v", dir, t.kind, g.desc, hist[:len(hist)-1], name, float64(th), got, exp), replay(base))
			}
		}
	}
}

// reuseStream: indexes of every size class, ShapeIndex targets (closest and furthest) with several
// edges at different distances; a few point/edge/cell targets as controls.
func (r *runner) reuseStream(budget int) {
	rng := r.rng
	// the seeded shape: one indexed point, target points listed from the furthest to the closest
	{
		g := &geom{desc: "fixed:onepoint", radius: 0.3, center: faceCenters[0]}
		pv := s2.PointVector{s2.PointFromLatLng(s2.LatLngFromDegrees(0, 0))}
		g.add(&pv)
		idx := g.index()
		tg := &geom{desc: "points 10,7,4,1 deg"}
		tp := s2.PointVector{}
		for _, lng := range []float64{10, 7, 4, 1} {
			tp = append(tp, s2.PointFromLatLng(s2.LatLngFromDegrees(0, lng)))
		}
		tg.add(&tp)
		for _, far := range []bool{false, true} {
			t := &tgt{kind: "index", far: far, tg: tg, tidx: tg.index(), desc: "index{points far to near}"}
			for k := 0; k < 4; k++ {
				r.reuseHistory(g, idx, t, 8)
			}
		}
	}
	for i := 0; i < 40*budget; i++ {
		n := []int{1, 2, 4, 10, 24, 31, 45, 100}[rng.Intn(8)]
		g := genGeom(rng, n, false)
		idx := g.index()
		kind := "index"
		if rng.Intn(6) == 0 {
			kind = []string{"point", "edge", "cell"}[rng.Intn(3)]
		}
		t := genTarget(rng, g, rng.Intn(3) == 0, kind)
		r.reuseHistory(g, idx, t, 7)
	}
}
