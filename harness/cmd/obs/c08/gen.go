package main

// Generators: indexed geometry (below/above the brute-force thresholds, spanning 1..6 cube
// faces) and targets of every type.

import (
	"fmt"
	"math"

	"github.com/golang/geo/r3"
	"github.com/golang/geo/s1"
	"github.com/golang/geo/s2"
	"verifharness/internal/vkit"
)

func randPoint(rng *vkit.Rng) s2.Point {
	for {
		v := r3.Vector{X: rng.Range(-1, 1), Y: rng.Range(-1, 1), Z: rng.Range(-1, 1)}
		if n := v.Norm2(); n > 1e-3 && n <= 1 {
			return s2.Point{Vector: v.Normalize()}
		}
	}
}

// pointIn returns a random point within angle radius of center (uniform enough).
func pointIn(rng *vkit.Rng, center s2.Point, radius float64) s2.Point {
	if radius >= math.Pi {
		return randPoint(rng)
	}
	f := s2.Point{Vector: center.Ortho()}
	g := s2.Point{Vector: center.Cross(f.Vector).Normalize()}
	r := radius * math.Sqrt(rng.Float())
	th := rng.Range(0, 2*math.Pi)
	v := center.Mul(math.Cos(r)).Add(f.Mul(math.Sin(r) * math.Cos(th))).Add(g.Mul(math.Sin(r) * math.Sin(th)))
	return s2.Point{Vector: v.Normalize()}
}

// geom is a list of shapes together with a description.
type geom struct {
	desc   string
	shapes []s2.Shape
	center s2.Point
	radius float64
	nedges int
}

func (g *geom) add(sh s2.Shape) { g.shapes = append(g.shapes, sh); g.nedges += sh.NumEdges() }

func (g *geom) index() *s2.ShapeIndex {
	idx := s2.NewShapeIndex()
	for _, sh := range g.shapes {
		idx.Add(sh)
	}
	idx.Build()
	return idx
}

func cloud(rng *vkit.Rng, c s2.Point, radius float64, n int) s2.Shape {
	pv := make(s2.PointVector, 0, n)
	for i := 0; i < n; i++ {
		pv = append(pv, pointIn(rng, c, radius))
	}
	return &pv
}

func walk(rng *vkit.Rng, c s2.Point, radius float64, n int) s2.Shape {
	pl := make(s2.Polyline, 0, n+1)
	p := pointIn(rng, c, radius)
	pl = append(pl, p)
	step := radius / math.Sqrt(float64(n)+1) * 1.5
	for i := 0; i < n; i++ {
		q := pointIn(rng, p, step)
		if rng.Intn(8) == 0 {
			q = pointIn(rng, c, radius) // a long jump
		}
		pl = append(pl, q)
		p = q
	}
	return &pl
}

func regLoop(c s2.Point, radius float64, n int) *s2.Loop {
	if radius > 1.5 {
		radius = 1.5
	}
	return s2.RegularLoop(c, s1.Angle(radius), n)
}

// zigLoop is a star-shaped ("fractal-ish") loop: radii alternate so that edges are long and thin.
func zigLoop(rng *vkit.Rng, c s2.Point, radius float64, n int) *s2.Loop {
	if radius > 1.4 {
		radius = 1.4
	}
	f := s2.Point{Vector: c.Ortho()}
	g := s2.Point{Vector: c.Cross(f.Vector).Normalize()}
	pts := make([]s2.Point, 0, n)
	for i := 0; i < n; i++ {
		th := 2 * math.Pi * float64(i) / float64(n)
		r := radius
		switch i % 4 {
		case 1:
			r = radius * 0.55
		case 2:
			r = radius * 0.85
		case 3:
			r = radius * 0.4
		}
		r *= 1 + 0.02*rng.Float()
		v := c.Mul(math.Cos(r)).Add(f.Mul(math.Sin(r) * math.Cos(th))).Add(g.Mul(math.Sin(r) * math.Sin(th)))
		pts = append(pts, s2.Point{Vector: v.Normalize()})
	}
	return s2.LoopFromPoints(pts)
}

var faceCenters = []s2.Point{
	{Vector: r3.Vector{X: 1}}, {Vector: r3.Vector{Y: 1}}, {Vector: r3.Vector{Z: 1}},
	{Vector: r3.Vector{X: -1}}, {Vector: r3.Vector{Y: -1}}, {Vector: r3.Vector{Z: -1}},
}

// edgeCounts are chosen around the thresholds 25 (index target) and 30 (others).
var edgeCounts = []int{1, 4, 9, 10, 11, 24, 25, 26, 29, 30, 31, 32, 45, 64, 100, 180, 320}

// genGeom builds one indexed geometry of roughly n edges.
func genGeom(rng *vkit.Rng, n int, small bool) *geom {
	g := &geom{}
	g.center = randPoint(rng)
	if rng.Intn(4) == 0 {
		g.center = faceCenters[rng.Intn(6)]
	}
	radii := []float64{1e-5, 1e-3, 0.02, 0.2, 0.8, 1.5, math.Pi}
	g.radius = radii[rng.Intn(len(radii))]
	if small && g.radius < 0.02 {
		g.radius = 0.2
	}
	kind := rng.Intn(7)
	switch kind {
	case 0:
		g.desc = "cloud"
		g.add(cloud(rng, g.center, g.radius, n))
	case 1:
		g.desc = "walk"
		g.add(walk(rng, g.center, g.radius, n))
	case 2:
		g.desc = "regloop"
		m := n
		if m < 3 {
			m = 3
		}
		g.add(regLoop(g.center, g.radius, m))
	case 3:
		g.desc = "zigloop"
		m := n
		if m < 4 {
			m = 4
		}
		g.add(zigLoop(rng, g.center, g.radius, m))
	case 4:
		g.desc = "smallloops"
		left := n
		for left > 0 {
			m := 3 + rng.Intn(5)
			if m > left && left >= 3 {
				m = left
			}
			c := pointIn(rng, g.center, g.radius)
			g.add(regLoop(c, g.radius/8+1e-7, m))
			left -= m
		}
	case 5:
		g.desc = "sixfaces"
		// something on every face (or on a random subset of 2..6 faces)
		nf := 2 + rng.Intn(5)
		per := n/nf + 1
		start := rng.Intn(6)
		for f := 0; f < nf; f++ {
			c := faceCenters[(start+f)%6]
			switch rng.Intn(3) {
			case 0:
				g.add(cloud(rng, c, 0.3, per))
			case 1:
				g.add(walk(rng, c, 0.4, per))
			default:
				m := per
				if m < 3 {
					m = 3
				}
				g.add(regLoop(c, 0.25, m))
			}
		}
		g.radius = math.Pi
	default:
		g.desc = "mixed"
		left := n
		for left > 0 {
			m := 1 + rng.Intn(left)
			if rng.Intn(3) == 0 {
				m = left
			}
			c := pointIn(rng, g.center, g.radius)
			switch rng.Intn(4) {
			case 0:
				g.add(cloud(rng, c, g.radius/2, m))
			case 1:
				g.add(walk(rng, c, g.radius/2, m))
			case 2:
				if m < 3 {
					m = 3
				}
				g.add(regLoop(c, g.radius/3+1e-7, m))
			default:
				if m < 4 {
					m = 4
				}
				g.add(zigLoop(rng, c, g.radius/3+1e-7, m))
			}
			left -= m
		}
	}
	g.desc = fmt.Sprintf("%s/n=%d/r=%g", g.desc, g.nedges, g.radius)
	return g
}

// ---- targets ----

type tgt struct {
	kind string // point | edge | cell | index
	far  bool
	p    s2.Point
	e    s2.Edge
	cell s2.Cell
	tg   *geom
	tidx *s2.ShapeIndex
	desc string
}

func (t *tgt) make() s2.VerifC08Target {
	switch t.kind {
	case "point":
		if t.far {
			return s2.NewMaxDistanceToPointTarget(t.p)
		}
		return s2.NewMinDistanceToPointTarget(t.p)
	case "edge":
		if t.far {
			return s2.NewMaxDistanceToEdgeTarget(t.e)
		}
		return s2.NewMinDistanceToEdgeTarget(t.e)
	case "cell":
		if t.far {
			return s2.NewMaxDistanceToCellTarget(t.cell)
		}
		return s2.NewMinDistanceToCellTarget(t.cell)
	}
	if t.far {
		return s2.NewMaxDistanceToShapeIndexTarget(t.tidx)
	}
	return s2.NewMinDistanceToShapeIndexTarget(t.tidx)
}

func genTarget(rng *vkit.Rng, g *geom, far bool, kind string) *tgt {
	t := &tgt{kind: kind, far: far}
	// a position related to the geometry
	pos := func() s2.Point {
		switch rng.Intn(8) {
		case 0:
			return randPoint(rng)
		case 1: // exactly a vertex of the geometry
			sh := g.shapes[rng.Intn(len(g.shapes))]
			if sh.NumEdges() > 0 {
				return sh.Edge(rng.Intn(sh.NumEdges())).V0
			}
			return g.center
		case 2: // antipode of a vertex
			sh := g.shapes[rng.Intn(len(g.shapes))]
			if sh.NumEdges() > 0 {
				return s2.Point{Vector: sh.Edge(rng.Intn(sh.NumEdges())).V1.Mul(-1)}
			}
			return s2.Point{Vector: g.center.Mul(-1)}
		case 3:
			return faceCenters[rng.Intn(6)]
		case 4:
			return g.center
		case 5:
			return pointIn(rng, g.center, math.Min(math.Pi, 3*g.radius))
		default:
			return pointIn(rng, g.center, g.radius)
		}
	}
	switch kind {
	case "point":
		t.p = pos()
		t.desc = fmt.Sprintf("point%v", t.p)
	case "edge":
		a := pos()
		var b s2.Point
		switch rng.Intn(4) {
		case 0:
			b = a
		case 1:
			b = pos()
		default:
			b = pointIn(rng, a, math.Max(g.radius, 1e-6))
		}
		if a.Add(b.Vector).Norm2() < 1e-6 { // avoid antipodal edges
			b = pointIn(rng, a, 0.5)
		}
		t.e = s2.Edge{V0: a, V1: b}
		t.desc = fmt.Sprintf("edge%v-%v", a, b)
	case "cell":
		levels := []int{0, 1, 3, 6, 10, 16, 24, 30}
		id := s2.VerifC08LeafCellID(pos()).Parent(levels[rng.Intn(len(levels))])
		t.cell = s2.CellFromCellID(id)
		t.desc = fmt.Sprintf("cell %s", id.ToToken())
	default:
		sizes := []int{1, 2, 3, 6, 12, 28, 40}
		n := sizes[rng.Intn(len(sizes))]
		tg := genGeom(rng, n, false)
		// move it near the geometry most of the time
		if rng.Intn(3) != 0 {
			c := pos()
			tg = &geom{center: c, radius: math.Max(g.radius/2, 1e-6)}
			switch rng.Intn(3) {
			case 0:
				tg.add(cloud(rng, c, tg.radius, n))
				tg.desc = "cloud"
			case 1:
				tg.add(walk(rng, c, tg.radius, n))
				tg.desc = "walk"
			default:
				m := n
				if m < 3 {
					m = 3
				}
				if m > 30 {
					m = 30
				}
				tg.add(regLoop(c, tg.radius, m))
				tg.desc = "regloop"
			}
		}
		t.tg = tg
		t.tidx = tg.index()
		t.desc = fmt.Sprintf("index{%s n=%d}", tg.desc, tg.nedges)
	}
	return t
}

func chordOf(a float64) s1.ChordAngle { return s1.ChordAngleFromAngle(s1.Angle(a)) }
