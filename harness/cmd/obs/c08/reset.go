package main

// Reset histories: ONE EdgeQuery object answers on an index, the index is emptied and re-filled
// with different geometry (ShapeIndex.Reset, Add..., Build), the query is Reset() as its contract
// requires, and it answers again. The second answer is compared with the exhaustive scan over the
// NEW geometry and with a fresh query object: everything the query cached about the old index
// (covering cells, index-cell pointers, edge counts) must be gone.

import (
	"fmt"

	"github.com/golang/geo/s2"
)

func (r *runner) resetStream(budget int) {
	rng := r.rng
	c := r.c
	kinds := []string{"point", "edge", "cell", "index"}
	for i := 0; i < 10*budget; i++ {
		// both generations above the brute-force threshold so that the optimized search (the one with caches) runs
		g1 := genGeom(rng, edgeCounts[8+rng.Intn(len(edgeCounts)-8)], false)
		g2 := genGeom(rng, edgeCounts[8+rng.Intn(len(edgeCounts)-8)], false)
		idx := g1.index()
		far := rng.Intn(3) == 0
		q := qopts{k: ks[rng.Intn(len(ks))], interiors: true}
		query := newQuery(idx, far, q)
		t1 := genTarget(rng, g1, far, kinds[i%4])
		_ = query.FindEdges(t1.make())
		idx.Reset()
		for _, sh := range g2.shapes {
			idx.Add(sh)
		}
		idx.Build()
		query.Reset()
		t2 := genTarget(rng, g2, far, kinds[(i+1)%4])
		edges, interiors := candidates(g2, t2)
		c.Class("stream:query-reset-after-reindex")
		rp := replayOf(g2, t2, q)
		rp["history"] = []string{"FindEdges on the first geometry (" + g1.desc + ")", "ShapeIndex.Reset, Add..., Build", "EdgeQuery.Reset", "FindEdges"}
		rs, pan := func() (rs []s2.EdgeQueryResult, pan interface{}) {
			defer func() { pan = recover() }()
			return query.FindEdges(t2.make()), nil
		}()
		c.Eval(fmt.Sprintf("reset|%s|%s|%s|%d", g1.desc, g2.desc, t2.desc, i), true)
		if pan != nil {
			r.violate("EdgeQuery.afterReset.panic", fmt.Sprintf("query object reused after ShapeIndex.Reset/Add/Build and EdgeQuery.Reset panics: %v", pan), rp)
			continue
		}
		if bad, msg := outOfRange(rs); bad {
			r.violate("EdgeQuery.reportedDistance.outOfRange", "after re-indexing and EdgeQuery.Reset: "+msg, rp)
			continue
		}
		if msg := checkResults(t2, q, rs, edges, interiors); msg != "" {
			r.violate("EdgeQuery.afterReset.FindEdges", fmt.Sprintf("query object reused after ShapeIndex.Reset/Add/Build and EdgeQuery.Reset (first index %s, second index %s): %s", g1.desc, g2.desc, msg), rp)
			continue
		}
		fresh := newQuery(idx, far, q).FindEdges(t2.make())
		if !sameDistances(rs, fresh) {
			r.violate("EdgeQuery.afterReset.FindEdges", fmt.Sprintf("query object reused after re-indexing and Reset answers differently from a fresh query (%d vs %d results)", len(rs), len(fresh)), rp)
		}
	}
}
