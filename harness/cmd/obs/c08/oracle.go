package main

// The oracle: an exhaustive scan written here. For every indexed edge it evaluates the
// distance function the library documents for the target type (UpdateMinDistance, the
// edge-pair distance, Cell.DistanceToEdge, for index targets the minimum over the target's
// edges) and orders the candidates itself; containment for interior results is a
// brute-force crossing parity. Nothing of EdgeQuery is used.

import (
	"fmt"
	"math"
	"sort"

	"github.com/golang/geo/s1"
	"github.com/golang/geo/s2"
)

type cand struct {
	d     s1.ChordAngle
	shape int32
	edge  int32
}

type order struct{ far bool }

func (o order) less(a, b s1.ChordAngle) bool {
	if o.far {
		return a > b
	}
	return a < b
}
// sub: the distance d made better by the permitted error e, as an angle, clamped to [0, 4]
// (the documented meaning of MaxError; s1.ChordAngle arithmetic).
func (o order) sub(a, b s1.ChordAngle) s1.ChordAngle {
	if o.far {
		return a.Add(b)
	}
	return a.Sub(b)
}
func (o order) zero() s1.ChordAngle {
	if o.far {
		return s1.StraightChordAngle
	}
	return 0
}
func (o order) inf() s1.ChordAngle {
	if o.far {
		return s1.NegativeChordAngle
	}
	return s1.InfChordAngle()
}
func (o order) candLess(a, b cand) bool {
	if a.d != b.d {
		return o.less(a.d, b.d)
	}
	if a.shape != b.shape {
		return a.shape < b.shape
	}
	return a.edge < b.edge
}

// bruteContains: crossing parity from the shape's reference point (semi-open vertex model).
func bruteContains(sh s2.Shape, p s2.Point) bool {
	if sh.Dimension() != 2 {
		return false
	}
	ref := sh.ReferencePoint()
	inside := ref.Contained
	if ref.Point == p {
		return inside
	}
	for i := 0; i < sh.NumEdges(); i++ {
		e := sh.Edge(i)
		if s2.EdgeOrVertexCrossing(ref.Point, p, e.V0, e.V1) {
			inside = !inside
		}
	}
	return inside
}

func neg(p s2.Point) s2.Point { return s2.Point{Vector: p.Mul(-1)} }

func midpoint(e s2.Edge) s2.Point { return s2.Point{Vector: e.V0.Add(e.V1.Vector).Normalize()} }

// pairDist is the distance between two edges as the library's targets evaluate it.
func pairDist(far bool, a, b s2.Edge) s1.ChordAngle {
	if far {
		d, _ := s2.VerifC08EdgePairMaxDistance(a.V0, a.V1, b.V0, b.V1, s1.NegativeChordAngle)
		return d
	}
	d, _ := s2.VerifC08EdgePairMinDistance(a.V0, a.V1, b.V0, b.V1, s1.InfChordAngle())
	return d
}

// edgeDist: distance from the target to one indexed edge.
func (t *tgt) edgeDist(e s2.Edge) s1.ChordAngle {
	o := order{t.far}
	switch t.kind {
	case "point":
		if t.far {
			d, _ := s2.UpdateMaxDistance(t.p, e.V0, e.V1, s1.NegativeChordAngle)
			return d
		}
		d, _ := s2.UpdateMinDistance(t.p, e.V0, e.V1, s1.InfChordAngle())
		return d
	case "edge":
		return pairDist(t.far, t.e, e)
	case "cell":
		if t.far {
			return t.cell.MaxDistanceToEdge(e.V0, e.V1)
		}
		return t.cell.DistanceToEdge(e.V0, e.V1)
	}
	// index target: the inner query looks, from the indexed edge, for the best edge of the
	// target index; its own interiors are included (default), tested at the edge midpoint.
	best := o.inf()
	mp := midpoint(e)
	if t.far {
		mp = neg(mp)
	}
	for _, sh := range t.tg.shapes {
		if bruteContains(sh, mp) {
			return o.zero()
		}
	}
	for _, sh := range t.tg.shapes {
		for i := 0; i < sh.NumEdges(); i++ {
			d := pairDist(t.far, e, sh.Edge(i))
			if o.less(d, best) {
				best = d
			}
		}
	}
	return best
}

// repPoints: the points whose containment decides the interior results.
func (t *tgt) repPoints() []s2.Point {
	var ps []s2.Point
	switch t.kind {
	case "point":
		ps = []s2.Point{t.p}
	case "edge":
		ps = []s2.Point{midpoint(t.e)}
	case "cell":
		ps = []s2.Point{t.cell.Center()}
	default:
		for _, sh := range t.tg.shapes {
			for c := 0; c < sh.NumChains(); c++ {
				if sh.Chain(c).Length > 0 {
					ps = append(ps, sh.ChainEdge(c, 0).V0)
				}
			}
		}
	}
	if t.far {
		for i := range ps {
			ps[i] = neg(ps[i])
		}
	}
	return ps
}

// candidates returns the edge candidates (sorted) and the interior candidates.
func candidates(g *geom, t *tgt) (edges []cand, interiors []cand) {
	o := order{t.far}
	for sid, sh := range g.shapes {
		for i := 0; i < sh.NumEdges(); i++ {
			edges = append(edges, cand{t.edgeDist(sh.Edge(i)), int32(sid), int32(i)})
		}
	}
	rp := t.repPoints()
	for sid, sh := range g.shapes {
		for _, p := range rp {
			if bruteContains(sh, p) {
				interiors = append(interiors, cand{o.zero(), int32(sid), -1})
				break
			}
		}
	}
	return
}

type qopts struct {
	k         int // 0 = unlimited
	limit     s1.ChordAngle
	hasLimit  bool
	maxErr    s1.ChordAngle
	interiors bool
	brute     bool
}

func (q qopts) String() string {
	l := "none"
	if q.hasLimit {
		l = fmt.Sprintf("%v(%x)", float64(q.limit), math.Float64bits(float64(q.limit)))
	}
	return fmt.Sprintf("k=%d limit=%s maxErr=%v interiors=%v brute=%v", q.k, l, float64(q.maxErr), q.interiors, q.brute)
}

func (q qopts) build(far bool) *s2.EdgeQueryOptions {
	var o *s2.EdgeQueryOptions
	if far {
		o = s2.NewFurthestEdgeQueryOptions()
	} else {
		o = s2.NewClosestEdgeQueryOptions()
	}
	if q.k > 0 {
		o.MaxResults(q.k)
	}
	if q.hasLimit {
		o.DistanceLimit(q.limit)
	}
	o.MaxError(q.maxErr)
	o.IncludeInteriors(q.interiors)
	o.UseBruteForce(q.brute)
	return o
}

// eligible: all candidates better than the limit, in result order.
func eligible(o order, edges, interiors []cand, q qopts) []cand {
	lim := o.inf()
	if q.hasLimit {
		lim = q.limit
	}
	var el []cand
	all := edges
	if q.interiors {
		all = append(append([]cand{}, edges...), interiors...)
	}
	for _, c := range all {
		if o.less(c.d, lim) {
			el = append(el, c)
		}
	}
	sort.Slice(el, func(i, j int) bool { return o.candLess(el[i], el[j]) })
	return el
}

// usesErr: the target substitutes approximate distances (index targets are always handed the
// current MaxError and stop their inner search early when it is non-zero).
func usesErr(t *tgt, q qopts) bool {
	return t.kind == "index" && q.maxErr != 0
}

// checkResults compares one FindEdges answer with the oracle; returns "" or a description.
func checkResults(t *tgt, q qopts, rs []s2.EdgeQueryResult, edges, interiors []cand) string {
	o := order{t.far}
	el := eligible(o, edges, interiors, q)
	k := q.k
	if k <= 0 {
		k = math.MaxInt32
	}
	want := len(el)
	if want > k {
		want = k
	}
	if len(rs) > k {
		return fmt.Sprintf("%d results exceed MaxResults %d", len(rs), k)
	}
	if len(rs) != want {
		return fmt.Sprintf("%d results, the exhaustive scan has %d (of %d within the limit)", len(rs), want, len(el))
	}
	// table of candidate distances
	dist := map[[2]int32]s1.ChordAngle{}
	for _, c := range edges {
		dist[[2]int32{c.shape, c.edge}] = c.d
	}
	if q.interiors {
		for _, c := range interiors {
			dist[[2]int32{c.shape, c.edge}] = c.d
		}
	}
	approx := usesErr(t, q)
	exactRank := q.maxErr == 0 || (q.k != 1 && !approx)
	seen := map[[2]int32]bool{}
	for i, r := range rs {
		id := [2]int32{r.ShapeID(), r.EdgeID()}
		if seen[id] {
			return fmt.Sprintf("edge (%d,%d) is reported twice", id[0], id[1])
		}
		seen[id] = true
		rc := cand{r.Distance(), r.ShapeID(), r.EdgeID()}
		if i > 0 {
			pc := cand{rs[i-1].Distance(), rs[i-1].ShapeID(), rs[i-1].EdgeID()}
			if !o.candLess(pc, rc) {
				return fmt.Sprintf("results %d,%d not strictly increasing in (distance, shape, edge): %v %v", i-1, i, pc, rc)
			}
		}
		td, ok := dist[[2]int32{rc.shape, rc.edge}]
		if !ok {
			return fmt.Sprintf("result %d (%d,%d) is not an edge/interior of the index that the scan accepts", i, rc.shape, rc.edge)
		}
		if math.IsNaN(float64(rc.d)) {
			return fmt.Sprintf("result %d has NaN distance", i)
		}
		if !approx {
			if rc.d != td {
				return fmt.Sprintf("result %d (%d,%d) reports distance %v, the scan computes %v", i, rc.shape, rc.edge, float64(rc.d), float64(td))
			}
		} else {
			if o.less(rc.d, td) || o.less(td, o.sub(rc.d, q.maxErr)) {
				return fmt.Sprintf("result %d (%d,%d) reports distance %v, true %v, not within MaxError %v", i, rc.shape, rc.edge, float64(rc.d), float64(td), float64(q.maxErr))
			}
		}
		if exactRank {
			if rc.d != el[i].d {
				return fmt.Sprintf("rank %d: distance %v, the exhaustive scan's rank-%d distance is %v", i, float64(rc.d), i, float64(el[i].d))
			}
		} else {
			if o.less(rc.d, el[i].d) || o.less(el[i].d, o.sub(rc.d, q.maxErr)) {
				return fmt.Sprintf("rank %d: distance %v not within MaxError %v of the optimum %v", i, float64(rc.d), float64(q.maxErr), float64(el[i].d))
			}
		}
	}
	// exact identity of the edges up to ties at the cut
	if exactRank {
		n := len(rs)
		tieFree := n
		if n < len(el) && n > 0 && el[n].d == el[n-1].d {
			for tieFree > 0 && el[tieFree-1].d == el[n].d {
				tieFree--
			}
		}
		if q.k == 1 {
			tieFree = 0
			if n == 1 && (len(el) == 1 || el[1].d != el[0].d) {
				tieFree = 1
			}
		}
		for i := 0; i < tieFree; i++ {
			if rs[i].ShapeID() != el[i].shape || rs[i].EdgeID() != el[i].edge {
				return fmt.Sprintf("rank %d is (%d,%d), the exhaustive scan has (%d,%d)", i, rs[i].ShapeID(), rs[i].EdgeID(), el[i].shape, el[i].edge)
			}
		}
	}
	return ""
}
