package main

// Fixed regression inputs run before the random ones: the inputs on which the defects
// repaired in /repo (11e5dc5, a8394b9, 1a52cec) showed.

import (
	"github.com/golang/geo/s1"
	"github.com/golang/geo/s2"
)

func (r *runner) fixed() {
	// (a) 60 points on six faces, point targets at the face centres (initCovering)
	g := &geom{desc: "fixed:sixfaces-cloud", radius: 3.2, center: faceCenters[0]}
	var pts s2.PointVector
	for f := 0; f < 6; f++ {
		for k := 0; k < 10; k++ {
			pts = append(pts, s2.CellIDFromFacePosLevel(f, uint64(k)*0x0123456789abcd, 30).Point())
		}
	}
	g.add(&pts)
	idx := g.index()
	for f := 0; f < 6; f++ {
		t := &tgt{kind: "point", p: faceCenters[f], desc: "face centre"}
		r.runPair(g, idx, t, 9, f%2 == 0)
		t2 := &tgt{kind: "point", far: true, p: faceCenters[f], desc: "face centre"}
		r.runPair(g, idx, t2, 8, false)
	}
	// (b) 8x8 grid of points, index target of two points, finite limits (capBound of the index target)
	g2 := &geom{desc: "fixed:grid8x8", radius: 0.5, center: faceCenters[0]}
	var grid s2.PointVector
	for i := 0; i < 8; i++ {
		for j := 0; j < 8; j++ {
			grid = append(grid, s2.PointFromLatLng(s2.LatLngFromDegrees(float64(i*5-20), float64(j*5-20))))
		}
	}
	g2.add(&grid)
	idx2 := g2.index()
	tg := &geom{desc: "two points"}
	tp := s2.PointVector{s2.PointFromLatLng(s2.LatLngFromDegrees(1, 1)), s2.PointFromLatLng(s2.LatLngFromDegrees(2, 2))}
	tg.add(&tp)
	for _, far := range []bool{false, true} {
		t := &tgt{kind: "index", far: far, tg: tg, tidx: tg.index(), desc: "index{two points}"}
		r.runPair(g2, idx2, t, 14, !far)
	}
	// (c) the same with MaxError > 0 and MaxResults > 1 (testedEdges), every path
	o := order{}
	t := &tgt{kind: "index", tg: tg, tidx: tg.index(), desc: "index{two points}"}
	edges, interiors := candidates(g2, t)
	for _, k := range []int{2, 5, 0} {
		for _, e := range []s1.ChordAngle{chordOf(0.01), chordOf(0.3)} {
			q := qopts{k: k, maxErr: e, interiors: true}
			query := newQuery(idx2, false, q)
			rs := query.FindEdges(t.make())
			r.c.Eval("fixed:c:"+q.String(), true)
			if msg := checkResults(t, q, rs, edges, interiors); msg != "" {
				r.violate("EdgeQuery.FindEdges.optimized", "closest target, index, optimized path, index fixed:grid8x8: "+msg, replayOf(g2, t, q))
			}
		}
	}
	_ = o
	// (d) furthest query, ShapeIndex target of two shapes, MaxError = StraightChordAngle, many results
	// (6fd85ac: the error was tested against distance.zero() = 4, duplicate avoidance stayed off; the
	// target's inner brute-force loop ranges over a Go map, so the query is repeated)
	g3 := &geom{desc: "fixed:zigzag40", radius: 0.6, center: s2.PointFromLatLng(s2.LatLngFromDegrees(0, 20))}
	var zz s2.Polyline
	for i := 0; i <= 40; i++ {
		lat := 20.0
		if i%2 == 1 {
			lat = -20
		}
		zz = append(zz, s2.PointFromLatLng(s2.LatLngFromDegrees(lat, float64(i))))
	}
	g3.add(&zz)
	idx3 := g3.index()
	tg2 := &geom{desc: "two far points"}
	pa := s2.PointVector{s2.PointFromLatLng(s2.LatLngFromDegrees(0, 100))}
	pb := s2.PointVector{s2.PointFromLatLng(s2.LatLngFromDegrees(0, -100))}
	tg2.add(&pa)
	tg2.add(&pb)
	for _, far := range []bool{true, false} {
		t3 := &tgt{kind: "index", far: far, tg: tg2, tidx: tg2.index(), desc: "index{two far one-point shapes}"}
		for rep := 0; rep < 6; rep++ {
			r.runPairWith(g3, idx3, t3, 0, false, func(all []cand) []qopts {
				return []qopts{{k: 1000, maxErr: s1.StraightChordAngle, interiors: true}, {k: 0, maxErr: chordOf(1.0), interiors: true},
					{k: 5, maxErr: s1.StraightChordAngle, interiors: true}}
			})
		}
	}
}
