// Observer for C09 "Encoding is lossless".
//
// [T] the bytes the implementation writes are compared bit-exactly with encode_T of the Coq
// model (Model/Codec.v), and the value the implementation decodes with decode_T of those bytes;
// the translated leaf functions (zig-zag, interleave, (si,ti)->(pi,qi), cell-centre detection) and
// the hand-modelled n-th derivative coder are compared directly as well.
// [S] the round trip itself on the implementation: decode(encode(v)) equals v field by field,
// floats by bit pattern; encoding twice gives the same bytes; an encodable value is decodable;
// and the float exactness step H_piqi_exact the Coq round-trip theorem of the compressed format
// rests on.
package main

import (
	"bytes"
	"fmt"
	"math"
	"strings"

	"github.com/golang/geo/s1"
	"github.com/golang/geo/s2"
	cg "verifharness/internal/codecgen"
	"verifharness/internal/vkit"
)

func main() { vkit.Main("C09", []string{"Base.Bytes", "Gen.Codec", "Model.Codec"}, run) }

func bitsEq(a, b float64) bool { return math.Float64bits(a) == math.Float64bits(b) }
func ptEq(a, b s2.Point) bool  { return bitsEq(a.X, b.X) && bitsEq(a.Y, b.Y) && bitsEq(a.Z, b.Z) }
func rectEq(a, b s2.Rect) bool {
	return bitsEq(a.Lat.Lo, b.Lat.Lo) && bitsEq(a.Lat.Hi, b.Lat.Hi) && bitsEq(a.Lng.Lo, b.Lng.Lo) && bitsEq(a.Lng.Hi, b.Lng.Hi)
}
func ptsEq(a, b []s2.Point) bool {
	if len(a) != len(b) {
		return false
	}
	for i := range a {
		if !ptEq(a[i], b[i]) {
			return false
		}
	}
	return true
}
func hexPts(ps []s2.Point) []string {
	out := make([]string, len(ps))
	for i, p := range ps {
		out[i] = fmt.Sprintf("%016x,%016x,%016x", math.Float64bits(p.X), math.Float64bits(p.Y), math.Float64bits(p.Z))
	}
	return out
}

// perKind caps the number of reported violations of one kind (the collector keeps 20 in total).
var perKind = map[string]int{}

func violate(c *vkit.Collector, kind, desc string, replay interface{}) {
	perKind[kind]++
	if perKind[kind] <= 2 {
		c.Violate(kind, desc, replay)
	}
}

func run(c *vkit.Collector, rng *vkit.Rng, budget int) {
	beyondLimits(c, rng, budget)
	floatBits(c, rng, budget)
	primitives(c, rng, budget)
	piqiExact(c, rng, budget)
	simpleTypes(c, rng, budget)
	loops(c, rng, budget)
	polygons(c, rng, budget)
	latticeSweep(c, rng, budget)
	tiePolygons(c, rng, budget)
	queryAnswers(c, rng, budget)
	chunkedReaders(c, rng, budget)
	c.Extra["violations_by_kind"] = perKind
}

// ---- H_f64_frombits_bits / H_f64_eqb_bits: the two conversions of Base/GoPrim.v ----

func floatBits(c *vkit.Collector, rng *vkit.Rng, budget int) {
	for k := 0; k < 120*budget; k++ {
		f := cg.AnyFloat(rng)
		if math.IsNaN(f) {
			continue
		}
		b := math.Float64bits(f)
		c.Eval(fmt.Sprintf("f64bits:%x", b), true)
		c.Check(fmt.Sprintf("bits(frombits %x)", b), vkit.App("Z.eqb", vkit.App("go_float64bits", vkit.App("go_float64frombits", cg.U64T(b))), cg.U64T(b)))
		c.Check(fmt.Sprintf("frombits(bits %x)", b), vkit.App("fbiteq", vkit.App("go_float64frombits", vkit.App("go_float64bits", vkit.F(f))), vkit.F(f)))
		c.Check(fmt.Sprintf("frombits %x", b), vkit.App("fbiteq", vkit.App("go_float64frombits", cg.U64T(b)), vkit.F(f)))
	}
}

// checkCentre is H_piqi_exact on one vertex: if the detection accepts p at a level, the decoder's
// reconstruction from the shifted (si,ti) is bit for bit the vector p was compared with.
func checkCentre(c *vkit.Collector, p s2.Point) {
	f, si, ti, lv := s2.VerifC09XYZToFaceSiTi(p)
	if lv < 0 {
		return
	}
	c.Eval("piqi-vertex", false)
	want := s2.Point{Vector: s2.VerifC09FaceSiTiToXYZ(f, si, ti).Normalize()}
	got := s2.VerifC09FacePiQiToXYZ(f, s2.VerifC09SiTiToPiQi(si, lv), s2.VerifC09SiTiToPiQi(ti, lv), lv)
	if !ptEq(want, got) {
		violate(c, "H_piqi_exact", "an accepted cell centre is not reconstructed bit for bit", map[string]interface{}{"p": hexPts([]s2.Point{p}), "face": f, "si": si, "ti": ti, "level": lv})
	}
	if p.Vector != got.Vector {
		violate(c, "H_piqi_exact", "an accepted cell centre is not == its reconstruction", map[string]interface{}{"p": hexPts([]s2.Point{p}), "face": f, "si": si, "ti": ti, "level": lv})
	}
}

// ---- leaf functions and the coder ----

func primitives(c *vkit.Collector, rng *vkit.Rng, budget int) {
	i32s := []int32{0, 1, -1, 2, -2, math.MaxInt32, math.MinInt32, math.MaxInt32 - 1, math.MinInt32 + 1, 1 << 30, -(1 << 30)}
	for k := 0; k < 40*budget; k++ {
		x := int32(rng.U64())
		if k < len(i32s) {
			x = i32s[k]
		}
		c.Eval(fmt.Sprintf("zz:%d", x), true)
		z := s2.VerifC09ZigzagEncode(x)
		c.Check(fmt.Sprintf("zigzagEncode %d", x), vkit.App("Z.eqb", vkit.App("s2_zigzagEncode", vkit.Z(int64(x))), vkit.U(uint64(z))))
		c.Check(fmt.Sprintf("zigzagDecode %d", z), vkit.App("Z.eqb", vkit.App("s2_zigzagDecode", vkit.U(uint64(z))), vkit.Z(int64(s2.VerifC09ZigzagDecode(z)))))
		if s2.VerifC09ZigzagDecode(z) != x {
			violate(c, "zigzag", "zigzagDecode(zigzagEncode(x)) != x", map[string]interface{}{"x": x})
		}
		u := uint32(rng.U64())
		c.Check(fmt.Sprintf("zigzagDecode %d", u), vkit.App("Z.eqb", vkit.App("s2_zigzagDecode", vkit.U(uint64(u))), vkit.Z(int64(s2.VerifC09ZigzagDecode(u)))))
	}
	u32s := []uint32{0, 1, 0xFFFFFFFF, 0x80000000, 0x7FFFFFFF, 0x55555555, 0xAAAAAAAA, 0x0000FFFF, 0xFFFF0000, 0x00FF00FF}
	for k := 0; k < 40*budget; k++ {
		a, b := uint32(rng.U64()), uint32(rng.U64())
		if k < len(u32s)*len(u32s) {
			a, b = u32s[k%len(u32s)], u32s[k/len(u32s)]
		}
		c.Eval(fmt.Sprintf("il:%d:%d", a, b), true)
		v := s2.VerifC09Interleave(a, b)
		c.Check(fmt.Sprintf("interleave %d %d", a, b), vkit.App("Z.eqb", vkit.App("s2_interleaveUint32", vkit.U(uint64(a)), vkit.U(uint64(b))), vkit.U(v)))
		x, y := s2.VerifC09Deinterleave(v)
		if x != a || y != b {
			violate(c, "interleave", "deinterleave(interleave(a,b)) != (a,b)", map[string]interface{}{"a": a, "b": b})
		}
		w := rng.U64()
		x, y = s2.VerifC09Deinterleave(w)
		c.Check(fmt.Sprintf("deinterleave %d", w), vkit.App("pair_beq Z.eqb Z.eqb", vkit.App("s2_deinterleaveUint32", vkit.U(w)), vkit.Pair(vkit.U(uint64(x)), vkit.U(uint64(y)))))
	}
	// n-th derivative coder, every order, sequences with wrap-around
	for k := 0; k < 12*budget; k++ {
		n := k % 11
		ln := 1 + rng.Intn(14)
		xs := make([]int32, ln)
		for i := range xs {
			switch rng.Intn(4) {
			case 0:
				xs[i] = i32s[rng.Intn(len(i32s))]
			case 1:
				xs[i] = int32(rng.Intn(2000) - 1000)
			default:
				xs[i] = int32(rng.U64())
			}
		}
		enc := s2.VerifC09NthEncode(n, xs)
		dec := s2.VerifC09NthDecode(n, enc)
		c.Eval(fmt.Sprintf("nth:%d:%v", n, xs), true)
		for i := range xs {
			if dec[i] != xs[i] {
				violate(c, "nthDerivativeCoder", "decode(encode(xs)) != xs", map[string]interface{}{"n": n, "xs": xs})
				break
			}
		}
		zl := func(v []int32) string {
			s := make([]string, len(v))
			for i, x := range v {
				s[i] = vkit.Z(int64(x))
			}
			return vkit.List(s)
		}
		c.Check(fmt.Sprintf("nth encode order %d %v", n, xs), vkit.App("list_eqb Z.eqb", vkit.App("coder_encode_seq", vkit.App("coder_new", vkit.Z(int64(n))), zl(xs)), zl(enc)))
		c.Check(fmt.Sprintf("nth decode order %d %v", n, enc), vkit.App("list_eqb Z.eqb", vkit.App("coder_decode_seq", vkit.App("coder_new", vkit.Z(int64(n))), zl(enc)), zl(dec)))
		garbage := s2.VerifC09NthDecode(n, xs)
		c.Check(fmt.Sprintf("nth decode(any) order %d %v", n, xs), vkit.App("list_eqb Z.eqb", vkit.App("coder_decode_seq", vkit.App("coder_new", vkit.Z(int64(n))), zl(xs)), zl(garbage)))
	}
}

// ---- H_piqi_exact: the decoder recomputes a cell centre to the last bit ----

func piqiExact(c *vkit.Collector, rng *vkit.Rng, budget int) {
	n := 60000 * budget
	bad := 0
	for k := 0; k < n; k++ {
		level := rng.Intn(31)
		if k < 31*8 {
			level = k % 31
		}
		var pi, qi uint32
		max := uint32(1)<<uint(level) - 1
		pick := func() uint32 {
			switch rng.Intn(6) {
			case 0:
				return 0
			case 1:
				return max
			case 2:
				return max / 2
			case 3:
				if max > 0 {
					return max/2 + 1
				}
				return 0
			}
			if max == 0 {
				return 0
			}
			return uint32(rng.U64()) & max
		}
		pi, qi = pick(), pick()
		si := (2*pi + 1) << uint(30-level)
		ti := (2*qi + 1) << uint(30-level)
		face := rng.Intn(6)
		c.Eval("piqi", false)
		if !bitsEq(s2.VerifC09PiQiToST(pi, level), s2.VerifC09SiTiToST(si)) {
			bad++
			violate(c, "H_piqi_exact", "piQiToST(pi,level) != siTiToST((2pi+1)<<(30-level))", map[string]interface{}{"pi": pi, "level": level})
		}
		want := s2.Point{Vector: s2.VerifC09FaceSiTiToXYZ(face, si, ti).Normalize()}
		got := s2.VerifC09FacePiQiToXYZ(face, pi, qi, level)
		if !ptEq(want, got) {
			bad++
			violate(c, "H_piqi_exact", "facePiQitoXYZ != faceSiTiToXYZ.Normalize() bit for bit", map[string]interface{}{"face": face, "pi": pi, "qi": qi, "level": level})
		}
		if s2.VerifC09SiTiToPiQi(si, level) != pi {
			violate(c, "siTitoPiQi", "siTitoPiQi((2pi+1)<<(30-level)) != pi", map[string]interface{}{"pi": pi, "level": level})
		}
		if k%400 == 0 {
			// the same identity inside the model (translated functions), as a [T] case
			c.Check(fmt.Sprintf("piqi model level %d pi %d qi %d face %d", level, pi, qi, face),
				vkit.App("point_eqb",
					vkit.App("point_of_vec", vkit.App("s2_facePiQitoXYZ", vkit.Z(int64(face)), vkit.U(uint64(pi)), vkit.U(uint64(qi)), vkit.Z(int64(level)))),
					cg.InZ(cg.PointT(got))))
			// and the cell-centre detection accepts it at that level
			f2, s2i, t2i, lv := s2.VerifC09XYZToFaceSiTi(got)
			c.Check(fmt.Sprintf("xyzToFaceSiTi level %d pi %d qi %d face %d", level, pi, qi, face),
				vkit.App("xfst_eqb", vkit.App("xyz_face_siti", cg.InZ(cg.PointT(got))),
					vkit.App("mkxfst", cg.InZ(cg.PointT(got)), vkit.Z(int64(f2)), vkit.U(uint64(s2i)), vkit.U(uint64(t2i)), vkit.Z(int64(lv)))))
			if lv != level || f2 != face || s2i != si || t2i != ti {
				violate(c, "xyzToFaceSiTi", "a cell centre is not recognised at its level", map[string]interface{}{"face": face, "si": si, "ti": ti, "level": level, "got": []int64{int64(f2), int64(s2i), int64(t2i), int64(lv)}})
			}
		}
	}
	// exhaustive at the coarse levels: every (pi, qi) of levels 0..6 on every face
	exh := 0
	for level := 0; level <= 6; level++ {
		for pi := uint32(0); pi < 1<<uint(level); pi++ {
			for qi := uint32(0); qi < 1<<uint(level); qi++ {
				for face := 0; face < 6; face++ {
					si := (2*pi + 1) << uint(30-level)
					ti := (2*qi + 1) << uint(30-level)
					want := s2.Point{Vector: s2.VerifC09FaceSiTiToXYZ(face, si, ti).Normalize()}
					got := s2.VerifC09FacePiQiToXYZ(face, pi, qi, level)
					exh++
					if !ptEq(want, got) {
						bad++
						violate(c, "H_piqi_exact", "facePiQitoXYZ != faceSiTiToXYZ.Normalize() bit for bit (exhaustive sweep)", map[string]interface{}{"face": face, "pi": pi, "qi": qi, "level": level})
					}
					checkCentre(c, got)
				}
			}
		}
	}
	c.Extra["piqi_exact_exhaustive_levels_0_6"] = exh
	c.Extra["piqi_exact_checked"] = n
	c.Extra["piqi_exact_failed"] = bad
}

// ---- Point, Cap, Rect, CellID, Cell, CellUnion, Polyline ----

func simpleTypes(c *vkit.Collector, rng *vkit.Rng, budget int) {
	n := 25 * budget
	for k := 0; k < n; k++ {
		// Point
		{
			p := cg.AnyPoint(rng)
			b, err := cg.Enc(func(w *bytes.Buffer) error { return p.Encode(w) })
			b2, _ := cg.Enc(func(w *bytes.Buffer) error { return p.Encode(w) })
			var q s2.Point
			derr := q.Decode(bytes.NewReader(b))
			c.Class("point")
			c.Eval("point:"+cg.PointT(p), true)
			rep := map[string]interface{}{"type": "Point", "bits": hexPts([]s2.Point{p}), "bytes": fmt.Sprintf("%x", b)}
			if err != nil || derr != nil || !ptEq(p, q) {
				violate(c, "Point.roundtrip", fmt.Sprintf("decode(encode(p)) != p (%v %v)", err, derr), rep)
			}
			if !bytes.Equal(b, b2) {
				violate(c, "Point.deterministic", "two encodings differ", rep)
			}
			c.Check("encode_point "+cg.PointT(p), vkit.App("bytes_eqb", vkit.App("encode_point", cg.InZ(cg.PointT(p))), cg.InZ(cg.BytesT(b))))
			c.Check("decode_point "+cg.PointT(p), vkit.App("result_eqb point_eqb", vkit.App("decode_point", cg.InZ(cg.BytesT(b))), vkit.App("Ok", cg.InZ(cg.PointT(q)))))
		}
		// Cap
		{
			v := cg.AnyCap(rng)
			b, err := cg.Enc(func(w *bytes.Buffer) error { return v.Encode(w) })
			var q s2.Cap
			derr := q.Decode(bytes.NewReader(b))
			c.Class("cap")
			c.Eval("cap:"+cg.CapT(v), true)
			c1, r1 := s2.VerifC09CapFields(v)
			c2, r2 := s2.VerifC09CapFields(q)
			if err != nil || derr != nil || !ptEq(c1, c2) || !bitsEq(r1, r2) {
				violate(c, "Cap.roundtrip", "decode(encode(cap)) != cap", map[string]interface{}{"type": "Cap", "term": cg.CapT(v)})
			}
			c.Check("encode_cap "+cg.CapT(v), vkit.App("bytes_eqb", vkit.App("encode_cap", cg.InZ(cg.CapT(v))), cg.InZ(cg.BytesT(b))))
			c.Check("decode_cap "+cg.CapT(v), vkit.App("result_eqb cap_eqb", vkit.App("decode_cap", cg.InZ(cg.BytesT(b))), vkit.App("Ok", cg.InZ(cg.CapT(q)))))
		}
		// Rect
		{
			v := cg.ValidRect(rng)
			b, err := cg.Enc(func(w *bytes.Buffer) error { return v.Encode(w) })
			var q s2.Rect
			derr := q.Decode(bytes.NewReader(b))
			c.Class("rect")
			c.Eval("rect:"+cg.RectT(v), true)
			if err != nil || derr != nil || !rectEq(v, q) {
				violate(c, "Rect.roundtrip", "decode(encode(rect)) != rect", map[string]interface{}{"type": "Rect", "term": cg.RectT(v)})
			}
			c.Check("encode_rect "+cg.RectT(v), vkit.App("bytes_eqb", vkit.App("encode_rect", cg.InZ(cg.RectT(v))), cg.InZ(cg.BytesT(b))))
			c.Check("decode_rect "+cg.RectT(v), vkit.App("result_eqb rect_eqb", vkit.App("decode_rect", cg.InZ(cg.BytesT(b))), vkit.App("Ok", cg.InZ(cg.RectT(q)))))
		}
		// informational: values outside the types' validity (arbitrary Rect, loop with an arbitrary bound):
		// Decode(Encode(v)) is an error or the identical value, never a different value
		{
			v := cg.AnyRect(rng)
			b, _ := cg.Enc(func(w *bytes.Buffer) error { return v.Encode(w) })
			var q s2.Rect
			derr := q.Decode(bytes.NewReader(b))
			c.Class(fmt.Sprintf("rect(any):valid=%v", v.IsValid()))
			if derr == nil && !rectEq(v, q) {
				violate(c, "Rect.decodesDifferent", "an arbitrary Rect decodes to a different value", map[string]interface{}{"term": cg.RectT(v)})
			}
			if derr == nil && !v.IsValid() {
				violate(c, "Rect.invalidAccepted", "Rect.Decode accepts an invalid rectangle", map[string]interface{}{"term": cg.RectT(v), "bytes": fmt.Sprintf("%x", b)})
			}
			if derr != nil && v.IsValid() {
				violate(c, "Rect.roundtrip", "a valid Rect does not decode: "+derr.Error(), map[string]interface{}{"term": cg.RectT(v)})
			}
			c.Check("decode_rect(any) "+cg.RectT(v), vkit.App("Z.eqb", vkit.App("result_class", vkit.App("decode_rect", cg.InZ(cg.BytesT(b)))), vkit.Z(map[bool]int64{true: 1, false: 0}[derr != nil])))
			vs := []s2.Point{cg.FinitePoint(rng), cg.FinitePoint(rng), cg.FinitePoint(rng)}
			l := s2.VerifC09LoopRaw(vs, rng.Bool(), 1, v)
			lb, _ := cg.Enc(func(w *bytes.Buffer) error { return l.Encode(w) })
			ql := new(s2.Loop)
			lerr := ql.Decode(bytes.NewReader(lb))
			c.Class(fmt.Sprintf("loop(any bound):valid=%v", v.IsValid()))
			if lerr == nil {
				if ok, what := loopFieldsEq(l, ql); !ok {
					violate(c, "Loop.decodesDifferent", "a loop with an arbitrary bound decodes to a different value in "+what, map[string]interface{}{"bytes": fmt.Sprintf("%x", lb)})
				}
			}
			if (lerr == nil) != v.IsValid() {
				violate(c, "Loop.boundValidity", "Loop.Decode accepts the loop iff its stored bound is a valid Rect", map[string]interface{}{"bytes": fmt.Sprintf("%x", lb), "err": fmt.Sprint(lerr)})
			}
		}
		// CellID and Cell
		{
			id := cg.AnyCellID(rng)
			b, err := cg.Enc(func(w *bytes.Buffer) error { return id.Encode(w) })
			var q s2.CellID
			derr := q.Decode(bytes.NewReader(b))
			c.Class("cellid")
			c.Eval(fmt.Sprintf("cellid:%x", uint64(id)), true)
			if err != nil || derr != nil || q != id {
				violate(c, "CellID.roundtrip", "decode(encode(id)) != id", map[string]interface{}{"type": "CellID", "id": uint64(id)})
			}
			c.Check(fmt.Sprintf("encode_cellid %x", uint64(id)), vkit.App("bytes_eqb", vkit.App("encode_cellid", cg.U64T(uint64(id))), cg.InZ(cg.BytesT(b))))
			c.Check(fmt.Sprintf("decode_cellid %x", uint64(id)), vkit.App("result_eqb Z.eqb", vkit.App("decode_cellid", cg.InZ(cg.BytesT(b))), vkit.App("Ok", cg.U64T(uint64(q)))))
			if id.IsValid() {
				cell := s2.CellFromCellID(id)
				cb, err := cg.Enc(func(w *bytes.Buffer) error { return cell.Encode(w) })
				var cq s2.Cell
				derr := cq.Decode(bytes.NewReader(cb))
				c.Class("cell")
				if err != nil || derr != nil || cq != cell {
					violate(c, "Cell.roundtrip", "decode(encode(cell)) != cell", map[string]interface{}{"type": "Cell", "id": uint64(id)})
				}
				c.Check(fmt.Sprintf("encode_cell %x", uint64(id)), vkit.App("bytes_eqb", vkit.App("encode_cell", cg.U64T(uint64(id))), cg.InZ(cg.BytesT(cb))))
				c.Check(fmt.Sprintf("decode_cell %x", uint64(id)), vkit.App("result_eqb Z.eqb", vkit.App("decode_cell", cg.InZ(cg.BytesT(cb))), vkit.App("Ok", cg.U64T(uint64(cq.ID())))))
			}
		}
		// CellUnion (any ids, normalised or not)
		{
			m := []int{0, 1, 2, 5, 17}[rng.Intn(5)]
			cu := make(s2.CellUnion, m)
			for i := range cu {
				cu[i] = cg.CellAt(rng, rng.Intn(6), rng.Intn(31), rng.Intn(4))
			}
			if rng.Intn(3) == 0 {
				cu.Normalize()
			}
			b, err := cg.Enc(func(w *bytes.Buffer) error { return cu.Encode(w) })
			var q s2.CellUnion
			derr := q.Decode(bytes.NewReader(b))
			c.Class(fmt.Sprintf("cellunion:%d", len(cu)))
			c.Eval("cellunion:"+cg.CellIDsT(cu), len(cu) > 0)
			same := len(q) == len(cu)
			for i := 0; same && i < len(cu); i++ {
				same = q[i] == cu[i]
			}
			if err != nil || derr != nil || !same {
				violate(c, "CellUnion.roundtrip", "decode(encode(cu)) != cu", map[string]interface{}{"type": "CellUnion", "ids": cg.CellIDsT(cu)})
			}
			c.Check("encode_cellunion "+cg.CellIDsT(cu), vkit.App("bytes_eqb", vkit.App("encode_cellunion", cg.InZ(cg.CellIDsT(cu))), cg.InZ(cg.BytesT(b))))
			c.Check("decode_cellunion "+cg.CellIDsT(cu), vkit.App("result_eqb (list_eqb Z.eqb)", vkit.App("decode_cellunion", cg.InZ(cg.BytesT(b))), vkit.App("Ok", cg.InZ(cg.CellIDsT(q)))))
		}
		// Polyline
		{
			m := []int{0, 1, 2, 3, 9}[rng.Intn(5)]
			pl := make(s2.Polyline, m)
			for i := range pl {
				pl[i] = cg.FinitePoint(rng)
			}
			b, err := cg.Enc(func(w *bytes.Buffer) error { return pl.Encode(w) })
			var q s2.Polyline
			derr := q.Decode(bytes.NewReader(b))
			c.Class(fmt.Sprintf("polyline:%d", len(pl)))
			c.Eval("polyline:"+cg.PointsT(pl), len(pl) > 0)
			if err != nil || derr != nil || !ptsEq(pl, q) {
				violate(c, "Polyline.roundtrip", "decode(encode(polyline)) != polyline", map[string]interface{}{"type": "Polyline", "bits": hexPts(pl)})
			}
			c.Check("encode_polyline", vkit.App("bytes_eqb", vkit.App("encode_polyline", cg.InZ(cg.PointsT(pl))), cg.InZ(cg.BytesT(b))))
			c.Check("decode_polyline", vkit.App("result_eqb (list_eqb point_eqb)", vkit.App("decode_polyline", cg.InZ(cg.BytesT(b))), vkit.App("Ok", cg.InZ(cg.PointsT(q)))))
		}
	}
}

// ---- Loop (lossless format) ----

func loopFieldsEq(a, b *s2.Loop) (bool, string) {
	va, oa, da, ba := s2.VerifC09LoopFields(a)
	vb, ob, db, bb := s2.VerifC09LoopFields(b)
	switch {
	case !ptsEq(va, vb):
		return false, "vertices"
	case oa != ob:
		return false, "originInside"
	case da != db:
		return false, "depth"
	case !rectEq(ba, bb):
		return false, "bound"
	}
	return true, ""
}

func loops(c *vkit.Collector, rng *vkit.Rng, budget int) {
	reused := new(s2.Loop) // one receiver for all decodes: what it held before must not matter
	for k := 0; k < 40*budget; k++ {
		l, class := cg.GenLoop(rng)
		b, err := cg.Enc(func(w *bytes.Buffer) error { return l.Encode(w) })
		b2, _ := cg.Enc(func(w *bytes.Buffer) error { return l.Encode(w) })
		q := new(s2.Loop)
		derr := q.Decode(bytes.NewReader(b))
		c.Class(class)
		c.Eval(class+":"+fmt.Sprintf("%x", b[:min(len(b), 60)]), l.NumVertices() > 0)
		vs, _, _, _ := s2.VerifC09LoopFields(l)
		rep := map[string]interface{}{"type": "Loop", "class": class, "vertices": hexPts(vs), "bytes_prefix": fmt.Sprintf("%x", b[:min(len(b), 64)])}
		if err != nil || derr != nil {
			violate(c, "Loop.roundtrip", fmt.Sprintf("encode/decode error %v %v", err, derr), rep)
			continue
		}
		if ok, what := loopFieldsEq(l, q); !ok {
			violate(c, "Loop.roundtrip", "decode(encode(loop)) differs in "+what, rep)
		}
		if rerr := reused.Decode(bytes.NewReader(b)); rerr != nil {
			violate(c, "Loop.Decode.reuse.differs", "decoding into a used receiver fails: "+rerr.Error(), rep)
		} else if ok, what := loopFieldsEq(q, reused); !ok || reused.NumEdges() != q.NumEdges() {
			violate(c, "Loop.Decode.reuse.differs", "decoding into a used receiver differs from a fresh decode in "+what, rep)
		}
		if !bytes.Equal(b, b2) {
			violate(c, "Loop.deterministic", "two encodings differ", rep)
		}
		c.Sample(map[string]interface{}{"type": "Loop", "class": class, "nvertices": l.NumVertices(), "bytes": len(b)})
		c.Check("encode_loop "+class, vkit.App("bytes_eqb", vkit.App("encode_loop", cg.InZ(cg.LoopT(l))), cg.InZ(cg.BytesT(b))))
		c.Check("decode_loop "+class, vkit.App("result_eqb loop_eqb", vkit.App("decode_loop", cg.InZ(cg.BytesT(b))), vkit.App("Ok", cg.InZ(cg.LoopT(q)))))
	}
}

// derivedState checks, on a decoded polygon, the unexported state that queries read but the
// encodings do not carry: it must be what the constructors would have derived from the fields.
func derivedState(c *vkit.Collector, q *s2.Polygon, rep map[string]interface{}) {
	loops, _, bound, nv := s2.VerifC09PolygonFields(q)
	sub, ne, hasIdx := s2.VerifC09PolygonDerived(q)
	sum := 0
	for i, l := range loops {
		vs, _, _, lb := s2.VerifC09LoopFields(l)
		sum += len(vs)
		lsub, lidx := s2.VerifC09LoopDerived(l)
		if !rectEq(lsub, s2.ExpandForSubregions(lb)) {
			violate(c, "Loop.derived.subregionBound", fmt.Sprintf("decoded loop %d (%d vertices): subregionBound is not ExpandForSubregions(bound)", i, len(vs)), rep)
		}
		if !lidx {
			violate(c, "Loop.derived.index", fmt.Sprintf("decoded loop %d has no index", i), rep)
		}
	}
	if nv != sum {
		violate(c, "Polygon.derived.numVertices", fmt.Sprintf("numVertices %d, loops hold %d", nv, sum), rep)
	}
	if wantNE := sum; !q.IsFull() && ne != wantNE {
		violate(c, "Polygon.derived.numEdges", fmt.Sprintf("numEdges %d, loops hold %d", ne, wantNE), rep)
	}
	if !hasIdx {
		violate(c, "Polygon.derived.index", "decoded polygon has no index", rep)
	}
	if !rectEq(sub, s2.ExpandForSubregions(bound)) {
		violate(c, "Polygon.derived.subregionBound", "subregionBound is not ExpandForSubregions(bound)", rep)
	}
}

// ---- Polygon (both formats) ----

// samePolygon compares a polygon decoded into a used receiver with a fresh decode of the same bytes.
func samePolygon(a, b *s2.Polygon) string {
	la, ha, ba, na := s2.VerifC09PolygonFields(a)
	lb, hb, bb, nb := s2.VerifC09PolygonFields(b)
	if len(la) != len(lb) || ha != hb || !rectEq(ba, bb) || na != nb {
		return "loop count / hasHoles / bound / numVertices"
	}
	for i := range la {
		if ok, what := loopFieldsEq(la[i], lb[i]); !ok {
			return fmt.Sprintf("loop %d %s", i, what)
		}
	}
	if a.NumEdges() != b.NumEdges() || a.NumChains() != b.NumChains() {
		return "numEdges / numChains"
	}
	for e := 0; e < a.NumEdges() && e < 400; e++ {
		if a.Edge(e) != b.Edge(e) || a.ChainPosition(e) != b.ChainPosition(e) {
			return fmt.Sprintf("edge %d", e)
		}
	}
	return ""
}

func polygons(c *vkit.Collector, rng *vkit.Rng, budget int) {
	formats := map[string]int{}
	reused := new(s2.Polygon) // one receiver for all decodes, both formats
	for k := 0; k < 60*budget; k++ {
		p, class := cg.GenPolygon(rng)
		if k%20 == 0 {
			// more than 12 loops: the polygon keeps a cumulative edge table, which a later decode
			// into the same receiver must not inherit
			ls := make([]*s2.Loop, 13+rng.Intn(4))
			for i := range ls {
				ls[i] = cg.RawLoop(rng, cg.Vertices(rng, cg.OneLevel, 3+rng.Intn(2), 20))
			}
			p, class = s2.VerifC09PolygonRaw(ls, false, cg.ValidRect(rng)), "polygon:many-loops"
		}
		b, err := cg.Enc(func(w *bytes.Buffer) error { return p.Encode(w) })
		b2, _ := cg.Enc(func(w *bytes.Buffer) error { return p.Encode(w) })
		c.Class(class)
		loopsP, hh, bound, nv := s2.VerifC09PolygonFields(p)
		if err != nil || len(b) == 0 {
			violate(c, "Polygon.encode", fmt.Sprintf("encode error %v", err), map[string]interface{}{"class": class})
			continue
		}
		format := "lossless"
		if b[0] == 4 {
			format = "compressed"
		}
		formats[format]++
		c.Class("polygon-format:" + format)
		c.Eval(class+":"+format+":"+fmt.Sprintf("%x", b[:min(len(b), 80)]), nv > 0)
		q := new(s2.Polygon)
		derr := q.Decode(bytes.NewReader(b))
		rep := map[string]interface{}{"type": "Polygon", "class": class, "format": format, "nloops": len(loopsP), "bytes": fmt.Sprintf("%x", b[:min(len(b), 400)])}
		if len(loopsP) > 0 {
			vs, _, _, _ := s2.VerifC09LoopFields(loopsP[0])
			rep["loop0"] = hexPts(vs)
		}
		c.Sample(map[string]interface{}{"type": "Polygon", "class": class, "format": format, "nloops": len(loopsP), "nvertices": nv, "bytes": len(b)})
		if !bytes.Equal(b, b2) {
			violate(c, "Polygon.deterministic", "two encodings differ", rep)
		}
		// [T] bytes
		c.Check("encode_polygon "+class+" "+format, vkit.App("opt_eqb bytes_eqb", vkit.App("encode_polygon", cg.InZ(cg.PolygonT(p))), vkit.App("Some", cg.InZ(cg.BytesT(b)))))
		if derr != nil {
			violate(c, "Polygon.roundtrip", fmt.Sprintf("decode(encode(p)) fails: %v", derr), rep)
			continue
		}
		qloops, qhh, qbound, _ := s2.VerifC09PolygonFields(q)
		derivedState(c, q, rep)
		func() {
			defer func() {
				if r := recover(); r != nil {
					violate(c, "Polygon.Decode.reuse.differs", fmt.Sprintf("a polygon decoded into a used receiver panics: %v", r), rep)
					reused = new(s2.Polygon)
				}
			}()
			if rerr := reused.Decode(bytes.NewReader(b)); rerr != nil {
				violate(c, "Polygon.Decode.reuse.differs", "decoding into a used receiver fails: "+rerr.Error(), rep)
			} else if d := samePolygon(q, reused); d != "" {
				violate(c, "Polygon.Decode.reuse.differs", "decoding into a used receiver differs from a fresh decode: "+d, rep)
			} else {
				derivedState(c, reused, rep)
			}
		}()
		// [S] field by field
		if len(qloops) != len(loopsP) {
			violate(c, "Polygon.roundtrip", "loop count differs", rep)
			continue
		}
		var terms []string
		for i := range loopsP {
			va, oa, da, ba := s2.VerifC09LoopFields(loopsP[i])
			for _, v := range va {
				checkCentre(c, v)
			}
			vb, ob, db, bb := s2.VerifC09LoopFields(qloops[i])
			boundEnc := format == "compressed" && len(va) >= 64
			terms = append(terms, cg.CLoopT(qloops[i], boundEnc))
			r2 := map[string]interface{}{"type": "Polygon", "class": class, "format": format, "loop": i, "want": hexPts(va), "got": hexPts(vb), "bytes": rep["bytes"]}
			if len(va) == 0 && format == "compressed" {
				// a loop without vertices does not survive the compressed format (initBound turns it into the empty loop)
				if len(vb) != 0 || da != db || oa != ob {
					violate(c, "Polygon.compressed.zeroVertexLoop", "a loop with 0 vertices decodes as the 1-vertex empty loop (depth and origin flag reset)", r2)
				}
				continue
			}
			if !ptsEq(va, vb) {
				// classify: only the sign of zero coordinates differs?
				onlyZeroSign := len(va) == len(vb)
				for j := 0; onlyZeroSign && j < len(va); j++ {
					onlyZeroSign = va[j].Vector == vb[j].Vector
				}
				if onlyZeroSign {
					violate(c, "compressed.zeroSign", "vertex coordinates come back == but not bit-identical: +0 becomes -0 for face centres (xyzToFaceSiTi compares with ==)", r2)
				} else {
					violate(c, "Polygon.roundtrip", "vertices differ", r2)
				}
			}
			if oa != ob {
				violate(c, "Polygon.roundtrip", "originInside differs", r2)
			}
			if da != db {
				violate(c, "Polygon.roundtrip", "depth differs", r2)
			}
			if (format == "lossless" || boundEnc) && !rectEq(ba, bb) {
				violate(c, "Polygon.roundtrip", "encoded loop bound differs", r2)
			}
		}
		if format == "lossless" {
			if hh != qhh || !rectEq(bound, qbound) {
				violate(c, "Polygon.roundtrip", "hasHoles/bound differ", rep)
			}
			c.Check("decode_polygon "+class+" lossless", vkit.App("result_eqb dpolygon_eqb", vkit.App("decode_polygon", cg.InZ(cg.BytesT(b))), vkit.App("Ok", vkit.App("DLossless", cg.InZ(cg.PolygonT(q))))))
		} else {
			c.Check("decode_polygon "+class+" compressed", vkit.App("result_eqb dpolygon_eqb", vkit.App("decode_polygon", cg.InZ(cg.BytesT(b))), vkit.App("Ok", vkit.App("DCompressed", cg.InZ("["+strings.Join(terms, "; ")+"]")))))
		}
	}
	c.Extra["polygon_formats"] = formats
}

// ---- points on the (si,ti) lattice that are not cell centres ----

// latticeSweep round-trips polygons whose vertices are exactly on the (si,ti) lattice with si and
// ti at different levels: the four vertices of a cell (every face, many levels) and loops of true
// centres of one level plus one or two such lattice points. The cell-centre detection must report
// them as not snapped, or the decoder reconstructs a different point.
func latticeSweep(c *vkit.Collector, rng *vkit.Rng, budget int) {
	check := func(p *s2.Polygon, class string, withT bool) {
		b, err := cg.Enc(func(w *bytes.Buffer) error { return p.Encode(w) })
		c.Class(class)
		c.Eval(class+":"+fmt.Sprintf("%x", b[:min(len(b), 80)]), true)
		q := new(s2.Polygon)
		derr := q.Decode(bytes.NewReader(b))
		lp, _, _, _ := s2.VerifC09PolygonFields(p)
		rep := map[string]interface{}{"type": "Polygon", "class": class, "bytes": fmt.Sprintf("%x", b[:min(len(b), 400)])}
		if len(lp) > 0 {
			vs, _, _, _ := s2.VerifC09LoopFields(lp[0])
			rep["loop0"] = hexPts(vs)
			for _, v := range vs {
				f, si, ti, lv := s2.VerifC09XYZToFaceSiTi(v)
				if lv >= 0 && (30-trailingZeros(si|1<<31) != lv || 30-trailingZeros(ti|1<<31) != lv) {
					violate(c, "xyzToFaceSiTi.mixedLevels", "a lattice point whose si and ti are at different levels is reported as a cell centre", map[string]interface{}{"p": hexPts([]s2.Point{v}), "face": f, "si": si, "ti": ti, "level": lv})
				}
			}
		}
		if err != nil || derr != nil {
			violate(c, "Polygon.roundtrip", fmt.Sprintf("encode/decode error %v %v", err, derr), rep)
			return
		}
		lq, _, _, _ := s2.VerifC09PolygonFields(q)
		if len(lq) != len(lp) {
			violate(c, "Polygon.roundtrip", "loop count differs", rep)
			return
		}
		var terms []string
		for i := range lp {
			va, oa, da, _ := s2.VerifC09LoopFields(lp[i])
			vb, ob, db, _ := s2.VerifC09LoopFields(lq[i])
			terms = append(terms, cg.CLoopT(lq[i], len(b) > 0 && b[0] == 4 && len(va) >= 64))
			if !ptsEq(va, vb) || oa != ob || da != db {
				rep["want"], rep["got"] = hexPts(va), hexPts(vb)
				violate(c, "Polygon.roundtrip", "vertices differ (lattice points that are not cell centres)", rep)
			}
		}
		if withT {
			c.Check("encode_polygon "+class, vkit.App("opt_eqb bytes_eqb", vkit.App("encode_polygon", cg.InZ(cg.PolygonT(p))), vkit.App("Some", cg.InZ(cg.BytesT(b)))))
			if len(b) > 0 && b[0] == 4 {
				c.Check("decode_polygon "+class, vkit.App("result_eqb dpolygon_eqb", vkit.App("decode_polygon", cg.InZ(cg.BytesT(b))), vkit.App("Ok", vkit.App("DCompressed", cg.InZ("["+strings.Join(terms, "; ")+"]")))))
			}
		}
	}
	k := 0
	for face := 0; face < 6; face++ {
		for _, level := range []int{0, 1, 2, 5, 9, 12, 17, 20, 24, 29, 30} {
			cell := s2.CellFromCellID(cg.CellAt(rng, face, level, rng.Intn(4)))
			check(s2.PolygonFromCell(cell), "polygon:from-cell", k%6 == 0)
			k++
		}
	}
	for r := 0; r < 40*budget; r++ {
		level := rng.Intn(31)
		face := rng.Intn(6)
		n := 3 + rng.Intn(4)
		vs := make([]s2.Point, 0, n+2)
		for i := 0; i < n; i++ {
			vs = append(vs, cg.CellAt(rng, face, level, 0).Point())
		}
		for i := 0; i < 1+rng.Intn(2); i++ {
			j := rng.Intn(len(vs) + 1)
			vs = append(vs[:j], append([]s2.Point{cg.LatticePoint(rng, face, level, rng.Intn(3))}, vs[j:]...)...)
		}
		p := s2.VerifC09PolygonRaw([]*s2.Loop{cg.RawLoop(rng, vs)}, false, cg.ValidRect(rng))
		check(p, "polygon:centres+lattice-point", r%4 == 0)
	}
}

func trailingZeros(x uint32) int {
	n := 0
	for x&1 == 0 {
		x >>= 1
		n++
	}
	return n
}

// ---- ties in the snap-level histogram, repeated encodes ----

// tiePolygons: polygons in which two or three levels are tied for the largest number of cell-centre
// vertices. Polygon.encode must pick the lowest of the tied levels, and the same polygon must
// encode to the same bytes every time (each polygon is encoded 64*budget times; a map-ordered
// choice shows up only once in a few encodes).
func tiePolygons(c *vkit.Collector, rng *vkit.Rng, budget int) {
	reps := 64 * budget
	levelSets := [][]int{{10, 20}, {20, 10}, {0, 30}, {1, 2}, {29, 30}, {5, 17}, {8, 16, 24}, {24, 8, 16}, {3, 4, 5}, {12, 30, 0}}
	k := 0
	for face := 0; face < 6; face++ {
		for _, lv := range levelSets {
			per := 2 + rng.Intn(3)
			var vs []s2.Point
			for _, l := range lv {
				for i := 0; i < per; i++ {
					vs = append(vs, cg.CellAt(rng, face, l, 0).Point())
				}
			}
			if rng.Bool() { // a few unsnapped vertices do not change the tie
				vs = append(vs, cg.UnitPoint(rng))
			}
			// interleave the levels so that neither comes first in vertex order
			for i := len(vs) - 1; i > 0; i-- {
				j := rng.Intn(i + 1)
				vs[i], vs[j] = vs[j], vs[i]
			}
			p := s2.VerifC09PolygonRaw([]*s2.Loop{cg.RawLoop(rng, vs)}, false, cg.ValidRect(rng))
			class := fmt.Sprintf("polygon:tie-%d-levels", len(lv))
			c.Class(class)
			first, err := cg.Enc(func(w *bytes.Buffer) error { return p.Encode(w) })
			c.Eval(class+":"+fmt.Sprintf("%x", first[:min(len(first), 80)]), true)
			if err != nil || len(first) < 2 {
				violate(c, "Polygon.encode", fmt.Sprintf("encode error %v", err), map[string]interface{}{"class": class})
				continue
			}
			lowest := lv[0]
			for _, l := range lv {
				if l < lowest {
					lowest = l
				}
			}
			rep := map[string]interface{}{"type": "Polygon", "class": class, "levels": lv, "vertices": hexPts(vs), "encoding1": fmt.Sprintf("%x", first)}
			for r := 1; r < reps; r++ {
				b, _ := cg.Enc(func(w *bytes.Buffer) error { return p.Encode(w) })
				c.Eval("tie-repeat", false)
				if !bytes.Equal(b, first) {
					rep["encoding2"] = fmt.Sprintf("%x", b)
					rep["repeat"] = r
					violate(c, "Polygon.encode.notDeterministic", fmt.Sprintf("the same polygon encodes to different bytes (snap level byte %d vs %d, %d vs %d bytes)", first[1], b[1], len(first), len(b)), rep)
					break
				}
			}
			if first[0] != 4 {
				violate(c, "Polygon.encode.tie", "a polygon of cell centres is not encoded in the compressed format", rep)
			} else if int(first[1]) != lowest {
				violate(c, "Polygon.encode.tie", fmt.Sprintf("snap level %d chosen, the lowest tied level is %d", first[1], lowest), rep)
			}
			q := new(s2.Polygon)
			if derr := q.Decode(bytes.NewReader(first)); derr != nil {
				violate(c, "Polygon.roundtrip", "tie polygon does not decode: "+derr.Error(), rep)
			} else if lq, _, _, _ := s2.VerifC09PolygonFields(q); len(lq) != 1 || !ptsEq(lq[0].Vertices(), vs) {
				violate(c, "Polygon.roundtrip", "tie polygon: vertices differ", rep)
			}
			if k%5 == 0 {
				c.Check("encode_polygon "+class, vkit.App("opt_eqb bytes_eqb", vkit.App("encode_polygon", cg.InZ(cg.PolygonT(p))), vkit.App("Some", cg.InZ(cg.BytesT(first)))))
			}
			k++
		}
	}
}

// ---- identical answers to queries ----

// queryAnswers: valid polygons (regular loops snapped to cell centres, 8..100 vertices so that both
// the recomputed-bound and the encoded-bound branch of the compressed format are taken; nested
// shells and holes) are round-tripped and the decoded polygon must answer like the original:
// derived state, ContainsPoint, Contains / Intersects against the original and against a probe.
func queryAnswers(c *vkit.Collector, rng *vkit.Rng, budget int) {
	for r := 0; r < 10*budget; r++ {
		centre := cg.UnitPoint(rng)
		level := 18 + rng.Intn(10)
		nloops := 1 + rng.Intn(2)
		var loops []*s2.Loop
		for i := 0; i < nloops; i++ {
			n := []int{8, 20, 63, 64, 65, 100}[rng.Intn(6)]
			if r < 6 {
				n = []int{8, 63, 64, 65, 100, 64}[r]
			}
			reg := s2.RegularLoop(centre, s1.Angle(0.3-0.12*float64(i)), n)
			vs := make([]s2.Point, n)
			for j, v := range reg.Vertices() {
				vs[j] = s2.CellFromPoint(v).ID().Parent(level).Point()
			}
			loops = append(loops, s2.LoopFromPoints(vs))
		}
		p := s2.PolygonFromLoops(loops)
		if p.Validate() != nil {
			continue
		}
		b, err := cg.Enc(func(w *bytes.Buffer) error { return p.Encode(w) })
		q := new(s2.Polygon)
		derr := q.Decode(bytes.NewReader(b))
		class := fmt.Sprintf("polygon:query-%dloops", nloops)
		c.Class(class)
		c.Eval(class+":"+fmt.Sprintf("%x", b[:min(len(b), 60)]), true)
		rep := map[string]interface{}{"type": "Polygon", "class": class, "nvertices": p.NumEdges(), "level": level, "bytes": fmt.Sprintf("%x", b[:min(len(b), 300)])}
		if err != nil || derr != nil {
			violate(c, "Polygon.roundtrip", fmt.Sprintf("encode/decode error %v %v", err, derr), rep)
			continue
		}
		derivedState(c, q, rep)
		probe := s2.PolygonFromLoops([]*s2.Loop{s2.RegularLoop(centre, s1.Angle(0.05), 6)})
		outer := s2.PolygonFromLoops([]*s2.Loop{s2.RegularLoop(centre, s1.Angle(0.6), 12)})
		type qa struct {
			name      string
			want, got bool
		}
		qs := []qa{
			{"p.Contains(q)", p.Contains(p), p.Contains(q)},
			{"q.Contains(p)", p.Contains(p), q.Contains(p)},
			{"q.Contains(q)", p.Contains(p), q.Contains(q)},
			{"q.Intersects(p)", p.Intersects(p), q.Intersects(p)},
			{"q.Contains(probe)", p.Contains(probe), q.Contains(probe)},
			{"probe.Contains(q)", probe.Contains(p), probe.Contains(q)},
			{"q.Intersects(probe)", p.Intersects(probe), q.Intersects(probe)},
			{"outer.Contains(q)", outer.Contains(p), outer.Contains(q)},
			{"q.Contains(outer)", p.Contains(outer), q.Contains(outer)},
		}
		for i := 0; i < p.NumLoops(); i++ {
			qs = append(qs, qa{fmt.Sprintf("loop%d.Contains(origloop)", i), p.Loop(i).Contains(p.Loop(i)), q.Loop(i).Contains(p.Loop(i))},
				qa{fmt.Sprintf("origloop.Contains(loop%d)", i), p.Loop(i).Contains(p.Loop(i)), p.Loop(i).Contains(q.Loop(i))},
				qa{fmt.Sprintf("loop%d.Intersects(origloop)", i), p.Loop(i).Intersects(p.Loop(i)), q.Loop(i).Intersects(p.Loop(i))})
		}
		pts := []s2.Point{centre, s2.Point{Vector: centre.Mul(-1)}}
		for i := 0; i < 12; i++ {
			pts = append(pts, cg.UnitPoint(rng), s2.Point{Vector: centre.Add(cg.UnitPoint(rng).Mul(0.35)).Normalize()})
		}
		for i, pt := range pts {
			qs = append(qs, qa{fmt.Sprintf("ContainsPoint#%d", i), p.ContainsPoint(pt), q.ContainsPoint(pt)})
		}
		for _, cell := range []s2.Cell{s2.CellFromPoint(centre), s2.CellFromCellID(s2.CellFromPoint(centre).ID().Parent(6)), s2.CellFromCellID(s2.CellFromPoint(centre).ID().Parent(2))} {
			qs = append(qs, qa{"ContainsCell", p.ContainsCell(cell), q.ContainsCell(cell)}, qa{"IntersectsCell", p.IntersectsCell(cell), q.IntersectsCell(cell)})
		}
		for _, x := range qs {
			c.Eval("query", false)
			if x.want != x.got {
				rep["query"] = x.name
				violate(c, "Polygon.query.differs", fmt.Sprintf("%s: original answers %v, decoded answers %v", x.name, x.want, x.got), rep)
				break
			}
		}
		if !rectEq(p.RectBound(), q.RectBound()) {
			violate(c, "Polygon.query.differs", "RectBound differs", rep)
		}
	}
}

// ---- the way the reader delivers the bytes must not matter ----

func readerCheck(c *vkit.Collector, k cg.Kind, b []byte, label string, seed uint64) {
	c.Eval("reader-kinds", false)
	if d := cg.ReaderKindDiff(k, b, seed); d != "" {
		violate(c, cg.KindNames[k]+".Decode.readerKind.differs", d, map[string]interface{}{"type": cg.KindNames[k], "label": label, "encoding_len": len(b), "bytes_prefix": fmt.Sprintf("%x", b[:min(len(b), 200)])})
	}
}

// chunkedReaders: encodings longer than one and two of the decoders' 4096-byte buffers, and small
// ones of every type, decoded through readers without ReadByte, 1 byte per Read, random short reads.
func chunkedReaders(c *vkit.Collector, rng *vkit.Rng, budget int) {
	for r := 0; r < budget; r++ {
		for _, e := range cg.LargeEncodings(rng) {
			c.Class("chunked-reader:" + e.Label)
			readerCheck(c, e.Kind, e.Data, e.Label, rng.U64())
			// and the value itself still round-trips through a chunked reader
			out, _ := cg.DecodeTerm(e.Kind, cg.ChunkedReader("randomShort", e.Data, rng.U64()))
			if out != "ok" {
				violate(c, cg.KindNames[e.Kind]+".Decode.readerKind.differs", "a valid large encoding does not decode through a chunked reader", map[string]interface{}{"label": e.Label, "encoding_len": len(e.Data)})
			}
		}
	}
	for r := 0; r < 20*budget; r++ {
		p, class := cg.GenPolygon(rng)
		b, _ := cg.Enc(func(w *bytes.Buffer) error { return p.Encode(w) })
		readerCheck(c, cg.KPolygon, b, class, rng.U64())
		l, lclass := cg.GenLoop(rng)
		lb, _ := cg.Enc(func(w *bytes.Buffer) error { return l.Encode(w) })
		readerCheck(c, cg.KLoop, lb, lclass, rng.U64())
		pt, cp, rc := cg.AnyPoint(rng), cg.AnyCap(rng), cg.ValidRect(rng)
		pb, _ := cg.Enc(func(w *bytes.Buffer) error { return pt.Encode(w) })
		readerCheck(c, cg.KPoint, pb, "point", rng.U64())
		cb, _ := cg.Enc(func(w *bytes.Buffer) error { return cp.Encode(w) })
		readerCheck(c, cg.KCap, cb, "cap", rng.U64())
		rb, _ := cg.Enc(func(w *bytes.Buffer) error { return rc.Encode(w) })
		readerCheck(c, cg.KRect, rb, "rect", rng.U64())
	}
}

// ---- values the encoder accepts but the decoder refuses ----

func beyondLimits(c *vkit.Collector, rng *vkit.Rng, budget int) {
	// CellUnion: Encode has no limit, Decode refuses more than 1e6 cells.
	for _, n := range []int{1000000, 1000001} {
		cu := make(s2.CellUnion, n)
		for i := range cu {
			cu[i] = s2.CellIDFromFace(i % 6)
		}
		b, err := cg.Enc(func(w *bytes.Buffer) error { return cu.Encode(w) })
		var q s2.CellUnion
		derr := q.Decode(bytes.NewReader(b))
		c.Eval(fmt.Sprintf("cellunion-size:%d", n), true)
		c.Class(fmt.Sprintf("cellunion:%d", n))
		if err == nil && derr != nil {
			violate(c, "CellUnion.encode.noLimit", fmt.Sprintf("a CellUnion of %d cells encodes without error but its encoding does not decode: %v", n, derr), map[string]interface{}{"type": "CellUnion", "ncells": n})
		}
		if err == nil && derr == nil && len(q) != n {
			violate(c, "CellUnion.roundtrip", "length differs", map[string]interface{}{"ncells": n})
		}
	}
}

func min(a, b int) int {
	if a < b {
		return a
	}
	return b
}
