// Observer BASE: validates the translator and Base/GoPrim.v themselves — the Go
// toolchain's trigonometry as translated into Gen/GoMath.v, the GoPrim float helpers and
// r3.Vector / s2.Point leaf functions — bit for bit against the running Go code.
package main

import (
	"fmt"
	"math"

	"github.com/golang/geo/r3"
	"github.com/golang/geo/s2"
	"verifharness/internal/vkit"
)

func main() { vkit.Main("BASE", []string{"Gen.GoMath", "Gen.R3", "Gen.S2Point"}, run) }

func vec(v r3.Vector) string { return vkit.App("mk_r3_Vector", vkit.F(v.X), vkit.F(v.Y), vkit.F(v.Z)) }
func pt(p s2.Point) string   { return vkit.App("mk_s2_Point", vec(p.Vector)) }

func run(c *vkit.Collector, rng *vkit.Rng, budget int) {
	args := []float64{0, math.Copysign(0, -1), 1, -1, 0.5, math.Pi, -math.Pi, math.Pi / 2, math.Pi / 4, 3 * math.Pi / 4, 1e-300, 1e-10, 1e-8,
		0.66, 2.41421356237309504880, 0.7, 536870911.5, -536870911.5, math.Inf(1), math.Inf(-1), math.NaN(), 5e-324, 1e22 / 1e22}
	for k := 1; k < 40; k++ {
		b := float64(k) * math.Pi / 4
		args = append(args, b, vkit.Ulps(b, 1), vkit.Ulps(b, -1), -b)
	}
	n := 300 * budget
	for k := 0; k < n; k++ {
		args = append(args, rng.Range(-10, 10), rng.Range(-1, 1), rng.Range(-1e6, 1e6), math.Ldexp(rng.Range(-1, 1), rng.Intn(60)-40))
	}
	un := func(name string, f func(float64) float64, dom func(float64) bool) {
		for _, x := range args {
			if dom != nil && !dom(x) {
				continue
			}
			c.Eval(fmt.Sprintf("%s %x", name, math.Float64bits(x)), true)
			c.Check(fmt.Sprintf("%s(%v)", name, x), vkit.App("fbiteq", vkit.App(name, vkit.F(x)), vkit.F(f(x))))
		}
		c.Class(name)
	}
	small := func(x float64) bool { return math.IsNaN(x) || math.IsInf(x, 0) || math.Abs(x) < 1<<29 }
	un("math_Sin", math.Sin, small)
	un("math_Cos", math.Cos, small)
	un("math_Tan", math.Tan, small)
	un("math_Atan", math.Atan, nil)
	un("math_Asin", math.Asin, nil)
	un("math_Acos", math.Acos, nil)
	un("go_floor", math.Floor, nil)
	un("go_ceil", math.Ceil, nil)
	un("go_trunc", math.Trunc, nil)
	un("PrimFloat.sqrt", math.Sqrt, nil)
	for k := 0; k+1 < len(args); k++ {
		x, y := args[k], args[(k*7+3)%len(args)]
		c.Check(fmt.Sprintf("Atan2(%v,%v)", y, x), vkit.App("fbiteq", vkit.App("math_Atan2", vkit.F(y), vkit.F(x)), vkit.F(math.Atan2(y, x))))
		c.Check(fmt.Sprintf("Max(%v,%v)", x, y), vkit.App("fbiteq", vkit.App("go_fmax", vkit.F(x), vkit.F(y)), vkit.F(math.Max(x, y))))
		c.Check(fmt.Sprintf("Min(%v,%v)", x, y), vkit.App("fbiteq", vkit.App("go_fmin", vkit.F(x), vkit.F(y)), vkit.F(math.Min(x, y))))
		c.Check(fmt.Sprintf("Remainder(%v,%v)", x, y), vkit.App("fbiteq", vkit.App("go_remainder", vkit.F(x), vkit.F(y)), vkit.F(math.Remainder(x, y))))
		c.Check(fmt.Sprintf("Remainder(%v,2pi)", x), vkit.App("fbiteq", vkit.App("go_remainder", vkit.F(x), vkit.F(2*math.Pi)), vkit.F(math.Remainder(x, 2*math.Pi))))
		c.Check(fmt.Sprintf("Copysign(%v,%v)", x, y), vkit.App("fbiteq", vkit.App("go_copysign", vkit.F(x), vkit.F(y)), vkit.F(math.Copysign(x, y))))
		c.Check(fmt.Sprintf("Nextafter(%v,%v)", x, y), vkit.App("fbiteq", vkit.App("go_nextafter", vkit.F(x), vkit.F(y)), vkit.F(math.Nextafter(x, y))))
		if !math.IsNaN(x) {
			c.Check(fmt.Sprintf("bits(%v)", x), vkit.App("Z.eqb", vkit.App("go_float64bits", vkit.F(x)), vkit.U(math.Float64bits(x))))
		}
		c.Check(fmt.Sprintf("frombits(%v)", x), vkit.App("fbiteq", vkit.App("go_float64frombits", vkit.U(math.Float64bits(x))), vkit.F(x)))
		e := rng.Intn(200) - 100
		c.Check(fmt.Sprintf("Ldexp(%v,%d)", x, e), vkit.App("fbiteq", vkit.App("go_ldexp", vkit.F(x), vkit.Z(int64(e))), vkit.F(math.Ldexp(x, e))))
		if math.Abs(x) < 1e18 {
			c.Check(fmt.Sprintf("int64(%v)", x), vkit.App("Z.eqb", vkit.App("wrap_i64", vkit.App("Z_of_float_trunc", vkit.F(x))), vkit.Z(int64(x))))
		}
		i := int64(rng.U64())
		c.Check(fmt.Sprintf("float64(%d)", i), vkit.App("fbiteq", vkit.App("float_of_Z", vkit.Z(i)), vkit.F(float64(i))))
		u := rng.U64()
		c.Check(fmt.Sprintf("float64(uint64 %d)", u), vkit.App("fbiteq", vkit.App("float_of_Z", vkit.U(u)), vkit.F(float64(u))))
		c.Evals++
	}
	// vectors
	rv := func() r3.Vector {
		switch rng.Intn(5) {
		case 0:
			return r3.Vector{X: rng.Pick(args[:13]), Y: rng.Pick(args[:13]), Z: rng.Pick(args[:13])}
		case 1:
			return s2.PointFromCoords(rng.Range(-1, 1), rng.Range(-1, 1), rng.Range(-1, 1)).Vector
		default:
			return r3.Vector{X: rng.Range(-2, 2), Y: rng.Range(-2, 2), Z: rng.Range(-2, 2)}
		}
	}
	veq := func(label, term string, v r3.Vector) { c.Check(label, vkit.App("r3_Vector_eqbits", term, vec(v))) }
	for k := 0; k < 200*budget; k++ {
		a, b := rv(), rv()
		A, B := vec(a), vec(b)
		key := fmt.Sprintf("%v %v", a, b)
		c.Eval("vec "+key, true)
		veq("Cross "+key, vkit.App("r3_Vector_Cross", A, B), a.Cross(b))
		veq("Add "+key, vkit.App("r3_Vector_Add", A, B), a.Add(b))
		veq("Sub "+key, vkit.App("r3_Vector_Sub", A, B), a.Sub(b))
		veq("Normalize "+key, vkit.App("r3_Vector_Normalize", A), a.Normalize())
		veq("Ortho "+key, vkit.App("r3_Vector_Ortho", A), a.Ortho())
		veq("Abs "+key, vkit.App("r3_Vector_Abs", A), a.Abs())
		c.Check("Dot "+key, vkit.App("fbiteq", vkit.App("r3_Vector_Dot", A, B), vkit.F(a.Dot(b))))
		c.Check("Norm "+key, vkit.App("fbiteq", vkit.App("r3_Vector_Norm", A), vkit.F(a.Norm())))
		c.Check("Angle "+key, vkit.App("fbiteq", vkit.App("r3_Vector_Angle", A, B), vkit.F(float64(a.Angle(b)))))
		c.Check("Cmp "+key, vkit.App("Z.eqb", vkit.App("r3_Vector_Cmp", A, B), vkit.Z(int64(a.Cmp(b)))))
		c.Check("Largest "+key, vkit.App("Z.eqb", vkit.App("r3_Vector_LargestComponent", A), vkit.Z(int64(a.LargestComponent()))))
		pa, pb := s2.Point{Vector: a}, s2.Point{Vector: b}
		c.Check("PointCross "+key, vkit.App("s2_Point_eqbits", vkit.App("s2_Point_PointCross", pt(pa), pt(pb)), pt(pa.PointCross(pb))))
		c.Check("Distance "+key, vkit.App("fbiteq", vkit.App("s2_Point_Distance", pt(pa), pt(pb)), vkit.F(float64(pa.Distance(pb)))))
		c.Check("ChordAngleBetween "+key, vkit.App("fbiteq", vkit.App("s2_ChordAngleBetweenPoints", pt(pa), pt(pb)), vkit.F(float64(s2.ChordAngleBetweenPoints(pa, pb)))))
		ll := s2.LatLngFromPoint(pa)
		c.Check("LatLngFromPoint "+key, vkit.App("s2_LatLng_eqbits", vkit.App("s2_LatLngFromPoint", pt(pa)), vkit.App("mk_s2_LatLng", vkit.F(float64(ll.Lat)), vkit.F(float64(ll.Lng)))))
		if !math.IsNaN(float64(ll.Lat)) && math.Abs(float64(ll.Lat)) < 1e6 && math.Abs(float64(ll.Lng)) < 1e6 {
			c.Check("PointFromLatLng "+key, vkit.App("s2_Point_eqbits", vkit.App("s2_PointFromLatLng", vkit.App("mk_s2_LatLng", vkit.F(float64(ll.Lat)), vkit.F(float64(ll.Lng)))), pt(s2.PointFromLatLng(ll))))
		}
	}
	c.Sample(map[string]interface{}{"sin(1)": math.Sin(1), "atan2(1,2)": math.Atan2(1, 2)})
}
