// Observer C17: edge distance, projection and interpolation primitives.
//
//	[T] every translated function of Gen/EdgeDist.v and every hand model of Model/PolylineOps.v,
//	    bit for bit (values, the (ChordAngle,bool) pairs, which branch of interiorDist decided);
//	[S] the sentences of the property on the implementation against a 320-bit oracle
//	    (oracle.go: math/big only), bounds evaluated from the library's own formulas.
package main

import (
	"fmt"
	"math"
	"math/big"

	"github.com/golang/geo/r3"
	"github.com/golang/geo/s1"
	"github.com/golang/geo/s2"
	"verifharness/internal/vkit"
)

func main() { vkit.Main("C17", []string{"Gen.EdgeDist", "Model.PolylineOps"}, run) }

// ---- Coq terms ----
func vec(v r3.Vector) string { return vkit.App("mk_r3_Vector", vkit.F(v.X), vkit.F(v.Y), vkit.F(v.Z)) }
func pt(p s2.Point) string   { return vkit.App("mk_s2_Point", vec(p.Vector)) }
func ptEq(term string, p s2.Point) string {
	return vkit.App("s2_Point_eqbits", term, pt(p))
}
func fEq(term string, f float64) string { return vkit.App("fbiteq", term, vkit.F(f)) }
func dbEq(term string, d s1.ChordAngle, ok bool) string {
	return vkit.App("pair_beq fbiteq Bool.eqb", term, vkit.Pair(vkit.F(float64(d)), vkit.B(ok)))
}
func ptList(ps []s2.Point) string {
	xs := make([]string, len(ps))
	for i, p := range ps {
		xs[i] = pt(p)
	}
	return vkit.List(xs)
}
func bits(p s2.Point) []string {
	return []string{fmt.Sprintf("%x", math.Float64bits(p.X)), fmt.Sprintf("%x", math.Float64bits(p.Y)), fmt.Sprintf("%x", math.Float64bits(p.Z))}
}

// JSON cannot carry NaN/Inf
func jf(x float64) interface{} {
	if math.IsNaN(x) || math.IsInf(x, 0) {
		return fmt.Sprint(x)
	}
	return x
}
func rep(kv ...interface{}) map[string]interface{} {
	m := map[string]interface{}{}
	for i := 0; i+1 < len(kv); i += 2 {
		switch v := kv[i+1].(type) {
		case s2.Point:
			m[kv[i].(string)] = map[string]interface{}{"xyz": []float64{v.X, v.Y, v.Z}, "bits": bits(v)}
		case *big.Float:
			m[kv[i].(string)] = v.Text('g', 30)
		case float64:
			m[kv[i].(string)] = jf(v)
		default:
			m[kv[i].(string)] = v
		}
	}
	return m
}

// ---- generators (own constructions; none of the functions under test is used) ----
func norm(v r3.Vector) s2.Point {
	n := math.Sqrt(v.X*v.X + v.Y*v.Y + v.Z*v.Z)
	if n == 0 {
		return s2.Point{Vector: r3.Vector{X: 1}}
	}
	return s2.Point{Vector: r3.Vector{X: v.X / n, Y: v.Y / n, Z: v.Z / n}}
}
func comb(a r3.Vector, s float64, b r3.Vector, t float64) r3.Vector {
	return r3.Vector{X: a.X*s + b.X*t, Y: a.Y*s + b.Y*t, Z: a.Z*s + b.Z*t}
}
func crossv(a, b r3.Vector) r3.Vector {
	return r3.Vector{X: a.Y*b.Z - a.Z*b.Y, Y: a.Z*b.X - a.X*b.Z, Z: a.X*b.Y - a.Y*b.X}
}
func randPoint(rng *vkit.Rng) s2.Point {
	for {
		v := r3.Vector{X: rng.Range(-1, 1), Y: rng.Range(-1, 1), Z: rng.Range(-1, 1)}
		if n := v.X*v.X + v.Y*v.Y + v.Z*v.Z; n > 0.01 && n <= 1 {
			return norm(v)
		}
	}
}
func axisPoint(rng *vkit.Rng) s2.Point {
	v := [3]float64{}
	v[rng.Intn(3)] = []float64{1, -1}[rng.Intn(2)]
	return s2.Point{Vector: r3.Vector{X: v[0], Y: v[1], Z: v[2]}}
}

// a unit tangent at a in a random direction
func tangentAt(rng *vkit.Rng, a s2.Point) r3.Vector {
	for {
		r := randPoint(rng)
		t := crossv(a.Vector, r.Vector)
		if t.X*t.X+t.Y*t.Y+t.Z*t.Z > 0.01 {
			return norm(t).Vector
		}
	}
}

// the point at angle r from a in direction t (t unit, perpendicular to a)
func along(a s2.Point, t r3.Vector, r float64) s2.Point {
	return norm(comb(a.Vector, math.Cos(r), t, math.Sin(r)))
}

var edgeLengths = []float64{0, 1e-15, 3e-15, 1e-12, 1e-9, 1e-7, 1e-5, 1e-3, 0.01, 0.3, 1, math.Pi / 2, 2, 3, math.Pi - 1e-2, math.Pi - 1e-3, 179.99 * math.Pi / 180, math.Pi - 1e-6}
var offDists = []float64{1e-15, 1e-12, 1e-9, 3e-8, 1e-6, 1e-4, 1e-2, 0.5, 1, math.Pi/2 - 1e-9, math.Pi / 2}

type triple struct {
	x, a, b s2.Point
	class   string
}

func ulpOff(rng *vkit.Rng, p s2.Point) s2.Point {
	k := []int{1, -1, 2, -3}[rng.Intn(4)]
	q := p
	switch rng.Intn(3) {
	case 0:
		q.X = vkit.Ulps(q.X, k)
	case 1:
		q.Y = vkit.Ulps(q.Y, k)
	default:
		q.Z = vkit.Ulps(q.Z, k)
	}
	return q
}

func genEdge(rng *vkit.Rng) (s2.Point, s2.Point, float64) {
	var a s2.Point
	if rng.Intn(5) == 0 {
		a = axisPoint(rng)
	} else {
		a = randPoint(rng)
	}
	L := edgeLengths[rng.Intn(len(edgeLengths))]
	if rng.Intn(3) == 0 {
		L = math.Exp(rng.Range(math.Log(1e-15), math.Log(3.1)))
	}
	if L == 0 {
		return a, a, 0
	}
	return a, along(a, tangentAt(rng, a), L), L
}

func genTriple(rng *vkit.Rng) triple {
	a, b, L := genEdge(rng)
	mid := norm(comb(a.Vector, 1, b.Vector, 1))
	n := crossv(a.Vector, b.Vector)
	var nrm r3.Vector
	if n.X*n.X+n.Y*n.Y+n.Z*n.Z < 1e-300 {
		nrm = tangentAt(rng, a)
	} else {
		nrm = norm(n).Vector
	}
	lc := "edge:" + lenClass(L)
	switch rng.Intn(12) {
	case 0:
		return triple{a, a, b, lc + " x=a"}
	case 1:
		return triple{b, a, b, lc + " x=b"}
	case 2:
		t := rng.Float()
		return triple{norm(comb(a.Vector, 1-t, b.Vector, t)), a, b, lc + " x on edge"}
	case 3:
		t := rng.Float()
		return triple{ulpOff(rng, norm(comb(a.Vector, 1-t, b.Vector, t))), a, b, lc + " x 1-3 ulp off edge"}
	case 4:
		r := offDists[rng.Intn(len(offDists))]
		if rng.Bool() {
			r = -r
		}
		return triple{along(mid, nrm, r), a, b, lc + " x perpendicular at midpoint"}
	case 5:
		// perpendicular above an interior point or an endpoint
		t := []float64{0, 1, rng.Float()}[rng.Intn(3)]
		base := norm(comb(a.Vector, 1-t, b.Vector, t))
		r := offDists[rng.Intn(len(offDists))]
		return triple{along(base, nrm, r), a, b, lc + " x perpendicular at endpoint/interior"}
	case 6:
		// just beyond an endpoint, along the great circle
		t := []float64{-1e-15, -1e-9, -1e-3, -0.3, 1 + 1e-15, 1 + 1e-9, 1.001, 1.3}[rng.Intn(8)]
		return triple{norm(comb(a.Vector, 1-t, b.Vector, t)), a, b, lc + " x beyond endpoint"}
	case 7:
		if rng.Intn(3) == 0 {
			// the antipode of a degenerate edge: |x-a|^2 can round above 4
			return triple{s2.Point{Vector: r3.Vector{X: -a.X, Y: -a.Y, Z: -a.Z}}, a, a, "edge:degenerate x antipodal to it"}
		}
		e := []s2.Point{a, b, mid}[rng.Intn(3)]
		return triple{s2.Point{Vector: r3.Vector{X: -e.X, Y: -e.Y, Z: -e.Z}}, a, b, lc + " x antipodal to endpoint/midpoint"}
	case 8:
		e := []s2.Point{a, b, mid}[rng.Intn(3)]
		anti := s2.Point{Vector: r3.Vector{X: -e.X, Y: -e.Y, Z: -e.Z}}
		r := offDists[rng.Intn(6)]
		return triple{along(anti, tangentAt(rng, anti), r), a, b, lc + " x near antipode"}
	case 9:
		return triple{ulpOff(rng, []s2.Point{a, b}[rng.Intn(2)]), a, b, lc + " x 1-3 ulp off endpoint"}
	case 10:
		// the pole of the edge and its neighbourhood
		r := []float64{0, 1e-15, 1e-9, 1e-3}[rng.Intn(4)]
		p := s2.Point{Vector: nrm}
		if r != 0 {
			p = along(p, tangentAt(rng, p), r)
		}
		return triple{p, a, b, lc + " x near pole of edge"}
	default:
		return triple{randPoint(rng), a, b, lc + " x random"}
	}
}

func lenClass(L float64) string {
	switch {
	case L == 0:
		return "degenerate"
	case L < 1e-10:
		return "<1e-10"
	case L < 1e-4:
		return "<1e-4"
	case L < 1.6:
		return "<=90deg"
	case L < 3.1:
		return "<177deg"
	default:
		return "near 180deg"
	}
}

const slack = 1 + 1e-6

func pb(x, y, z uint64) s2.Point {
	return s2.Point{Vector: r3.Vector{X: math.Float64frombits(x), Y: math.Float64frombits(y), Z: math.Float64frombits(z)}}
}

// committed regression inputs (always run first): the two findings on the unchanged tree
var regression = []triple{
	{norm(r3.Vector{X: -0.985733256043227, Y: 0.1561815928178867, Z: -0.06274757362070676}), s2.Point{Vector: r3.Vector{X: 0.985733256043227, Y: -0.1561815928178867, Z: 0.06274757362070676}}, s2.Point{Vector: r3.Vector{X: 0.985733256043227, Y: -0.1561815928178867, Z: 0.06274757362070676}}, "regression: x antipodal to a degenerate edge (fixed 509773a)"},
	{s2.Point{Vector: r3.Vector{X: -0.985733256043227, Y: 0.1561815928178867, Z: -0.06274757362070676}}, s2.Point{Vector: r3.Vector{X: 0.985733256043227, Y: -0.1561815928178867, Z: 0.06274757362070676}}, s2.Point{Vector: r3.Vector{X: 0.985733256043227, Y: -0.1561815928178867, Z: 0.06274757362070676}}, "regression: x antipodal to a degenerate edge (fixed 509773a)"},
	{pb(0xbfef78ef83d19825, 0xbfc67e661bcf7a4a, 0xbfa5d942a060694d), pb(0x3fef645c9043b80e, 0x3fc564635b28e383, 0xbfb93866b4f9d200), pb(0xbfef78ef83d19827, 0xbfc67e661bcf7a4a, 0xbfa5d942a060694d), "regression: x 2 ulp off endpoint b (threshold vs value)"},
	{pb(0x3fdd1e16bee9306a, 0xbfeb9f2a84744f28, 0x3fcc05f7f4918955), pb(0xbfd6407cb4e499ff, 0x3fabba6609a69c30, 0x3fedf41617093b72), pb(0xbf8f490a665602fe, 0xbfd0375ba99a6ee1, 0xbfeef3aef9f9041c), "regression: x at the pole of the edge (Project)"},
}

var extra = map[string]float64{}

func track(name string, v float64) {
	if math.IsNaN(v) || v > 1e300 {
		v = 1e300
	}
	if v > extra[name] {
		extra[name] = v
	}
}

// vkit.NewRng(s) and NewRng(s+1) produce the same stream shifted by one draw; re-key from a mixed
// output so that different seeds give unrelated inputs.
func rekey(rng *vkit.Rng) *vkit.Rng { return vkit.NewRng(rng.U64() ^ 0xC17C17C17) }

// at most two reports per known-finding kind so that they cannot crowd out new violations
var kindCount = map[string]int{}

func limited(c *vkit.Collector, kind, desc string, replay interface{}) {
	kindCount[kind]++
	if kindCount[kind] <= 2 {
		c.Violate(kind, desc, replay)
	}
}

func run(c *vkit.Collector, rng *vkit.Rng, budget int) {
	rng = rekey(rng)
	inf := s1.InfChordAngle()
	for _, t := range regression {
		c.Class(t.class)
		checkTriple(c, rng, t, true)
	}
	nTriples := 420 * budget
	for k := 0; k < nTriples; k++ {
		t := genTriple(rng)
		c.Class(t.class)
		checkTriple(c, rng, t, k < 305*budget)
	}
	_ = inf
	runChord(c, rng, budget)
	runInterp(c, rng, budget)
	runPairs(c, rng, budget)
	runPolylines(c, rng, budget)
	for k, v := range extra {
		c.Extra[k] = v
	}
	for k, v := range kindCount {
		c.Extra["occurrences of "+k] = v
	}
	c.Extra["margins"] = "accuracy violations are flagged only beyond bound*(1+1e-6); bound = max(minUpdateDistanceMaxError(computed), minUpdateDistanceMaxError(true)); Project/Interpolate have no documented bound in the Go port: 1e-14 rad (or 3e-15 in squared chord length near 180deg) is used"
}

func checkTriple(c *vkit.Collector, rng *vkit.Rng, t triple, withT bool) {
	x, a, b := t.x, t.a, t.b
	inf := s1.InfChordAngle()
	X, A, B := pt(x), pt(a), pt(b)
	key := fmt.Sprintf("%v|%v|%v", bits(x), bits(a), bits(b))
	R := func(more ...interface{}) map[string]interface{} {
		return rep(append([]interface{}{"x", x, "a", a, "b", b, "class", t.class}, more...)...)
	}

	d, ok := s2.VerifC17UpdateMinDistance(x, a, b, inf, true)
	di, oki := s2.VerifC17InteriorDist(x, a, b, inf, true)
	g := float64(d)
	c.Eval("tri "+key, a != b)
	c.Sample(map[string]interface{}{"class": t.class, "x": []float64{x.X, x.Y, x.Z}, "a": []float64{a.X, a.Y, a.Z}, "b": []float64{b.X, b.Y, b.Z}, "dist2": jf(g), "interior": oki})
	if oki {
		c.Class("branch:interior")
	} else {
		c.Class("branch:endpoint")
	}
	dfs := s2.DistanceFromSegment(x, a, b)
	proj := s2.Project(x, a, b)

	// ---------------- [T] ----------------
	if withT {
		c.Check("updateMinDistance(always) "+key, dbEq(vkit.App("s2_updateMinDistance", X, A, B, "infinity", "true"), d, ok))
		c.Check("interiorDist(always) "+key, dbEq(vkit.App("s2_interiorDist", X, A, B, "infinity", "true"), di, oki))
		c.Check("DistanceFromSegment "+key, fEq(vkit.App("s2_DistanceFromSegment", X, A, B), float64(dfs)))
		c.Check("Project "+key, ptEq(vkit.App("s2_Project", X, A, B), proj))
		c.Check("Sign "+key, vkit.App("Bool.eqb", vkit.App("s2_Sign", X, A, B), vkit.B(s2.Sign(x, a, b))))
		c.Check("minUpdateDistanceMaxError "+key, fEq(vkit.App("s2_minUpdateDistanceMaxError", vkit.F(g)), s2.VerifC17MinUpdateDistanceMaxError(d)))
		c.Check("minUpdateInteriorDistanceMaxError "+key, fEq(vkit.App("s2_minUpdateInteriorDistanceMaxError", vkit.F(g)), s2.VerifC17MinUpdateInteriorDistanceMaxError(d)))
		md, mok := s2.UpdateMaxDistance(x, a, b, s1.NegativeChordAngle)
		c.Check("UpdateMaxDistance(neg) "+key, dbEq(vkit.App("m_UpdateMaxDistance", X, A, B, vkit.F(-1)), md, mok))
	}
	// thresholds around the computed distance
	if !math.IsNaN(g) {
		lims := []float64{g, vkit.Ulps(g, 1), vkit.Ulps(g, -1), vkit.Ulps(g, 2), g * (1 + 1e-12), g * (1 - 1e-12), g * 1.5, g * 0.5, 0, 4, math.Inf(1), -1}
		for li, l := range lims {
			if math.IsNaN(l) {
				continue
			}
			lim := s1.ChordAngle(l)
			ud, uok := s2.UpdateMinDistance(x, a, b, lim)
			less := s2.IsDistanceLess(x, a, b, lim)
			id, iok := s2.UpdateMinInteriorDistance(x, a, b, lim)
			iless := s2.IsInteriorDistanceLess(x, a, b, lim)
			if withT && (li < 4 || li == int(rng.Intn(len(lims)))) {
				lk := fmt.Sprintf("%s lim=%x", key, math.Float64bits(l))
				c.Check("UpdateMinDistance "+lk, dbEq(vkit.App("s2_UpdateMinDistance", X, A, B, vkit.F(l)), ud, uok))
				c.Check("IsDistanceLess "+lk, vkit.App("Bool.eqb", vkit.App("s2_IsDistanceLess", X, A, B, vkit.F(l)), vkit.B(less)))
				c.Check("UpdateMinInteriorDistance "+lk, dbEq(vkit.App("s2_UpdateMinInteriorDistance", X, A, B, vkit.F(l)), id, iok))
				c.Check("IsInteriorDistanceLess "+lk, vkit.App("Bool.eqb", vkit.App("s2_IsInteriorDistanceLess", X, A, B, vkit.F(l)), vkit.B(iless)))
				if li == 1 {
					md, mok := s2.UpdateMaxDistance(x, a, b, lim)
					c.Check("UpdateMaxDistance "+lk, dbEq(vkit.App("m_UpdateMaxDistance", X, A, B, vkit.F(l)), md, mok))
				}
			}
			// (vi) threshold form == comparison of the computed distance with the threshold
			c.Evals++
			// the endpoint-branch value, from the implementation's own vertex distance
			endMin := math.Min(float64(s2.ChordAngleBetweenPoints(x, a)), float64(s2.ChordAngleBetweenPoints(x, b)))
			switch {
			case less == (g < l):
			case less && oki && endMin < l && math.Abs(g-endMin) <= math.Max(s2.VerifC17MinUpdateDistanceMaxError(d), s2.VerifC17MinUpdateDistanceMaxError(s1.ChordAngle(endMin))):
				// KNOWN finding: with alwaysUpdate the interior value is returned although the distance to an
				// endpoint is smaller; the threshold form then falls through to the endpoint and says "less".
				// Only when the two values are within the documented minUpdateDistanceMaxError of each other;
				// any larger disagreement is a plain IsDistanceLess.threshold violation.
				limited(c, "threshold.endpoint_below_interior", fmt.Sprintf("IsDistanceLess(limit=%v)=true although the distance computed by UpdateMinDistance(inf)/DistanceFromSegment is %v >= limit: the interior value exceeds the endpoint distance %v", l, g, endMin), R("limit", l, "limit_bits", fmt.Sprintf("%x", math.Float64bits(l)), "dist2", g, "endpoint_dist2", endMin))
			default:
				c.Violate("IsDistanceLess.threshold", fmt.Sprintf("IsDistanceLess=%v but computed distance %v vs limit %v", less, g, l), R("limit", l, "limit_bits", fmt.Sprintf("%x", math.Float64bits(l)), "dist2", g))
			}
			wantV := l
			if uok {
				wantV = g
				if !(g < l) {
					wantV = endMin
				}
			}
			if uok != less || float64(ud) != wantV {
				c.Violate("UpdateMinDistance.threshold", "UpdateMinDistance's flag/value differ from IsDistanceLess / the computed distance", R("limit", l, "dist2", g, "got", float64(ud), "flag", uok))
			}
			if iless != (oki && float64(di) < l) || iok != iless {
				c.Violate("IsInteriorDistanceLess.threshold", "interior threshold form differs from (interior && dist < limit)", R("limit", l, "dist2", float64(di), "interior", oki))
			}
		}
	}

	// every returned ChordAngle is valid: 0 <= d <= 4 (or a special value that was passed in)
	validCA := func(v s1.ChordAngle) bool { f := float64(v); return f >= 0 && f <= 4 }
	if !validCA(d) || (oki && !validCA(di)) {
		c.Violate("updateMinDistance.endpointUnclamped", fmt.Sprintf("updateMinDistance returned the invalid ChordAngle %v (interior %v)", g, float64(di)), R("dist2", g))
	}
	if a := float64(dfs); !(a >= 0 && a <= math.Pi) {
		c.Violate("DistanceFromSegment.range", fmt.Sprintf("DistanceFromSegment = %v outside [0, pi]", a), R("dist2", g))
	}
	if md, mok := s2.UpdateMaxDistance(x, a, b, s1.NegativeChordAngle); mok && !validCA(md) {
		c.Violate("UpdateMaxDistance.invalid", fmt.Sprintf("UpdateMaxDistance returned the invalid ChordAngle %v", float64(md)), R())
	}
	// ---------------- [S] accuracy against the oracle ----------------
	tc2, tint, okd := trueSegDist(x.Vector, a.Vector, b.Vector)
	if !okd || math.IsNaN(g) {
		if math.IsNaN(g) {
			c.Violate("updateMinDistance.nan", "NaN distance for unit inputs", R())
		}
		return
	}
	bound := math.Max(s2.VerifC17MinUpdateDistanceMaxError(d), s2.VerifC17MinUpdateDistanceMaxError(s1.ChordAngle(f64(tc2))))
	errv := babs(bsub(bf(g), tc2))
	ratio := f64(errv) / bound
	track("max_error_over_bound(updateMinDistance)", ratio)
	if tint != oki {
		c.Class("classification differs from exact (allowed when within bound)")
	}
	// (i)
	if ratio > slack {
		c.Violate("updateMinDistance.accuracy", fmt.Sprintf("|computed - true| = %.3g exceeds minUpdateDistanceMaxError = %.3g (squared chord length)", f64(errv), bound), R("computed", g, "true", tc2, "interior_taken", oki, "interior_exact", tint))
	}
	// (ii) never above the distance to either endpoint
	X3, A3, B3 := unitOf(x.Vector), unitOf(a.Vector), unitOf(b.Vector)
	endMin := bmin(vnorm2(vsub(X3, A3)), vnorm2(vsub(X3, B3)))
	if over := f64(bsub(bf(g), endMin)); over > bound*slack {
		c.Violate("updateMinDistance.above_endpoint", fmt.Sprintf("distance exceeds the distance to the nearer endpoint by %.3g > bound %.3g", over, bound), R("computed", g, "endpoint_min", endMin))
	}
	// (iii) zero at the edge's own endpoints
	if x == a || x == b {
		if math.Float64bits(g) != 0 || !ok || math.Float64bits(float64(dfs)) != 0 {
			c.Violate("endpoint.nonzero", "distance from an endpoint of the edge is not +0", R("dist2", g, "angle", float64(dfs)))
		}
	}
	// DistanceFromSegment as an angle (H_LIBM: asin, sqrt)
	tAng := angleOfChord2(tc2)
	angErr := f64(babs(bsub(bf(float64(dfs)), tAng)))
	// the chord bound converted to an angle: d(angle) = d(c2) / (2 sin(angle)), at least sqrt near 0/pi
	sinA := math.Sin(f64(tAng))
	angBound := 0.0
	if sinA > 1e-7 {
		angBound = bound/(2*sinA)*1.01 + 4e-16*(1+f64(tAng))
	} else {
		angBound = 2*math.Sqrt(bound) + 4e-16
	}
	track("max_error_over_bound(DistanceFromSegment angle)", angErr/angBound)
	if angErr > angBound*slack {
		c.Violate("DistanceFromSegment.accuracy", fmt.Sprintf("angle error %.3g exceeds the chord bound converted to an angle %.3g", angErr, angBound), R("computed", float64(dfs), "true", tAng))
	}
	// (iv) Project realises the distance and lies on the segment.
	// No bound is documented in the Go port. Error model used: the plane normal n = (a+b)x(b-a) has a
	// direction error ~ eps*kappa, kappa = 2/|a+b|, and p = x - n(x.n)/|n|^2 has length rho = angle of x
	// from the pole of the edge, so its direction error is ~ eps*kappa/rho.
	P3 := unitOf(proj.Vector)
	dP := vangle(X3, P3)
	pc2 := vnorm2(vsub(X3, P3))
	e1 := f64(babs(bsub(dP, tAng)))
	e2 := f64(babs(bsub(pc2, tc2)))
	rho, kappa := poleParams(x, a, b)
	tol := 1e-14 + 1e-15*kappa*(1+1/rho)
	off := 0.0
	if pc, _, okp := trueSegDist(proj.Vector, a.Vector, b.Vector); okp {
		off = f64(angleOfChord2(pc))
	}
	track("max_project_off_segment/tol", off/tol)
	switch {
	case off > 1e-3 && rho <= poleRounding*kappa:
		// KNOWN finding, only for x within rounding of the pole of the edge (see poleRounding)
		track("max rho/kappa among Project.pole_far_from_edge events", rho/kappa)
		limited(c, "Project.pole_far_from_edge", fmt.Sprintf("Project(x,a,b) is %.3g rad away from the edge ab (x is %.3g rad from the pole of the edge)", off, rho), R("project", proj, "off_segment_rad", off))
	case off > 1e-3 && off > tol:
		c.Violate("Project.on_segment.gross", fmt.Sprintf("Project(x,a,b) is %.3g rad away from the edge ab although x is %.3g rad from the pole of the edge (tolerance %.3g)", off, rho, tol), R("project", proj, "off_segment_rad", off))
	case off > tol:
		c.Violate("Project.on_segment", fmt.Sprintf("projected point is %.3g rad away from the segment (tolerance %.3g)", off, tol), R("project", proj))
	case e1 > tol && e2 > 3e-15:
		c.Violate("Project.distance", fmt.Sprintf("distance(x, Project(x,a,b)) differs from the true distance to the edge by %.3g rad", e1), R("project", proj, "true_angle", tAng, "angle_to_project", dP))
	}
	if pn := math.Abs(proj.Norm2() - 1); pn > 5e-15 && !(proj == a || proj == b) {
		c.Violate("Project.unit", "projected point is not unit length", R("project", proj))
	}
	// UpdateMaxDistance against the antipodal reflection
	md, mok := s2.UpdateMaxDistance(x, a, b, s1.NegativeChordAngle)
	nx := s2.Point{Vector: r3.Vector{X: -x.X, Y: -x.Y, Z: -x.Z}}
	if tn, _, okn := trueSegDist(nx.Vector, a.Vector, b.Vector); okn && mok {
		tmax := bsub(bf(4), tn)
		// the true maximum is the larger of the endpoint distances unless the antipode projects inside
		mb := math.Max(s2.VerifC17MinUpdateDistanceMaxError(s1.ChordAngle(f64(tn))), s1.ChordAngle(f64(tmax)).MaxPointError()) + 4*2.3e-16
		me := f64(babs(bsub(bf(float64(md)), tmax)))
		track("max_error_over_bound(UpdateMaxDistance)", me/mb)
		if me > mb*slack {
			c.Violate("UpdateMaxDistance.accuracy", fmt.Sprintf("|computed max - (4 - min distance of antipode)| = %.3g > %.3g", me, mb), R("computed", float64(md), "true", tmax))
		}
	} else if !mok {
		c.Violate("UpdateMaxDistance.flag", "UpdateMaxDistance from NegativeChordAngle did not update", R())
	}
}

// s1.ChordAngle arithmetic is in unit S1 (owned by C19); C17 consumes Successor/Predecessor/Angle/
// MaxPointError/MaxAngleError: bit-exact [T] here as well.
func runChord(c *vkit.Collector, rng *vkit.Rng, budget int) {
	vals := []float64{0, 1e-30, 1e-15, 1, 2, vkit.Ulps(2, -1), vkit.Ulps(2, 1), 3.9999, vkit.Ulps(4, -1), 4, -1, math.Inf(1)}
	for k := 0; k < 20*budget; k++ {
		vals = append(vals, rng.Range(0, 4))
	}
	for _, v := range vals {
		ca := s1.ChordAngle(v)
		V := vkit.F(v)
		c.Evals++
		c.Check(fmt.Sprintf("ChordAngle.Successor %v", v), fEq(vkit.App("s1_ChordAngle_Successor", V), float64(ca.Successor())))
		c.Check(fmt.Sprintf("ChordAngle.Predecessor %v", v), fEq(vkit.App("s1_ChordAngle_Predecessor", V), float64(ca.Predecessor())))
		c.Check(fmt.Sprintf("ChordAngle.Angle %v", v), fEq(vkit.App("s1_ChordAngle_Angle", V), float64(ca.Angle())))
		c.Check(fmt.Sprintf("ChordAngle.MaxPointError %v", v), fEq(vkit.App("s1_ChordAngle_MaxPointError", V), ca.MaxPointError()))
		c.Check(fmt.Sprintf("ChordAngle.MaxAngleError %v", v), fEq(vkit.App("s1_ChordAngle_MaxAngleError", V), ca.MaxAngleError()))
		c.Check(fmt.Sprintf("minUpdateInteriorDistanceMaxError %v", v), fEq(vkit.App("s2_minUpdateInteriorDistanceMaxError", V), s2.VerifC17MinUpdateInteriorDistanceMaxError(ca)))
		// Successor/Predecessor are what turn "<" into "<=": they must be adjacent
		if v >= 0 && v < 4 {
			if s := float64(ca.Successor()); !(s > v) || math.Nextafter(v, 10) != s {
				c.Violate("ChordAngle.Successor", "Successor is not the next representable value", rep("c", v))
			}
		}
		// conversion accuracy (H_LIBM)
		if v >= 0 && v <= 4 {
			ta := angleOfChord2(bf(v))
			e := f64(babs(bsub(bf(float64(ca.Angle())), ta)))
			// relative 4 ulp away from pi; near pi the conversion is ill-conditioned: d(angle) = d(c)/(2 sin)
			tol := 1e-15 * (1 + f64(ta))
			if v > 3.99 {
				tol = 2e-8
			}
			if e > tol {
				c.Violate("ChordAngle.Angle", fmt.Sprintf("Angle() off by %.3g", e), rep("c", v))
			}
		}
	}
}

func runInterp(c *vkit.Collector, rng *vkit.Rng, budget int) {
	for k := 0; k < 110*budget; k++ {
		a, b, L := genEdge(rng)
		A, B := pt(a), pt(b)
		key := fmt.Sprintf("%v|%v", bits(a), bits(b))
		c.Class("interp edge:" + lenClass(L))
		ts := []float64{0, 1, math.Copysign(0, -1), 0.5, rng.Float(), vkit.Ulps(1, -1), 5e-324, 1e-17, -0.25, 1.25, 2}
		for ti, t := range ts {
			r := s2.Interpolate(t, a, b)
			c.Eval(fmt.Sprintf("interp %s %x", key, math.Float64bits(t)), a != b)
			if ti < 5 || ti == 5+rng.Intn(6) {
				c.Check(fmt.Sprintf("Interpolate %s t=%v", key, t), ptEq(vkit.App("s2_Interpolate", vkit.F(t), A, B), r))
			}
			R := rep("a", a, "b", b, "t", t, "result", r)
			// exact at the ends
			if t == 0 && r != a || t == 1 && r != b {
				c.Violate("Interpolate.ends", "Interpolate(0/1) is not exactly a/b", R)
			}
			if t == 0 && (math.Float64bits(r.X) != math.Float64bits(a.X) || math.Float64bits(r.Y) != math.Float64bits(a.Y) || math.Float64bits(r.Z) != math.Float64bits(a.Z)) {
				c.Violate("Interpolate.ends", "Interpolate(+-0) is not bit-identical to a", R)
			}
			if L >= math.Pi-1e-5 {
				continue // direction of a nearly antipodal edge is numerically delicate; accuracy checked below only away from it
			}
			// oracle: the result is on the great circle of ab, at angle t*ab from a and (1-t)*ab from b
			A3, B3, R3 := unitOf(a.Vector), unitOf(b.Vector), unitOf(r.Vector)
			ab := vangle(A3, B3)
			if a != b && t >= 0 && t <= 1 {
				want := bmul(bf(t), ab)
				e0 := f64(babs(bsub(vangle(A3, R3), want)))
				e1 := f64(babs(bsub(vangle(R3, B3), bsub(ab, want))))
				n := vunit(vcross(A3, B3))
				off := math.Abs(f64(vdot(R3, n)))
				track("max_interpolate_error_rad", math.Max(e0, math.Max(e1, off)))
				if e0 > 1e-14 || e1 > 1e-14 || off > 1e-14 {
					c.Violate("Interpolate.accuracy", fmt.Sprintf("Interpolate(t) is off: along %.3g / %.3g rad, off the great circle %.3g", e0, e1, off), R)
				}
			}
			if math.Abs(r.Norm2()-1) > 5e-15 && t != 0 && t != 1 {
				c.Violate("Interpolate.unit", "result not unit length", R)
			}
		}
		if a == b {
			continue
		}
		// (v) Interpolate(DistanceFraction(p,a,b), a, b) ~ p for p on the edge
		for j := 0; j < 3; j++ {
			t := []float64{rng.Float(), 0, 1, 1e-9, 0.5}[rng.Intn(5)]
			p := norm(comb(a.Vector, 1-t, b.Vector, t))
			if t == 0 {
				p = a
			} else if t == 1 {
				p = b
			}
			f := s2.DistanceFraction(p, a, b)
			q := s2.Interpolate(f, a, b)
			c.Evals++
			c.Check(fmt.Sprintf("DistanceFraction %s %v", key, bits(p)), fEq(vkit.App("s2_DistanceFraction", pt(p), A, B), f))
			ad := s1.Angle(rng.Range(-0.5, 3.5))
			c.Check(fmt.Sprintf("InterpolateAtDistance %s %v", key, ad), ptEq(vkit.App("s2_InterpolateAtDistance", vkit.F(float64(ad)), A, B), s2.InterpolateAtDistance(ad, a, b)))
			if L >= math.Pi-1e-5 {
				continue
			}
			e := f64(vangle(unitOf(p.Vector), unitOf(q.Vector)))
			track("max_fraction_roundtrip_error_rad", e)
			if e > 1e-14 {
				c.Violate("Interpolate.DistanceFraction", fmt.Sprintf("Interpolate(DistanceFraction(p)) is %.3g rad from p", e), rep("a", a, "b", b, "p", p, "fraction", f, "result", q))
			}
			if (p == a && f != 0) || (p == b && f != 1) {
				c.Violate("DistanceFraction.ends", "DistanceFraction of an endpoint is not exactly 0/1", rep("a", a, "b", b, "p", p, "fraction", f))
			}
		}
		// PointOnLine/PointToLeft/PointToRight/PointOnRay: [T] only
		r := s1.Angle(rng.Range(-1, 3))
		c.Check("PointOnLine "+key, ptEq(vkit.App("s2_PointOnLine", A, B, vkit.F(float64(r))), s2.PointOnLine(a, b, r)))
		c.Check("PointToLeft "+key, ptEq(vkit.App("s2_PointToLeft", A, B, vkit.F(float64(r))), s2.PointToLeft(a, b, r)))
		c.Check("PointToRight "+key, ptEq(vkit.App("s2_PointToRight", A, B, vkit.F(float64(r))), s2.PointToRight(a, b, r)))
	}
}

// exact crossing oracle for two edges shorter than 180 degrees: interiors cross iff the
// endpoints of each edge are strictly on opposite sides of the other, with the orientation
// pattern of a proper (not antipodal) crossing. Returns (crosses, degenerate).
func exactCrossing(a0, a1, b0, b1 s2.Point) (bool, bool) {
	s1_ := exactSign(a0.Vector, a1.Vector, b0.Vector)
	s2_ := exactSign(a0.Vector, a1.Vector, b1.Vector)
	s3 := exactSign(b0.Vector, b1.Vector, a0.Vector)
	s4 := exactSign(b0.Vector, b1.Vector, a1.Vector)
	if s1_ == 0 || s2_ == 0 || s3 == 0 || s4 == 0 {
		return false, true
	}
	// proper crossing: acb = -(a0 a1 b0)... use the standard criterion: a0,a1,b0 / a1 ... all four
	// triangles ACB, CBD, BDA, DAC have the same orientation
	acb := -s1_ // sign(a0, b0, a1) = -sign(a0, a1, b0)
	bda := s2_  // sign(a1, b1, a0) = sign(a0, a1, b1)
	cbd := -s4  // sign(b0, a1, b1) = -sign(b0, b1, a1)
	dac := s3   // sign(b1, a0, b0) = sign(b0, b1, a0)
	return acb == bda && bda == cbd && cbd == dac, false
}

func runPairs(c *vkit.Collector, rng *vkit.Rng, budget int) {
	inf := s1.InfChordAngle()
	for k := 0; k < 90*budget; k++ {
		a0, a1, _ := genEdge(rng)
		var b0, b1 s2.Point
		mode := rng.Intn(6)
		switch mode {
		case 0: // crossing near the midpoint of a
			m := norm(comb(a0.Vector, 1, a1.Vector, 1))
			t := tangentAt(rng, m)
			r := []float64{1e-9, 1e-3, 0.5}[rng.Intn(3)]
			b0, b1 = along(m, t, r), along(m, t, -r)
		case 1: // shared vertex
			b0 = a0
			b1 = randPoint(rng)
		case 2: // same edge / reversed
			b0, b1 = a1, a0
		case 3: // b near the antipode of a
			m := norm(comb(a0.Vector, -1, a1.Vector, -1))
			t := tangentAt(rng, m)
			b0, b1 = along(m, t, 0.1), along(m, t, -0.1)
		case 4: // degenerate b
			b0 = randPoint(rng)
			b1 = b0
		default:
			b0, b1, _ = genEdge(rng)
		}
		checkPair(c, a0, a1, b0, b1, fmt.Sprintf("pair mode %d", mode))
	}
	_ = inf
	runPairConfigs(c, rng, budget)
}

// pairPoint is the point at longitude u and latitude h in the orthonormal frame (e1, e2, e3)
func pairPoint(e1, e2, e3 r3.Vector, u, h float64) s2.Point {
	return norm(comb(comb(e1, math.Cos(h)*math.Cos(u), e2, math.Cos(h)*math.Sin(u)), 1, e3, math.Sin(h)))
}

// runPairConfigs: the "which endpoint is closest" configurations. Edge A lies on the equator of a
// random frame with half-length s; edge B starts at height ~0.1 s above A's interior and climbs to
// 0.2-0.3 s, so that the global minimum is at one end of B against the interior of A while the other
// end of B is still nearer to A than both ends of A are to B. All eight orders (both edges, both
// endpoint orders) make each of the four probes of EdgePairClosestPoints the winning one, with a
// later probe that would win against a stale running minimum.
func runPairConfigs(c *vkit.Collector, rng *vkit.Rng, budget int) {
	var cfgs [][4]s2.Point
	// the two demo configurations of the seeded change C17-mut3
	cfgs = append(cfgs,
		[4]s2.Point{norm(r3.Vector{X: 1, Y: -1}), norm(r3.Vector{X: 1, Y: 1}), norm(r3.Vector{X: 1, Z: math.Tan(0.1)}), norm(r3.Vector{X: 1, Y: 0.05, Z: math.Tan(0.2)})},
		[4]s2.Point{norm(r3.Vector{X: 1, Y: -1e-6}), norm(r3.Vector{X: 1, Y: 1e-6}), norm(r3.Vector{X: 1, Y: 1e-8, Z: 1e-7}), norm(r3.Vector{X: 1, Y: 2e-8, Z: 3e-7})})
	for round := 0; round < budget; round++ {
		for _, sc := range []float64{1e-9, 1e-7, 1e-5, 1e-3, 0.1, 1} {
			for j := 0; j < 2; j++ {
				e1 := randPoint(rng).Vector
				e2 := tangentAt(rng, s2.Point{Vector: e1})
				e3 := norm(crossv(e1, e2)).Vector
				u0 := rng.Range(-0.3, 0.3) * sc
				u1 := u0 + rng.Range(-0.1, 0.1)*sc
				h0 := rng.Range(0.05, 0.15) * sc
				h1 := h0 + rng.Range(0.05, 0.2)*sc
				if j == 1 && rng.Bool() {
					h0, h1 = -h0, -h1 // below the equator
				}
				cfgs = append(cfgs, [4]s2.Point{pairPoint(e1, e2, e3, -sc, 0), pairPoint(e1, e2, e3, sc, 0), pairPoint(e1, e2, e3, u0, h0), pairPoint(e1, e2, e3, u1, h1)})
			}
		}
	}
	for _, q := range cfgs {
		a0, a1, b0, b1 := q[0], q[1], q[2], q[3]
		for v := 0; v < 8; v++ {
			p0, p1, q0, q1 := a0, a1, b0, b1
			if v&1 != 0 {
				p0, p1 = p1, p0
			}
			if v&2 != 0 {
				q0, q1 = q1, q0
			}
			if v&4 != 0 {
				p0, p1, q0, q1 = q0, q1, p0, p1
			}
			checkPair(c, p0, p1, q0, q1, fmt.Sprintf("pair config: near end of one edge over the interior of the other, order %d", v))
		}
	}
}

// poleRounding: Project computes p = x - n(x.n)/|n|^2 whose length is sin(rho), rho = angle of x from
// the pole of the edge, with an absolute error of a few eps*kappa (kappa = 2/|a+b| >= 1 is the
// conditioning of the normal n = (a+b)x(b-a)). Its direction is pure rounding noise once
// rho <~ 4 eps kappa ~ 1e-15 kappa (recorded replays: rho = 4.0e-17 and 9.7e-16 with kappa ~ 1); an
// offset of 1e-3 rad needs rho <~ 1e-12 kappa in that model. The known finding is restricted to
// rho <= 1e-13*kappa; anything else that far off the edge is a plain violation.
const poleRounding = 1e-13

// poleParams returns rho (angle between x and the nearer pole of edge e0e1) and kappa = max(1, 2/|e0+e1|)
func poleParams(x, e0, e1 s2.Point) (rho, kappa float64) {
	if e0 == e1 {
		return math.Inf(1), 1
	}
	X3, A3, B3 := unitOf(x.Vector), unitOf(e0.Vector), unitOf(e1.Vector)
	r := f64(vangle(X3, vcross(A3, B3)))
	return math.Min(r, math.Pi-r), math.Max(1, 2/f64(vnorm(badd3(A3, B3))))
}

// onEdgeTol: how far from its edge a point returned by Project(x, e0, e1) may be (see checkTriple (iv))
func onEdgeTol(x, e0, e1 s2.Point) float64 {
	rho, kappa := poleParams(x, e0, e1)
	return 1e-14 + 1e-15*kappa*(1+1/rho)
}

func checkPair(c *vkit.Collector, a0, a1, b0, b1 s2.Point, class string) {
	inf := s1.InfChordAngle()
	key := fmt.Sprintf("%v|%v|%v|%v", bits(a0), bits(a1), bits(b0), bits(b1))
	c.Class(class)
	cr := s2.CrossingSign(a0, a1, b0, b1) == s2.Cross
	nb0, nb1 := s2.Point{Vector: b0.Mul(-1)}, s2.Point{Vector: b1.Mul(-1)}
	crn := s2.CrossingSign(a0, a1, nb0, nb1) == s2.Cross
	A0, A1, B0, B1 := pt(a0), pt(a1), pt(b0), pt(b1)
	c.Eval("pair "+key, true)
	for _, lim := range []float64{math.Inf(1), 0, 1e-3, 4} {
		d, ok := s2.VerifC17UpdateEdgePairMinDistance(a0, a1, b0, b1, s1.ChordAngle(lim))
		c.Check(fmt.Sprintf("updateEdgePairMinDistance %s %v", key, lim), dbEq(vkit.App("m_updateEdgePairMinDistance", vkit.B(cr), A0, A1, B0, B1, vkit.F(lim)), d, ok))
	}
	for _, lim := range []float64{-1, 4, 3.5, 0} {
		d, ok := s2.VerifC17UpdateEdgePairMaxDistance(a0, a1, b0, b1, s1.ChordAngle(lim))
		c.Check(fmt.Sprintf("updateEdgePairMaxDistance %s %v", key, lim), dbEq(vkit.App("m_updateEdgePairMaxDistance", vkit.B(crn), A0, A1, B0, B1, vkit.F(lim)), d, ok))
	}
	pa, pb := s2.EdgePairClosestPoints(a0, a1, b0, b1)
	var isect s2.Point
	if cr {
		isect = pa
	}
	c.Check("EdgePairClosestPoints "+key, vkit.App("pair_beq s2_Point_eqbits s2_Point_eqbits", vkit.App("m_EdgePairClosestPoints", vkit.B(cr), pt(isect), A0, A1, B0, B1), vkit.Pair(pt(pa), pt(pb))))

	// [S] (vii)
	d, ok := s2.VerifC17UpdateEdgePairMinDistance(a0, a1, b0, b1, inf)
	R := rep("a0", a0, "a1", a1, "b0", b0, "b1", b1, "dist2", float64(d))
	crosses, degen := exactCrossing(a0, a1, b0, b1)
	shared := a0 == b0 || a0 == b1 || a1 == b0 || a1 == b1
	if !ok {
		c.Violate("EdgePair.flag", "edge pair distance from infinity did not update", R)
	}
	if shared && math.Float64bits(float64(d)) != 0 {
		c.Violate("EdgePair.shared_vertex", "edges sharing a vertex are not at distance +0", R)
	}
	if !degen {
		// crossing edges are at distance exactly 0; a computed 0 for non-crossing edges (a vertex within
		// rounding of the other edge) is judged by the accuracy check below, not here
		if crosses && d != 0 {
			c.Violate("EdgePair.zero_iff_cross", fmt.Sprintf("exact crossing=%v but distance=%v", crosses, float64(d)), R)
		}
		if !crosses {
			// min of the four true vertex-edge distances
			var best *big.Float
			all := true
			for _, q := range [][3]s2.Point{{a0, b0, b1}, {a1, b0, b1}, {b0, a0, a1}, {b1, a0, a1}} {
				t, _, okq := trueSegDist(q[0].Vector, q[1].Vector, q[2].Vector)
				if !okq {
					all = false
					break
				}
				if best == nil || t.Cmp(best) < 0 {
					best = t
				}
			}
			if all {
				bound := math.Max(s2.VerifC17MinUpdateDistanceMaxError(d), s2.VerifC17MinUpdateDistanceMaxError(s1.ChordAngle(f64(best))))
				e := f64(babs(bsub(bf(float64(d)), best)))
				track("max_error_over_bound(edge pair)", e/bound)
				if e > bound*slack {
					c.Violate("EdgePair.accuracy", fmt.Sprintf("edge pair distance off by %.3g > %.3g", e, bound), R)
				}
				// closest points realise it
				e1 := f64(babs(bsub(vangle(unitOf(pa.Vector), unitOf(pb.Vector)), angleOfChord2(best))))
				e2 := f64(babs(bsub(vnorm2(vsub(unitOf(pa.Vector), unitOf(pb.Vector))), best)))
				if e1 > 1e-14 && e2 > 3e-15 {
					c.Violate("EdgePairClosestPoints.distance", fmt.Sprintf("closest points are %.3g rad off the true edge-pair distance", e1), R)
				}
			}
		}
	}
	// ---- consistency of EdgePairClosestPoints with the reported edge-pair distance ----
	if cr || degen {
		return
	}
	PA, PB := unitOf(pa.Vector), unitOf(pb.Vector)
	pc2 := vnorm2(vsub(PA, PB))
	// each returned point lies on its edge
	for side, q := range [][4]s2.Point{{pa, a0, a1, pb}, {pb, b0, b1, pa}} {
		t, _, okq := trueSegDist(q[0].Vector, q[1].Vector, q[2].Vector)
		if !okq {
			return
		}
		off, tol := f64(angleOfChord2(t)), onEdgeTol(q[3], q[1], q[2])
		// a returned point that is not a vertex is Project(other point, edge): rho of that call
		rho, kappa := poleParams(q[3], q[1], q[2])
		if off > 1e-3 && rho <= poleRounding*kappa {
			limited(c, "Project.pole_far_from_edge", fmt.Sprintf("EdgePairClosestPoints: returned point %d is %.3g rad away from its edge (the projected vertex is %.3g rad from the pole of that edge)", side, off, rho), R)
			return
		} else if off > 1e-3 && off > tol {
			c.Violate("Project.on_segment.gross", fmt.Sprintf("EdgePairClosestPoints: returned point %d is %.3g rad away from its edge although the projected vertex is %.3g rad from the pole of that edge", side, off, rho), R)
		} else if off > tol {
			c.Violate("EdgePairClosestPoints.on_edge", fmt.Sprintf("returned point %d is %.3g rad away from its edge (tolerance %.3g)", side, off, tol), R)
		}
	}
	// the pair realises the distance reported by updateEdgePairMinDistance
	bound := s2.VerifC17MinUpdateDistanceMaxError(d)
	dAng := angleOfChord2(bf(float64(d)))
	e1 := f64(babs(bsub(vangle(PA, PB), dAng)))
	e2 := f64(babs(bsub(pc2, bf(float64(d)))))
	ptol := math.Max(onEdgeTol(pa, b0, b1), onEdgeTol(pb, a0, a1))
	sinD := math.Sin(f64(dAng))
	track("max_closest_points_vs_reported_distance_rad", math.Min(e1, e2*1e30))
	if e2 > bound*slack+3e-15 && e1 > ptol+bound/math.Max(2*sinD, 1e-7) {
		c.Violate("EdgePairClosestPoints.realises_reported", fmt.Sprintf("distance(EdgePairClosestPoints) = %.17g rad but updateEdgePairMinDistance reports %.17g rad", f64(vangle(PA, PB)), f64(dAng)), R)
	}
	// symmetry under swapping the two edges, and under reversing both
	for _, w := range [][4]s2.Point{{b0, b1, a0, a1}, {a1, a0, b1, b0}} {
		qa, qb := s2.EdgePairClosestPoints(w[0], w[1], w[2], w[3])
		c.Evals++
		QA, QB := unitOf(qa.Vector), unitOf(qb.Vector)
		es := f64(babs(bsub(vnorm2(vsub(QA, QB)), pc2)))
		ea := f64(babs(bsub(vangle(QA, QB), vangle(PA, PB))))
		if es > 2*bound*slack+6e-15 && ea > 2*ptol+bound/math.Max(sinD, 1e-7) {
			c.Violate("EdgePairClosestPoints.symmetry", fmt.Sprintf("closest points of (A,B) are %.17g rad apart, of the swapped/reversed pair %.17g rad", f64(vangle(PA, PB)), f64(vangle(QA, QB))), R)
		}
	}
}

// committed regression input: Interpolate(1.0) stops inside the last segment
var regressionPolylines = []s2.Polyline{{
	pb(0xbfe5ebbecff5cd56, 0x3fd74168d3d0dc92, 0x3fe434a8d8b7eace),
	pb(0xbfe5ebdb28ea82ef, 0x3fd740dd892a15f7, 0x3fe434b22b6ac27c),
	pb(0xbfe5ec05c0dd1371, 0x3fd7400bdaecaee8, 0x3fe434c048079b92)}}

// try runs f and reports whether the code under test panicked
func try(f func()) (msg string) {
	defer func() {
		if r := recover(); r != nil {
			msg = fmt.Sprint(r)
		}
	}()
	f()
	return ""
}

func runPolylines(c *vkit.Collector, rng *vkit.Rng, budget int) {
	sizes := []int{1, 2, 2, 3, 3, 4, 5, 8, 13, 30, 200}
	for k := 0; k < 26*budget; k++ {
		n := sizes[rng.Intn(len(sizes))]
		if k < len(sizes) {
			n = sizes[k]
		}
		step := []float64{1e-9, 1e-4, 0.01, 0.3}[rng.Intn(4)]
		if n > 20 {
			step = math.Min(step, 0.01)
		}
		dup := rng.Intn(3) == 0
		alldup := rng.Intn(9) == 0
		pl := make(s2.Polyline, 0, n)
		p := randPoint(rng)
		pl = append(pl, p)
		for len(pl) < n {
			if alldup || (dup && rng.Intn(3) == 0) {
				pl = append(pl, p)
				continue
			}
			p = along(p, tangentAt(rng, p), step*rng.Range(0.2, 1))
			pl = append(pl, p)
		}
		if k < len(regressionPolylines) {
			pl, n, alldup, dup = regressionPolylines[k], len(regressionPolylines[k]), false, false
		}
		cls := fmt.Sprintf("polyline n=%d", n)
		if alldup {
			cls += " all vertices equal"
		} else if dup {
			cls += " with duplicate vertices"
		}
		c.Class(cls)
		checkPolyline(c, rng, pl, fmt.Sprintf("pl#%d n=%d", k, n), cls, false)
	}
	// polylines with one or more edges within 1e-4 .. 1e-9 rad of 180 degrees, on the equator, on a
	// meridian (the direction of such an edge is then exact) and in random frames
	frames := [][2]r3.Vector{{{X: 1}, {Y: 1}}, {{X: 1}, {Z: 1}}, {{Z: -1}, {Y: 1}}}
	for r := 0; r < 2*budget; r++ {
		e1 := randPoint(rng)
		frames = append(frames, [2]r3.Vector{e1.Vector, tangentAt(rng, e1)})
	}
	for fi, fr := range frames {
		for _, gap := range []float64{1e-4, 1e-5, 1e-6, 1e-7, 1e-8, 1e-9} {
			shapes := [][]float64{{math.Pi - gap}, {math.Pi - gap, 1}, {0.5, math.Pi - gap}, {math.Pi - gap, math.Pi - 3*gap}, {0.3, math.Pi - gap, 1e-3, math.Pi - 2*gap}}
			for pick := 0; pick < 2; pick++ {
				sh := shapes[rng.Intn(len(shapes))]
				if fi < 2 && pick == 0 {
					sh = shapes[1] // the C17-mut6 demo shape: 0 -> pi-gap -> pi-gap+1
				}
				lam := 0.0
				pl := s2.Polyline{norm(comb(fr[0], 1, fr[1], 0))}
				for _, d := range sh {
					lam += d
					pl = append(pl, norm(comb(fr[0], math.Cos(lam), fr[1], math.Sin(lam))))
				}
				cls := fmt.Sprintf("polyline with an edge within %.0e rad of 180deg", gap)
				c.Class(cls)
				checkPolyline(c, rng, pl, fmt.Sprintf("straight#%d gap=%g n=%d/%d", fi, gap, len(pl), pick), cls, true)
			}
		}
	}
	tinyPolylines(c, rng, budget)
}

// tinyPolylines: polylines of extent <= ~2e-8 rad (and degenerate {a,a}, {a,a,a}) queried at the exact
// antipodes of their vertices and edge midpoints and within 1e-15 .. 1e-9 rad of those: every squared
// chord distance from the query rounds to 4.0 (StraightChordAngle), the largest possible value.
func tinyPolylines(c *vkit.Collector, rng *vkit.Rng, budget int) {
	neg := func(p s2.Point) s2.Point { return s2.Point{Vector: r3.Vector{X: -p.X, Y: -p.Y, Z: -p.Z}} }
	for round := 0; round < budget; round++ {
		for si, step := range []float64{0, 1e-15, 1e-12, 1e-9, 1e-8} {
			for _, n := range []int{2, 3} {
				a := randPoint(rng)
				if round == 0 && si%2 == 0 {
					a = axisPoint(rng)
				}
				pl := s2.Polyline{a}
				for len(pl) < n {
					if step == 0 {
						pl = append(pl, a)
					} else {
						last := pl[len(pl)-1]
						pl = append(pl, along(last, tangentAt(rng, last), step))
					}
				}
				var qs []s2.Point
				for i, v := range pl {
					qs = append(qs, neg(v))
					if i > 0 {
						qs = append(qs, neg(norm(comb(pl[i-1].Vector, 1, v.Vector, 1))))
					}
				}
				base := qs[rng.Intn(len(qs))]
				for _, r := range []float64{1e-15, 1e-12, 1e-9} {
					qs = append(qs, along(base, tangentAt(rng, base), r))
				}
				cls := fmt.Sprintf("tiny polyline n=%d step=%g queried at/near antipodes", n, step)
				c.Class(cls)
				checkPolyline(c, rng, pl, fmt.Sprintf("tiny#%d step=%g n=%d", round, step, n), cls, false, qs...)
			}
		}
	}
}

func checkPolyline(c *vkit.Collector, rng *vkit.Rng, pl s2.Polyline, key, cls string, nearStraight bool, queries ...s2.Point) {
	n := len(pl)
	PL := ptList(pl)
	length := pl.Length()
	c.Check("Polyline.Length "+key, fEq(vkit.App("m_Polyline_Length", PL), float64(length)))
	// true cumulative lengths
	cum := make([]*big.Float, n)
	cum[0] = nf()
	for i := 1; i < n; i++ {
		cum[i] = badd(cum[i-1], vangle(unitOf(pl[i-1].Vector), unitOf(pl[i].Vector)))
	}
	tl := cum[n-1]
	if e := f64(babs(bsub(bf(float64(length)), tl))); e > float64(n+4)*2.3e-16*(f64(tl)+1e-15)+float64(n)*4e-16 {
		c.Violate("Polyline.Length", fmt.Sprintf("length off by %.3g", e), rep("n", n, "length", float64(length), "true_length", tl, "polyline_bits", plBits(pl)))
	}
	fr := []float64{0, 1, -0.5, 1.5, 0.5, rng.Float(), rng.Float(), vkit.Ulps(1, -1), 1e-12}
	nfr := len(fr)
	if n > 50 {
		nfr = 6
	}
	for _, f := range fr[:nfr] {
		var q s2.Point
		var next int
		var u float64
		if m := try(func() { q, next = pl.Interpolate(f); u = pl.Uninterpolate(q, next) }); m != "" {
			c.Violate("Polyline.panic", "Interpolate/Uninterpolate panicked on a non-empty polyline: "+m, rep("polyline_bits", plBits(pl), "fraction", f))
			continue
		}
		c.Eval(fmt.Sprintf("%s f=%v", key, f), n > 1)
		c.Check(fmt.Sprintf("Polyline.Interpolate %s f=%v", key, f), vkit.App("pair_beq s2_Point_eqbits Z.eqb", vkit.App("m_Polyline_Interpolate", PL, vkit.F(f)), vkit.Pair(pt(q), vkit.Z(int64(next)))))
		R := rep("polyline_bits", plBits(pl), "fraction", f, "point", q, "next", next)
		if next < 1 || next > n {
			c.Violate("Polyline.Interpolate.next", "next vertex index outside [1,len]", R)
			continue
		}
		if f <= 0 && (q != pl[0] || next != 1) {
			c.Violate("Polyline.Interpolate.ends", "fraction <= 0 does not return the first vertex", R)
		}
		if f >= 1 && (q != pl[n-1] || next != n) {
			if f64(vangle(unitOf(q.Vector), unitOf(pl[n-1].Vector))) < 1e-14 {
				// Within rounding of the last vertex (the walk stops in the last segment because of the
				// rounding of target -= length). The doc comment promises next = len here, but property C17
				// only asks for agreement within the error bounds, so this is counted, not reported.
				c.Class("polyline:Interpolate(>=1) lands within 1e-14 rad of the last vertex but not on it")
			} else {
				c.Violate("Polyline.Interpolate.ends", "fraction >= 1 does not return the last vertex", R)
			}
		}
		c.Check(fmt.Sprintf("Polyline.Uninterpolate %s f=%v", key, f), fEq(vkit.App("m_Polyline_Uninterpolate", PL, pt(q), vkit.Z(int64(next))), u))
		if !(u >= 0 && u <= 1) {
			c.Violate("Polyline.Uninterpolate.range", fmt.Sprintf("Uninterpolate = %v outside [0,1]", u), R)
		}
		if n >= 2 && tl.Sign() > 0 {
			L := f64(tl)
			tol := float64(n+10) * 1e-15 * (1 + 1/L)
			fc := math.Max(0, math.Min(1, f))
			track("max_uninterpolate_roundtrip_error/tol", math.Abs(u-fc)/tol)
			if math.Abs(u-fc) > tol {
				c.Violate("Polyline.Uninterpolate.roundtrip", fmt.Sprintf("Uninterpolate(Interpolate(%v)) = %v", f, u), R)
			}
			// the interpolated point is at true arc length f*L along the polyline
			at := badd(cum[next-1], vangle(unitOf(pl[next-1].Vector), unitOf(q.Vector)))
			if next-1 >= 1 && q == pl[next-1] {
				at = cum[next-1]
			}
			want := bmul(bf(fc), tl)
			if e := f64(babs(bsub(at, want))); e > tol*L+1e-14 {
				c.Violate("Polyline.Interpolate.accuracy", fmt.Sprintf("interpolated point is at arc length off by %.3g", e), R)
			}
			if next < n {
				// off the segment: InterpolateAtDistance takes the direction from PointCross(a, b), whose
				// direction error is ~ eps*kappa, kappa = 2/|a+b| (large only for edges near 180 degrees)
				_, kappa := poleParams(q, pl[next-1], pl[next])
				offTol := 1e-14 + 4e-16*kappa
				if pc, _, okp := trueSegDist(q.Vector, pl[next-1].Vector, pl[next].Vector); okp {
					if off := f64(angleOfChord2(pc)); off > offTol {
						c.Violate("Polyline.Interpolate.on_segment", fmt.Sprintf("interpolated point is %.3g rad off its segment (tolerance %.3g)", off, offTol), R)
					}
				}
				// together with the arc length from vertex next-1 this pins the exact point at arc length f*L:
				// the remaining arc to vertex next must be the rest of that edge
				if q != pl[next-1] {
					rest := bsub(cum[next], want)
					if e := f64(babs(bsub(vangle(unitOf(q.Vector), unitOf(pl[next].Vector)), rest))); e > tol*L+1e-14+offTol {
						c.Violate("Polyline.Interpolate.accuracy", fmt.Sprintf("interpolated point is %.3g rad from the exact point at arc length f*L (measured from the next vertex)", e), R)
					}
				}
			}
		}
	}
	// Project / IsOnRight / Uninterpolate after Project
	nq := 3
	if n > 50 {
		nq = 1
	}
	for j := 0; j < nq+len(queries); j++ {
		var x s2.Point
		if j >= nq {
			x = queries[j-nq]
		} else {
			switch rng.Intn(4) {
			case 0:
				x = pl[rng.Intn(n)]
			case 1:
				v := pl[rng.Intn(n)]
				x = along(v, tangentAt(rng, v), []float64{1e-15, 1e-9, 1e-3}[rng.Intn(3)])
			default:
				x = randPoint(rng)
			}
		}
		var q s2.Point
		var next int
		if m := try(func() { q, next = pl.Project(x) }); m != "" {
			c.Violate("Polyline.Project.panic", "Project panicked on a non-empty polyline: "+m, rep("polyline_bits", plBits(pl), "x", x))
			continue
		}
		c.Evals++
		c.Check(fmt.Sprintf("Polyline.Project %s #%d", key, j), vkit.App("pair_beq s2_Point_eqbits Z.eqb", vkit.App("m_Polyline_Project", PL, pt(x)), vkit.Pair(pt(q), vkit.Z(int64(next)))))
		R := rep("polyline_bits", plBits(pl), "x", x, "point", q, "next", next)
		if next < 1 || next > n {
			c.Violate("Polyline.Project.next", "next vertex index outside [1,len]", R)
			continue
		}
		// oracle: min over all segments
		var best *big.Float
		if n == 1 {
			best = vnorm2(vsub(unitOf(x.Vector), unitOf(pl[0].Vector)))
		}
		for i := 1; i < n; i++ {
			if t, _, okq := trueSegDist(x.Vector, pl[i-1].Vector, pl[i].Vector); okq && (best == nil || t.Cmp(best) < 0) {
				best = t
			}
		}
		X3, Q3 := unitOf(x.Vector), unitOf(q.Vector)
		e1 := f64(babs(bsub(vangle(X3, Q3), angleOfChord2(best))))
		e2 := f64(babs(bsub(vnorm2(vsub(X3, Q3)), best)))
		// (edges near 180 degrees: Project's conditioning is covered with its kappa tolerance in checkTriple)
		if !nearStraight && e1 > 1e-14 && e2 > 3e-15 {
			c.Violate("Polyline.Project.distance", fmt.Sprintf("projected point is %.3g rad farther/closer than the true closest distance", e1), R)
		}
		// the projected point lies on the polyline (checked for the explicit queries of the tiny/degenerate family)
		if j >= nq {
			offMin := math.Inf(1)
			if n == 1 {
				offMin = f64(vangle(Q3, unitOf(pl[0].Vector)))
			}
			for i := 1; i < n; i++ {
				if t, _, okq := trueSegDist(q.Vector, pl[i-1].Vector, pl[i].Vector); okq {
					offMin = math.Min(offMin, f64(angleOfChord2(t)))
				}
			}
			if offMin > 1e-14 {
				c.Violate("Polyline.Project.on_polyline", fmt.Sprintf("projected point is %.3g rad away from the polyline", offMin), R)
			}
		}
		if n >= 2 {
			or := s2.OrderedCCW(pl[imax(next-2, 0)], x, pl[imin(next, n-1)], pl[next-1])
			var right bool
			var u float64
			if m := try(func() { right = pl.IsOnRight(x); u = pl.Uninterpolate(q, next) }); m != "" {
				c.Violate("Polyline.Project.panic", "IsOnRight / Uninterpolate(Project(x)) panicked: "+m, R)
				continue
			}
			c.Check(fmt.Sprintf("Polyline.IsOnRight %s #%d", key, j), vkit.App("Bool.eqb", vkit.App("m_Polyline_IsOnRight", vkit.B(or), PL, pt(x)), vkit.B(right)))
			if j >= nq {
				c.Check(fmt.Sprintf("Polyline.Uninterpolate(Project) %s #%d", key, j), fEq(vkit.App("m_Polyline_Uninterpolate", PL, pt(q), vkit.Z(int64(next))), u))
			}
			if !(u >= 0 && u <= 1) {
				c.Violate("Polyline.Uninterpolate.range", fmt.Sprintf("Uninterpolate(Project(x)) = %v outside [0,1]", u), R)
			}
		}
	}
}

func badd3(a, b bv) bv { return bv{badd(a[0], b[0]), badd(a[1], b[1]), badd(a[2], b[2])} }

func imax(a, b int) int {
	if a > b {
		return a
	}
	return b
}
func imin(a, b int) int {
	if a < b {
		return a
	}
	return b
}
func plBitsAll(pl s2.Polyline, max int) [][]string {
	if len(pl) > max {
		return nil
	}
	return plBits(pl)
}
func plBits(pl s2.Polyline) [][]string {
	if len(pl) > 12 {
		pl = pl[:12]
	}
	out := [][]string{}
	for _, p := range pl {
		out = append(out, bits(p))
	}
	return out
}
