package main

// 320-bit oracle for C17, independent of the code under test: only math/big +,-,*,/,sqrt
// and an arctangent built from them (argument halving + Taylor series).

import (
	"math/big"

	"github.com/golang/geo/r3"
)

const prec = 320

type bv [3]*big.Float

func nf() *big.Float { return new(big.Float).SetPrec(prec) }

// NaN/Inf from the implementation become 1e300 so that every comparison against the oracle fails loudly
func bf(x float64) *big.Float {
	if x != x || x > 1e300 || x < -1e300 {
		return nf().SetFloat64(1e300)
	}
	return nf().SetFloat64(x)
}
func badd(a, b *big.Float) *big.Float { return nf().Add(a, b) }
func bsub(a, b *big.Float) *big.Float { return nf().Sub(a, b) }
func bmul(a, b *big.Float) *big.Float { return nf().Mul(a, b) }
func bquo(a, b *big.Float) *big.Float { return nf().Quo(a, b) }
func bsqrt(a *big.Float) *big.Float {
	if a.Sign() <= 0 {
		return nf()
	}
	return nf().Sqrt(a)
}
func babs(a *big.Float) *big.Float { return nf().Abs(a) }
func bmin(a, b *big.Float) *big.Float {
	if a.Cmp(b) <= 0 {
		return a
	}
	return b
}
func f64(a *big.Float) float64 { f, _ := a.Float64(); return f }

func bvOf(v r3.Vector) bv { return bv{bf(v.X), bf(v.Y), bf(v.Z)} }
func vdot(a, b bv) *big.Float {
	return badd(badd(bmul(a[0], b[0]), bmul(a[1], b[1])), bmul(a[2], b[2]))
}
func vcross(a, b bv) bv {
	return bv{bsub(bmul(a[1], b[2]), bmul(a[2], b[1])), bsub(bmul(a[2], b[0]), bmul(a[0], b[2])), bsub(bmul(a[0], b[1]), bmul(a[1], b[0]))}
}
func vsub(a, b bv) bv              { return bv{bsub(a[0], b[0]), bsub(a[1], b[1]), bsub(a[2], b[2])} }
func vneg(a bv) bv                 { return bv{nf().Neg(a[0]), nf().Neg(a[1]), nf().Neg(a[2])} }
func vnorm2(a bv) *big.Float       { return vdot(a, a) }
func vnorm(a bv) *big.Float        { return bsqrt(vnorm2(a)) }
func vscale(a bv, s *big.Float) bv { return bv{bmul(a[0], s), bmul(a[1], s), bmul(a[2], s)} }
func vunit(a bv) bv {
	n := vnorm(a)
	if n.Sign() == 0 {
		return a
	}
	return bv{bquo(a[0], n), bquo(a[1], n), bquo(a[2], n)}
}
func unitOf(v r3.Vector) bv { return vunit(bvOf(v)) }

var bone = bf(1)
var btwo = bf(2)

// atan for x >= 0
func batanPos(x *big.Float) *big.Float {
	if x.Cmp(bone) > 0 {
		return bsub(halfPi(), batanPos(bquo(bone, x)))
	}
	// halve the angle k times: atan x = 2 atan(x / (1 + sqrt(1+x^2)))
	k := 0
	lim := bf(1.0 / 4096)
	y := nf().Set(x)
	for y.Cmp(lim) > 0 {
		y = bquo(y, badd(bone, bsqrt(badd(bone, bmul(y, y)))))
		k++
	}
	// Taylor
	y2 := bmul(y, y)
	term := nf().Set(y)
	sum := nf().Set(y)
	eps := nf().SetMantExp(bone, -(prec + 8))
	for n := 1; n < 400; n++ {
		term = bmul(term, y2)
		t := bquo(term, bf(float64(2*n+1)))
		if n%2 == 1 {
			sum = bsub(sum, t)
		} else {
			sum = badd(sum, t)
		}
		if babs(t).Cmp(bmul(eps, babs(sum))) < 0 || t.Sign() == 0 {
			break
		}
	}
	return nf().SetMantExp(sum, k)
}

var piCache *big.Float

func bpi() *big.Float {
	if piCache == nil {
		// Machin: pi = 16 atan(1/5) - 4 atan(1/239)
		a := batanPos(bquo(bone, bf(5)))
		b := batanPos(bquo(bone, bf(239)))
		piCache = bsub(bmul(bf(16), a), bmul(bf(4), b))
	}
	return piCache
}
func halfPi() *big.Float { return bquo(bpi(), btwo) }

// atan2(y, x) in [-pi, pi]
func batan2(y, x *big.Float) *big.Float {
	if x.Sign() == 0 && y.Sign() == 0 {
		return nf()
	}
	ay, ax := babs(y), babs(x)
	var r *big.Float
	if ax.Sign() == 0 {
		r = halfPi()
	} else {
		r = batanPos(bquo(ay, ax))
	}
	if x.Sign() < 0 {
		r = bsub(bpi(), r)
	}
	if y.Sign() < 0 {
		r = nf().Neg(r)
	}
	return r
}

// angle between two (not necessarily unit) vectors
func vangle(a, b bv) *big.Float { return batan2(vnorm(vcross(a, b)), vdot(a, b)) }

// angle of a squared chord length between unit vectors: 2 asin(sqrt(c2)/2)
func angleOfChord2(c2 *big.Float) *big.Float {
	if c2.Sign() <= 0 {
		return nf()
	}
	h := bquo(bsqrt(c2), btwo)
	h2 := bmul(h, h)
	if h2.Cmp(bone) >= 0 {
		return bpi()
	}
	return bmul(btwo, batan2(h, bsqrt(bsub(bone, h2))))
}

// trueSegDist: squared chord length of the true distance from X to the geodesic segment AB,
// all three projected exactly onto the unit sphere. ok=false when the segment is not
// defined (A, B antipodal). interior reports whether the closest point is interior to AB.
func trueSegDist(x, a, b r3.Vector) (c2 *big.Float, interior bool, ok bool) {
	X, A, B := unitOf(x), unitOf(a), unitOf(b)
	xa2 := vnorm2(vsub(X, A))
	xb2 := vnorm2(vsub(X, B))
	N := vcross(A, B)
	n2 := vnorm2(N)
	if n2.Sign() == 0 || n2.Cmp(bf(1e-280)) < 0 {
		if vdot(A, B).Sign() < 0 {
			return nil, false, false
		}
		return bmin(xa2, xb2), false, true
	}
	s1 := vdot(vcross(A, X), N)
	s2 := vdot(vcross(X, B), N)
	if s1.Sign() > 0 && s2.Sign() > 0 {
		d := vdot(X, N)
		sin2 := bquo(bmul(d, d), n2)
		if sin2.Cmp(bone) > 0 {
			sin2 = bone
		}
		c := bsqrt(bsub(bone, sin2))
		return bquo(bmul(btwo, sin2), badd(bone, c)), true, true
	}
	return bmin(xa2, xb2), false, true
}

// exact sign of det(a, b, c) = (a x b) . c for float64 inputs (big.Rat, no rounding)
func exactSign(a, b, c r3.Vector) int {
	r := func(x float64) *big.Rat { return new(big.Rat).SetFloat64(x) }
	m := func(x, y *big.Rat) *big.Rat { return new(big.Rat).Mul(x, y) }
	s := func(x, y *big.Rat) *big.Rat { return new(big.Rat).Sub(x, y) }
	cx := s(m(r(a.Y), r(b.Z)), m(r(a.Z), r(b.Y)))
	cy := s(m(r(a.Z), r(b.X)), m(r(a.X), r(b.Z)))
	cz := s(m(r(a.X), r(b.Y)), m(r(a.Y), r(b.X)))
	d := new(big.Rat).Add(new(big.Rat).Add(m(cx, r(c.X)), m(cy, r(c.Y))), m(cz, r(c.Z)))
	return d.Sign()
}
