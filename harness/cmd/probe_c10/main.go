package main

import (
	"fmt"
	"math"
	"strconv"

	"github.com/golang/geo/r3"
	"github.com/golang/geo/s2"
)

func h(s string) float64 { f, err := strconv.ParseFloat(s, 64); if err != nil { panic(err) }; return f }

func main() {
	a := s2.Point{Vector: r3.Vector{X: h("0x1.56e35039ce7a2p-02"), Y: h("-0x1.92c76039a2546p-03"), Z: h("0x1.d7d138f73c035p-01")}}
	b := s2.Point{Vector: r3.Vector{X: h("-0x1.56e35063cd04ep-02"), Y: h("0x1.92c7606af6a04p-03"), Z: h("-0x1.d7d138ecf9065p-01")}}
	c := s2.Point{Vector: a.Cross(r3.Vector{X: 0, Y: 0, Z: 1}).Normalize()}
	fmt.Println("unit:", a.IsUnit(), b.IsUnit(), "angle a,-b:", a.Angle(b.Mul(-1)))
	for _, vs := range [][]s2.Point{{a, b, c}, {a, c, b}} {
		l := s2.LoopFromPoints(vs)
		fmt.Println("valid:", l.Validate(), "bound:", l.RectBound(), "NaN hi:", math.IsNaN(l.RectBound().Lat.Hi))
		// a point clearly inside the triangle a,b,c: near the middle of a and c, nudged toward b
		in := s2.Point{Vector: a.Add(c.Vector).Add(b.Mul(0.2)).Normalize()}
		// exact containment by brute force: count crossings without the bound shortcut
		out := s2.Point{Vector: in.Mul(-1)}
		cnt, tot := 0, 0
		for _, q := range []s2.Point{out, s2.PointFromCoords(1, 2, -3), s2.PointFromCoords(-1, 0.5, -0.2), s2.PointFromCoords(0, 0, -1), s2.PointFromCoords(0.3, -1, 0.1)} {
			bf := s2.RobustSign(vs[0], vs[1], q) > 0 && s2.RobustSign(vs[1], vs[2], q) > 0 && s2.RobustSign(vs[2], vs[0], q) > 0
			_ = bf
			tot++
			if l.ContainsPoint(q) {
				cnt++
			}
		}
		fmt.Println("points far from the small triangle reported contained:", cnt, "of", tot, " ContainsPoint(south pole):", l.ContainsPoint(s2.PointFromCoords(0, 0, -1)))
		fmt.Println("ContainsPoint(in):", l.ContainsPoint(in), " area:", l.Area(), " RobustSign(a,b,c):", s2.RobustSign(vs[0], vs[1], vs[2]),
			" inside by signs:", s2.RobustSign(vs[0], vs[1], in) > 0 && s2.RobustSign(vs[1], vs[2], in) > 0 && s2.RobustSign(vs[2], vs[0], in) > 0)
	}
}
