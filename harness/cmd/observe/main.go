// Command observe runs the implementation (built from /repo's working tree with
// -tags verif) on generated inputs and histories, and writes
//   - cases_<k>.v : correspondence cases for the Coq model ([T]),
//   - obs.json    : counts, input distribution, samples and any violation of the
//                   property found directly on the implementation ([S]).
package main

import (
	"flag"
	"fmt"
	"os"
	"sort"

	"verifharness/internal/vkit"
)

type observer func(c *vkit.Collector, rng *vkit.Rng, budget int)

var observers = map[string]struct {
	requires []string
	run      observer
}{}

func register(prop string, run observer, requires ...string) {
	observers[prop] = struct {
		requires []string
		run      observer
	}{requires, run}
}

func main() {
	prop := flag.String("prop", "", "property id")
	seed := flag.Uint64("seed", 1, "seed")
	tier := flag.String("tier", "quick", "quick | thorough | search")
	out := flag.String("out", "", "output directory")
	flag.Parse()
	o, ok := observers[*prop]
	if !ok {
		names := []string{}
		for k := range observers {
			names = append(names, k)
		}
		sort.Strings(names)
		fmt.Fprintln(os.Stderr, "unknown property; have", names)
		os.Exit(2)
	}
	budget := map[string]int{"quick": 1, "thorough": 8, "search": 30}[*tier]
	if budget == 0 {
		budget = 1
	}
	c := vkit.NewCollector(*prop, *seed, *tier, o.requires...)
	o.run(c, vkit.NewRng(*seed), budget)
	if err := c.Write(*out); err != nil {
		fmt.Fprintln(os.Stderr, err)
		os.Exit(2)
	}
	fmt.Printf("observe %s: %d evaluations, %d cases, %d violations\n", *prop, c.Evals, len(c.Cases), len(c.Violations))
}
