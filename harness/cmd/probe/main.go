package main

import (
	"fmt"
	"math"

	"github.com/golang/geo/s1"
)

func main() {
	i := s1.Interval{Lo: -3, Hi: math.Float64frombits(0x3ff0000000000001)}
	e := i.Expanded(math.Float64frombits(0x3ff243f6a8885a2e))
	fmt.Println(e, e.Contains(-3), e.IsFull())
}
