package main

import (
	"fmt"

	"github.com/golang/geo/s2"
)

func try(name string, f func()) {
	defer func() {
		if r := recover(); r != nil {
			fmt.Printf("%-30s PANIC: %v\n", name, r)
		}
	}()
	f()
}
func main() {
	p := s2.FullPolygon()
	pt := s2.PointFromCoords(1, 0, 0)
	c := s2.CellFromCellID(s2.CellIDFromFace(0))
	try("ContainsPoint", func() { fmt.Println("ContainsPoint", p.ContainsPoint(pt)) })
	try("ContainsCell", func() { fmt.Println("ContainsCell", p.ContainsCell(c)) })
	try("IntersectsCell", func() { fmt.Println("IntersectsCell", p.IntersectsCell(c)) })
	try("Contains", func() { fmt.Println("Contains", p.Contains(s2.PolygonFromLoops([]*s2.Loop{s2.LoopFromCell(c)}))) })
}
