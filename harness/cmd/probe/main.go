package main

import (
	"fmt"
	"math"

	"github.com/golang/geo/s2"
)

func main() {
	a0, a1 := s2.PointFromCoords(1, -1e-60, 0), s2.PointFromCoords(1, 1e-60, 0)
	b0, b1 := s2.PointFromCoords(1, 0, -1e-60), s2.PointFromCoords(1, 5e-61, 1e-60)
	x, y := s2.Intersection(a0, a1, b0, b1), s2.Intersection(b0, b1, a0, a1)
	fmt.Println(math.Signbit(x.Z), math.Signbit(y.Z), x, y)
}
