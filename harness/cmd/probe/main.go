package main

import (
	"fmt"

	"github.com/golang/geo/s1"
	"github.com/golang/geo/s2"
)

func main() {
	c := s2.PointFromCoords(0.3, 0.5, -0.8)
	a := s2.RegularLoop(c, s1.Angle(30*s1.Degree), 40)
	b := s2.RegularLoop(c, s1.Angle(5*s1.Degree), 40)
	fmt.Println("A.Contains(B):", a.Contains(b), " B.Contains(A):", b.Contains(a), " A.Intersects(B):", a.Intersects(b))
	fmt.Println(s2.TurnAngle(s2.PointFromCoords(1, 0, 0), s2.PointFromCoords(1, 0, 1e-300), s2.PointFromCoords(1, 1e-300, -1e-300)), s2.TurnAngle(s2.PointFromCoords(1, 1e-300, -1e-300), s2.PointFromCoords(1, 0, 1e-300), s2.PointFromCoords(1, 0, 0)))
}
