package main

import (
	"fmt"
	"math"

	"github.com/golang/geo/s2"
)

func main() {
	pt := func(a float64) s2.Point { return s2.Point{Vector: s2.PointFromCoords(math.Cos(a), math.Sin(a), 0).Vector} }
	a0, a1, b0, b1 := pt(0), pt(0.2), pt(0.1), pt(0.3)
	fmt.Println("crossing:", s2.CrossingSign(a0, a1, b0, b1))
	x := s2.Intersection(a0, a1, b0, b1)
	y := s2.Intersection(b0, b1, a0, a1)
	z := s2.Intersection(a1, a0, b1, b0)
	fmt.Println(x, y, z, x == y && y == z)
}
