package main

import (
	"fmt"
	"math"
	"math/rand"
)

func stToUV(s float64) float64 {
	if s >= 0.5 {
		return (1 / 3.) * (4*s*s - 1)
	}
	return (1 / 3.) * (1 - 4*(1-s)*(1-s))
}
func uvToST(u float64) float64 {
	if u >= 0 {
		return 0.5 * math.Sqrt(1+3*u)
	}
	return 1 - 0.5*math.Sqrt(1-3*u)
}
func main() {
	eps := math.Pow(2, -52)
	worst := 0.0
	var wu float64
	r := rand.New(rand.NewSource(1))
	for k := 0; k < 300000000; k++ {
		u := r.Float64()*2 - 1
		if k%3 == 0 {
			u = math.Copysign(1-r.Float64()*1e-3, u)
		}
		d := math.Abs(stToUV(uvToST(u))-u) / eps
		if d > worst {
			worst, wu = d, u
		}
	}
	fmt.Println(worst, wu)
}
