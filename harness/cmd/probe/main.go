package main

import (
	"fmt"

	"github.com/golang/geo/s1"
	"github.com/golang/geo/s2"
)

func main() {
	idx := s2.NewShapeIndex()
	for k := 0; k < 40; k++ {
		idx.Add(s2.RegularLoop(s2.PointFromLatLng(s2.LatLngFromDegrees(float64(k*4-80), float64(k*9))), s1.Angle(0.02), 8))
	}
	idx2 := s2.NewShapeIndex()
	for k := 0; k < 12; k++ {
		idx2.Add(s2.RegularLoop(s2.PointFromLatLng(s2.LatLngFromDegrees(float64(k*7-40), float64(k*9+4))), s1.Angle(0.01), 6))
	}
	fresh := func() s1.ChordAngle {
		t := s2.NewMinDistanceToShapeIndexTarget(idx2)
		q := s2.NewClosestEdgeQuery(idx, s2.NewClosestEdgeQueryOptions())
		return q.Distance(t)
	}
	t := s2.NewMinDistanceToShapeIndexTarget(idx2)
	q := s2.NewClosestEdgeQuery(idx, s2.NewClosestEdgeQueryOptions())
	fmt.Println("IsDistanceLess:", q.IsDistanceLess(t, s1.ChordAngleFromAngle(1.0)))
	fmt.Println("reused Distance:", q.Distance(t).Angle().Degrees(), "fresh:", fresh().Angle().Degrees())
}
