package main

import (
	"fmt"

	"github.com/golang/geo/s1"
	"github.com/golang/geo/s2"
)

func ll(a, b float64) s2.Point { return s2.PointFromLatLng(s2.LatLngFromDegrees(a, b)) }
func main() {
	idx := s2.NewShapeIndex()
	pl := s2.Polyline{ll(0, 0), ll(0, 10)}
	idx.Add(&pl)
	tidx := s2.NewShapeIndex()
	tp := s2.Polyline{ll(-1, 1), ll(1, 2), ll(-1, 3), ll(1, 4)}
	tidx.Add(&tp)
	for _, me := range []float64{0, 0.01} {
		q := s2.NewClosestEdgeQuery(idx, s2.NewClosestEdgeQueryOptions().MaxError(s1.ChordAngleFromAngle(s1.Angle(me))))
		fmt.Println(me, float64(q.Distance(s2.NewMinDistanceToShapeIndexTarget(tidx))))
	}
}
