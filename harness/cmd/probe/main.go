package main

import (
	"fmt"

	"github.com/golang/geo/s2"
	"github.com/golang/geo/s2/s2intersect"
)

func main() {
	P := s2.CellIDFromFace(0)
	k := P.Children()
	for _, in := range s2intersect.Find([]s2.CellUnion{{P}, {P}, {k[0], k[1]}, {k[2], k[3]}}) {
		fmt.Println(in.Indices, in.Intersection, len(in.Intersection))
	}
}
