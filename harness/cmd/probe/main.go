package main

import (
	"fmt"

	"github.com/golang/geo/s2"
)

func main() {
	for _, d := range []float64{1e-100, 1e-158, 1e-160, 1e-162, 1e-170, 1e-300} {
		a0, a1 := s2.Point{Vector: s2.PointFromCoords(1, 0, 0).Vector}, s2.Point{Vector: s2.PointFromCoords(0, 1, 0).Vector}
		b0, b1 := s2.PointFromCoords(1, 0, -d), s2.PointFromCoords(0, 1, d)
		x := s2.Intersection(a0, a1, b0, b1)
		fmt.Println(d, s2.CrossingSign(a0, a1, b0, b1), x, x.Norm())
	}
}
