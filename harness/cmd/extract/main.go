// Command extract is the translator that ties the Coq model to /repo's
// current source text.  It parses and type-checks the geo packages and
// emits, for every function named in extract.cfg, a Gallina definition with
// the same control flow and the same arithmetic (float64 as Coq primitive
// floats, every integer type as Z with the wrap of its Go type written out).
//
// Supported Go subset: functions and value-receiver methods whose bodies
// consist of declarations, assignments (including to struct fields of local
// variables), if/else, switch (without fallthrough), return, calls to other
// translated functions, a fixed list of math functions, conversions,
// composite literals of struct types, `for` loops over an integer range
// with literal-free bodies that only assign locals (translated to a fold),
// and fixed-size array / slice reads.  Anything else is reported and, for
// functions listed explicitly in the configuration, is an error.
package main

import (
	"bytes"
	"crypto/sha256"
	"encoding/json"
	"flag"
	"fmt"
	"go/ast"
	"go/build"
	"go/constant"
	"go/importer"
	"go/parser"
	"go/printer"
	"go/token"
	"go/types"
	"math"
	"math/big"
	"os"
	"path/filepath"
	"sort"
	"strconv"
	"strings"
)

var (
	repo   = flag.String("repo", "/repo", "path of golang/geo")
	cfgF   = flag.String("cfg", "extract.d", "configuration file or directory of *.cfg files")
	outDir = flag.String("out", "", "output directory for Gen/*.v")
	report = flag.String("report", "", "write a JSON report here")
)

type pkgInfo struct {
	path  string // import path
	short string // r1, s1, s2 ...
	dir   string
	files []*ast.File
	pkg   *types.Package
	info  *types.Info
}

type unsupported struct{ msg string }

func fail(format string, a ...interface{}) { panic(unsupported{fmt.Sprintf(format, a...)}) }

type world struct {
	fset  *token.FileSet
	pkgs  map[string]*pkgInfo // by import path
	short map[string]*pkgInfo
	// object -> defining FuncDecl
	funcDecl map[*types.Func]*ast.FuncDecl
	funcPkg  map[*types.Func]*pkgInfo
	// package-level var initialisers (treated as constants when never assigned)
	varInit map[*types.Var]ast.Expr
	varPkg  map[*types.Var]*pkgInfo
	assignedGlobals map[*types.Var]bool
}

type chainImporter struct {
	w   *world
	std types.Importer
}

func (c chainImporter) Import(path string) (*types.Package, error) {
	if p, ok := c.w.pkgs[path]; ok && p.pkg != nil {
		return p.pkg, nil
	}
	return c.std.Import(path)
}

func loadWorld() *world {
	w := &world{fset: token.NewFileSet(), pkgs: map[string]*pkgInfo{}, short: map[string]*pkgInfo{},
		funcDecl: map[*types.Func]*ast.FuncDecl{}, funcPkg: map[*types.Func]*pkgInfo{},
		varInit: map[*types.Var]ast.Expr{}, varPkg: map[*types.Var]*pkgInfo{}, assignedGlobals: map[*types.Var]bool{}}
	std := importer.ForCompiler(w.fset, "source", nil)
	order := []string{"math", "r1", "s1", "r2", "r3", "s2"}
	for _, s := range order {
		p := &pkgInfo{path: "github.com/golang/geo/" + s, short: s, dir: filepath.Join(*repo, s)}
		var goFiles map[string]bool
		if s == "math" {
			// the Go toolchain's own math package: the pure-Go sin/cos/tan/atan/asin/acos that
			// the harness binary is linked with on amd64 are translated from this source.
			p.path = "math"
			p.dir = filepath.Join(build.Default.GOROOT, "src", "math")
			bp, err := build.Default.ImportDir(p.dir, 0)
			if err != nil {
				fatal(err)
			}
			goFiles = map[string]bool{}
			for _, f := range bp.GoFiles {
				goFiles[f] = true
			}
		}
		ents, err := os.ReadDir(p.dir)
		if err != nil {
			fatal(err)
		}
		for _, e := range ents {
			n := e.Name()
			if !strings.HasSuffix(n, ".go") || strings.HasSuffix(n, "_test.go") {
				continue
			}
			if goFiles != nil && !goFiles[n] {
				continue
			}
			src, err := os.ReadFile(filepath.Join(p.dir, n))
			if err != nil {
				fatal(err)
			}
			// skip files guarded by the verif tag (hooks) — they are not part of the modelled code
			if bytes.Contains(src[:min(len(src), 400)], []byte("//go:build verif")) {
				continue
			}
			f, err := parser.ParseFile(w.fset, filepath.Join(p.dir, n), src, parser.ParseComments)
			if err != nil {
				fatal(err)
			}
			p.files = append(p.files, f)
		}
		p.info = &types.Info{Types: map[ast.Expr]types.TypeAndValue{}, Defs: map[*ast.Ident]types.Object{},
			Uses: map[*ast.Ident]types.Object{}, Selections: map[*ast.SelectorExpr]*types.Selection{},
			Implicits: map[ast.Node]types.Object{}}
		conf := types.Config{Importer: chainImporter{w, std}, Error: func(err error) {}}
		pkg, err := conf.Check(p.path, w.fset, p.files, p.info)
		if pkg == nil {
			fatal(err)
		}
		p.pkg = pkg
		w.pkgs[p.path] = p
		w.short[s] = p
		for _, f := range p.files {
			for _, d := range f.Decls {
				switch d := d.(type) {
				case *ast.FuncDecl:
					if fn, ok := p.info.Defs[d.Name].(*types.Func); ok {
						w.funcDecl[fn] = d
						w.funcPkg[fn] = p
					}
				case *ast.GenDecl:
					if d.Tok == token.VAR {
						for _, sp := range d.Specs {
							vs := sp.(*ast.ValueSpec)
							for i, nm := range vs.Names {
								if v, ok := p.info.Defs[nm].(*types.Var); ok && i < len(vs.Values) && len(vs.Values) == len(vs.Names) {
									w.varInit[v] = vs.Values[i]
									w.varPkg[v] = p
								}
							}
						}
					}
				}
			}
			// record assignments to package-level vars anywhere
			ast.Inspect(f, func(n ast.Node) bool {
				switch s := n.(type) {
				case *ast.AssignStmt:
					for _, l := range s.Lhs {
						markAssigned(w, p, l)
					}
				case *ast.IncDecStmt:
					markAssigned(w, p, s.X)
				case *ast.UnaryExpr:
					if s.Op == token.AND {
						markAssigned(w, p, s.X)
					}
				}
				return true
			})
		}
	}
	return w
}

func markAssigned(w *world, p *pkgInfo, e ast.Expr) {
	for {
		switch x := e.(type) {
		case *ast.Ident:
			if v, ok := p.info.Uses[x].(*types.Var); ok && v.Parent() == p.pkg.Scope() {
				w.assignedGlobals[v] = true
			}
			return
		case *ast.IndexExpr:
			e = x.X
		case *ast.SelectorExpr:
			e = x.X
		case *ast.ParenExpr:
			e = x.X
		case *ast.StarExpr:
			e = x.X
		default:
			return
		}
	}
}

func min(a, b int) int {
	if a < b {
		return a
	}
	return b
}

func fatal(a ...interface{}) {
	fmt.Fprintln(os.Stderr, a...)
	os.Exit(2)
}

// ---------------------------------------------------------------------------
// Items: things that get a Coq definition.

type itemKind int

const (
	kFunc itemKind = iota
	kRecord
	kGlobal // package-level constant-like var or table
)

type item struct {
	kind  itemKind
	name  string // Coq name
	unit  string
	text  string
	deps  map[string]bool // Coq names of other items
	err   string
	goKey string
	hash  string
	explicit bool
	extern string // Coq module (under Geo.) holding a hand-written definition of this item (cfg directive `extern <pkg.Var|pkg.Func|pkg.Type.Method> <Module>`); no text is emitted
}

type gen struct {
	externs map[string]string // goKey -> Coq module, from "extern <goKey> <Module>" lines
	w       *world
	items   map[string]*item
	order   []string
	unitOf  map[string]string // goKey -> unit (configured)
	curUnit string
	notes   []string
}

// ---------------------------------------------------------------------------
// Names and types

func (g *gen) typeName(named *types.Named) string {
	o := named.Obj()
	short := ""
	if o.Pkg() != nil {
		short = filepath.Base(o.Pkg().Path())
	}
	return short + "_" + o.Name()
}

func (g *gen) funcName(fn *types.Func) string {
	sig := fn.Type().(*types.Signature)
	short := filepath.Base(fn.Pkg().Path())
	if r := sig.Recv(); r != nil {
		t := r.Type()
		if p, ok := t.(*types.Pointer); ok {
			t = p.Elem()
		}
		if n, ok := t.(*types.Named); ok {
			return short + "_" + n.Obj().Name() + "_" + fn.Name()
		}
	}
	return short + "_" + fn.Name()
}

func funcKey(fn *types.Func) string {
	sig := fn.Type().(*types.Signature)
	short := filepath.Base(fn.Pkg().Path())
	if r := sig.Recv(); r != nil {
		t := r.Type()
		if p, ok := t.(*types.Pointer); ok {
			t = p.Elem()
		}
		if n, ok := t.(*types.Named); ok {
			return short + "." + n.Obj().Name() + "." + fn.Name()
		}
	}
	return short + "." + fn.Name()
}

type intKind struct {
	bits   int
	signed bool
}

func intInfo(t types.Type) (intKind, bool) {
	b, ok := t.Underlying().(*types.Basic)
	if !ok {
		return intKind{}, false
	}
	switch b.Kind() {
	case types.Int, types.Int64:
		return intKind{64, true}, true
	case types.Int32:
		return intKind{32, true}, true
	case types.Int16:
		return intKind{16, true}, true
	case types.Int8:
		return intKind{8, true}, true
	case types.Uint, types.Uint64, types.Uintptr:
		return intKind{64, false}, true
	case types.Uint32:
		return intKind{32, false}, true
	case types.Uint16:
		return intKind{16, false}, true
	case types.Uint8:
		return intKind{8, false}, true
	case types.UntypedInt, types.UntypedRune:
		return intKind{0, true}, true
	}
	return intKind{}, false
}

func isFloat(t types.Type) bool {
	b, ok := t.Underlying().(*types.Basic)
	return ok && (b.Kind() == types.Float64 || b.Kind() == types.UntypedFloat)
}
func isBool(t types.Type) bool {
	b, ok := t.Underlying().(*types.Basic)
	return ok && (b.Kind() == types.Bool || b.Kind() == types.UntypedBool)
}

func (k intKind) wrap(e string) string {
	if k.bits == 0 {
		return e
	}
	s := "u"
	if k.signed {
		s = "i"
	}
	return fmt.Sprintf("(wrap_%s%d %s)", s, k.bits, e)
}

func (g *gen) coqType(t types.Type, deps map[string]bool) string {
	switch u := t.(type) {
	case *types.Named:
		if st, ok := u.Underlying().(*types.Struct); ok {
			n := g.typeName(u)
			g.needRecord(u, st)
			deps[n] = true
			return n
		}
		return g.coqType(u.Underlying(), deps)
	case *types.Basic:
		if isFloat(u) {
			return "float"
		}
		if isBool(u) {
			return "bool"
		}
		if _, ok := intInfo(u); ok {
			return "Z"
		}
	case *types.Array:
		return "(list " + g.coqType(u.Elem(), deps) + ")"
	case *types.Slice:
		return "(list " + g.coqType(u.Elem(), deps) + ")"
	case *types.Tuple:
		if u.Len() == 1 {
			return g.coqType(u.At(0).Type(), deps)
		}
		parts := []string{}
		for i := 0; i < u.Len(); i++ {
			parts = append(parts, g.coqType(u.At(i).Type(), deps))
		}
		return "(" + strings.Join(parts, " * ") + ")"
	}
	fail("unsupported type %s", t)
	return ""
}

func (g *gen) zero(t types.Type, deps map[string]bool) string {
	switch u := t.(type) {
	case *types.Named:
		if st, ok := u.Underlying().(*types.Struct); ok {
			n := g.typeName(u)
			g.needRecord(u, st)
			deps[n] = true
			parts := []string{"mk_" + n}
			for i := 0; i < st.NumFields(); i++ {
				parts = append(parts, g.zero(st.Field(i).Type(), deps))
			}
			return "(" + strings.Join(parts, " ") + ")"
		}
		return g.zero(u.Underlying(), deps)
	case *types.Basic:
		if isFloat(u) {
			return "0%float"
		}
		if isBool(u) {
			return "false"
		}
		if _, ok := intInfo(u); ok {
			return "0%Z"
		}
	case *types.Array:
		z := g.zero(u.Elem(), deps)
		return fmt.Sprintf("(repeat %s %d)", z, u.Len())
	case *types.Slice:
		return "nil"
	}
	fail("no zero value for %s", t)
	return ""
}

func (g *gen) needRecord(named *types.Named, st *types.Struct) {
	n := g.typeName(named)
	if _, ok := g.items[n]; ok {
		return
	}
	it := &item{kind: kRecord, name: n, deps: map[string]bool{}, goKey: "type " + n}
	g.items[n] = it // reserve (recursion guard)
	func() {
		defer func() {
			if r := recover(); r != nil {
				if u, ok := r.(unsupported); ok {
					it.err = u.msg
					return
				}
				panic(r)
			}
		}()
		var b strings.Builder
		fmt.Fprintf(&b, "Record %s := mk_%s {", n, n)
		for i := 0; i < st.NumFields(); i++ {
			f := st.Field(i)
			if i > 0 {
				b.WriteString(";")
			}
			fmt.Fprintf(&b, " %s_%s : %s", n, f.Name(), g.coqType(f.Type(), it.deps))
		}
		b.WriteString(" }.\n")
		// setters
		for i := 0; i < st.NumFields(); i++ {
			f := st.Field(i)
			fmt.Fprintf(&b, "Definition set_%s_%s (r : %s) (v : %s) : %s := mk_%s", n, f.Name(), n, g.coqType(f.Type(), it.deps), n, n)
			for j := 0; j < st.NumFields(); j++ {
				if i == j {
					b.WriteString(" v")
				} else {
					fmt.Fprintf(&b, " (%s_%s r)", n, st.Field(j).Name())
				}
			}
			b.WriteString(".\n")
		}
		// Go == on the struct
		fmt.Fprintf(&b, "Definition %s_eqb (a b : %s) : bool :=", n, n)
		if st.NumFields() == 0 {
			b.WriteString(" true")
		}
		for i := 0; i < st.NumFields(); i++ {
			f := st.Field(i)
			if i > 0 {
				b.WriteString(" &&")
			}
			fmt.Fprintf(&b, " %s", g.eqTerm(f.Type(), fmt.Sprintf("(%s_%s a)", n, f.Name()), fmt.Sprintf("(%s_%s b)", n, f.Name()), it.deps))
		}
		b.WriteString(".\n")
		// bit-exact equality (floats by bit pattern up to NaN payload), used by the correspondence files
		fmt.Fprintf(&b, "Definition %s_eqbits (a b : %s) : bool :=", n, n)
		if st.NumFields() == 0 {
			b.WriteString(" true")
		}
		for i := 0; i < st.NumFields(); i++ {
			f := st.Field(i)
			if i > 0 {
				b.WriteString(" &&")
			}
			fmt.Fprintf(&b, " %s", g.bitsEqTerm(f.Type(), fmt.Sprintf("(%s_%s a)", n, f.Name()), fmt.Sprintf("(%s_%s b)", n, f.Name()), it.deps))
		}
		b.WriteString(".\n")
		it.text = b.String()
	}()
	delete(it.deps, n)
}

func (g *gen) bitsEqTerm(t types.Type, a, b string, deps map[string]bool) string {
	switch u := t.(type) {
	case *types.Named:
		if st, ok := u.Underlying().(*types.Struct); ok {
			n := g.typeName(u)
			g.needRecord(u, st)
			deps[n] = true
			return fmt.Sprintf("(%s_eqbits %s %s)", n, a, b)
		}
		return g.bitsEqTerm(u.Underlying(), a, b, deps)
	case *types.Basic:
		if isFloat(u) {
			return fmt.Sprintf("(fbiteq %s %s)", a, b)
		}
		return g.eqTerm(t, a, b, deps)
	case *types.Array:
		inner := g.bitsEqTerm(u.Elem(), "x", "y", deps)
		return fmt.Sprintf("(list_eqb (fun x y => %s) %s %s)", inner, a, b)
	case *types.Slice:
		inner := g.bitsEqTerm(u.Elem(), "x", "y", deps)
		return fmt.Sprintf("(list_eqb (fun x y => %s) %s %s)", inner, a, b)
	}
	fail("no bit equality for %s", t)
	return ""
}

func (g *gen) eqTerm(t types.Type, a, b string, deps map[string]bool) string {
	switch u := t.(type) {
	case *types.Named:
		if st, ok := u.Underlying().(*types.Struct); ok {
			n := g.typeName(u)
			g.needRecord(u, st)
			deps[n] = true
			return fmt.Sprintf("(%s_eqb %s %s)", n, a, b)
		}
		return g.eqTerm(u.Underlying(), a, b, deps)
	case *types.Basic:
		if isFloat(u) {
			return fmt.Sprintf("(PrimFloat.eqb %s %s)", a, b)
		}
		if isBool(u) {
			return fmt.Sprintf("(Bool.eqb %s %s)", a, b)
		}
		if _, ok := intInfo(u); ok {
			return fmt.Sprintf("(Z.eqb %s %s)", a, b)
		}
	case *types.Array:
		inner := g.eqTerm(u.Elem(), "x", "y", deps)
		return fmt.Sprintf("(list_eqb (fun x y => %s) %s %s)", inner, a, b)
	}
	fail("no == for %s", t)
	return ""
}

// ---------------------------------------------------------------------------
// Constants

func floatLit(f float64) string {
	switch {
	case math.IsNaN(f):
		return "nan"
	case math.IsInf(f, 1):
		return "infinity"
	case math.IsInf(f, -1):
		return "neg_infinity"
	}
	s := strconv.FormatFloat(f, 'x', -1, 64)
	return "(" + s + ")%float"
}

func constTerm(v constant.Value, t types.Type) string {
	if isFloat(t) {
		f, _ := constant.Float64Val(constant.ToFloat(v))
		// constant.Float64Val rounds to nearest; exact big rat -> float64
		if r, ok := constant.Val(constant.ToFloat(v)).(*big.Rat); ok {
			f, _ = r.Float64()
		} else if bf, ok := constant.Val(constant.ToFloat(v)).(*big.Float); ok {
			f, _ = bf.Float64()
		}
		return floatLit(f)
	}
	if isBool(t) {
		if constant.BoolVal(v) {
			return "true"
		}
		return "false"
	}
	if _, ok := intInfo(t); ok {
		iv := constant.ToInt(v)
		if iv.Kind() != constant.Int {
			fail("non-integer constant %s for %s", v, t)
		}
		s := iv.ExactString()
		if strings.HasPrefix(s, "-") {
			return "(" + s + ")%Z"
		}
		return s + "%Z"
	}
	fail("constant of type %s", t)
	return ""
}

// ---------------------------------------------------------------------------
// Function translation

type fctx struct {
	g     *gen
	p     *pkgInfo
	it    *item
	names map[types.Object]string
	used  map[string]int
	sig   *types.Signature
	named []types.Object // named results
}

func (c *fctx) local(o types.Object) string {
	if n, ok := c.names[o]; ok {
		return n
	}
	base := "v_" + o.Name()
	if o.Name() == "_" {
		base = "v_blank"
	}
	k := c.used[base]
	c.used[base] = k + 1
	n := base
	if k > 0 {
		n = fmt.Sprintf("%s_%d", base, k)
	}
	c.names[o] = n
	return n
}

var mathFuncs = map[string]string{
	"Max": "go_fmax", "Min": "go_fmin", "Abs": "PrimFloat.abs", "Sqrt": "PrimFloat.sqrt",
	"Floor": "go_floor", "Ceil": "go_ceil", "Trunc": "go_trunc", "Remainder": "go_remainder", "IsNaN": "go_isnan",
	"Copysign": "go_copysign", "Signbit": "go_signbit", "Nextafter": "go_nextafter", "Ldexp": "go_ldexp",
	"Float64bits": "go_float64bits", "Float64frombits": "go_float64frombits", "Round": "go_round", "Mod": "go_fmod",
	"trigReduce": "math_trigReduce",
}

func (c *fctx) typeOf(e ast.Expr) types.Type {
	tv, ok := c.p.info.Types[e]
	if !ok {
		fail("no type for expression at %s", c.g.w.fset.Position(e.Pos()))
	}
	return tv.Type
}

func (c *fctx) expr(e ast.Expr) string {
	tv, ok := c.p.info.Types[e]
	if ok && tv.Value != nil && tv.Type != nil {
		if _, isBasic := tv.Type.Underlying().(*types.Basic); isBasic {
			if b := tv.Type.Underlying().(*types.Basic); b.Info()&types.IsString == 0 {
				return constTerm(tv.Value, tv.Type)
			}
		}
	}
	switch x := e.(type) {
	case *ast.ParenExpr:
		return c.expr(x.X)
	case *ast.Ident:
		obj := c.p.info.Uses[x]
		if obj == nil {
			obj = c.p.info.Defs[x]
		}
		switch o := obj.(type) {
		case *types.Var:
			if o.Pkg() != nil && o.Parent() == o.Pkg().Scope() {
				return c.g.global(o, c.it)
			}
			return c.local(o)
		case *types.Const:
			return constTerm(o.Val(), o.Type())
		case *types.Nil:
			return "nil"
		}
		if x.Name == "true" || x.Name == "false" {
			return x.Name
		}
		fail("identifier %s", x.Name)
	case *ast.BasicLit:
		fail("literal %s without constant value", x.Value)
	case *ast.UnaryExpr:
		t := c.typeOf(e)
		a := c.expr(x.X)
		switch x.Op {
		case token.SUB:
			if isFloat(t) {
				return fmt.Sprintf("(PrimFloat.opp %s)", a)
			}
			if k, ok := intInfo(t); ok {
				return k.wrap(fmt.Sprintf("(Z.opp %s)", a))
			}
		case token.ADD:
			return a
		case token.NOT:
			return fmt.Sprintf("(negb %s)", a)
		case token.XOR:
			if k, ok := intInfo(t); ok {
				return k.wrap(fmt.Sprintf("(Z.lnot %s)", a))
			}
		}
		fail("unary %s", x.Op)
	case *ast.BinaryExpr:
		return c.binary(x)
	case *ast.SelectorExpr:
		if sel, ok := c.p.info.Selections[x]; ok {
			if sel.Kind() != types.FieldVal {
				fail("method value")
			}
			cur := c.expr(x.X)
			t := c.typeOf(x.X)
			for _, idx := range sel.Index() {
				if p, ok := t.(*types.Pointer); ok {
					t = p.Elem()
					_ = p
					fail("field access through pointer")
				}
				named, ok := t.(*types.Named)
				if !ok {
					fail("field of unnamed struct")
				}
				st := named.Underlying().(*types.Struct)
				n := c.g.typeName(named)
				c.g.needRecord(named, st)
				c.it.deps[n] = true
				cur = fmt.Sprintf("(%s_%s %s)", n, st.Field(idx).Name(), cur)
				t = st.Field(idx).Type()
			}
			return cur
		}
		// qualified identifier pkg.X
		switch o := c.p.info.Uses[x.Sel].(type) {
		case *types.Const:
			return constTerm(o.Val(), o.Type())
		case *types.Var:
			return c.g.global(o, c.it)
		}
		fail("selector %s", x.Sel.Name)
	case *ast.CallExpr:
		return c.call(x)
	case *ast.CompositeLit:
		t := c.typeOf(e)
		switch u := t.Underlying().(type) {
		case *types.Struct:
			named, ok := t.(*types.Named)
			if !ok {
				fail("anonymous struct literal")
			}
			n := c.g.typeName(named)
			c.g.needRecord(named, u)
			c.it.deps[n] = true
			vals := make([]string, u.NumFields())
			for i := range vals {
				vals[i] = c.g.zero(u.Field(i).Type(), c.it.deps)
			}
			for i, el := range x.Elts {
				if kv, ok := el.(*ast.KeyValueExpr); ok {
					name := kv.Key.(*ast.Ident).Name
					found := false
					for j := 0; j < u.NumFields(); j++ {
						if u.Field(j).Name() == name {
							vals[j] = c.expr(kv.Value)
							found = true
						}
					}
					if !found {
						fail("field %s", name)
					}
				} else {
					vals[i] = c.expr(el)
				}
			}
			return fmt.Sprintf("(mk_%s %s)", n, strings.Join(vals, " "))
		case *types.Array, *types.Slice:
			var elemT types.Type
			n := -1
			if a, ok := u.(*types.Array); ok {
				elemT = a.Elem()
				n = int(a.Len())
			} else {
				elemT = u.(*types.Slice).Elem()
			}
			vals := []string{}
			for _, el := range x.Elts {
				if _, ok := el.(*ast.KeyValueExpr); ok {
					fail("keyed array literal")
				}
				vals = append(vals, c.exprAs(el, elemT))
			}
			for n >= 0 && len(vals) < n {
				vals = append(vals, c.g.zero(elemT, c.it.deps))
			}
			return "[" + strings.Join(vals, "; ") + "]"
		}
		fail("composite literal of %s", t)
	case *ast.IndexExpr:
		xt := c.typeOf(x.X)
		var elemT types.Type
		switch u := xt.Underlying().(type) {
		case *types.Array:
			elemT = u.Elem()
		case *types.Slice:
			elemT = u.Elem()
		default:
			fail("index of %s", xt)
		}
		return fmt.Sprintf("(nthZ %s %s %s)", c.expr(x.X), c.expr(x.Index), c.g.zero(elemT, c.it.deps))
	case *ast.StarExpr:
		fail("pointer dereference")
	}
	fail("expression %T at %s", e, c.g.w.fset.Position(e.Pos()))
	return ""
}

// exprAs translates e, which may be an untyped constant, in the context of type t.
func (c *fctx) exprAs(e ast.Expr, t types.Type) string {
	tv, ok := c.p.info.Types[e]
	if ok && tv.Value != nil {
		if _, isBasic := t.Underlying().(*types.Basic); isBasic {
			return constTerm(tv.Value, t)
		}
	}
	return c.expr(e)
}

func (c *fctx) binary(x *ast.BinaryExpr) string {
	lt := c.typeOf(x.X)
	rt := c.typeOf(x.Y)
	t := c.typeOf(x)
	// operand type for comparisons: the typed one
	ot := lt
	if b, ok := lt.Underlying().(*types.Basic); ok && b.Info()&types.IsUntyped != 0 {
		ot = rt
	}
	a := c.exprAs(x.X, ot)
	var b string
	if x.Op == token.SHL || x.Op == token.SHR {
		b = c.expr(x.Y)
	} else {
		b = c.exprAs(x.Y, ot)
	}
	switch x.Op {
	case token.LAND:
		return fmt.Sprintf("(%s && %s)", a, b)
	case token.LOR:
		return fmt.Sprintf("(%s || %s)", a, b)
	case token.EQL, token.NEQ:
		eq := c.g.eqTerm(ot, a, b, c.it.deps)
		if x.Op == token.NEQ {
			return fmt.Sprintf("(negb %s)", eq)
		}
		return eq
	case token.LSS, token.LEQ, token.GTR, token.GEQ:
		if x.Op == token.GTR || x.Op == token.GEQ {
			a, b = b, a
		}
		strict := x.Op == token.LSS || x.Op == token.GTR
		if isFloat(ot) {
			if strict {
				return fmt.Sprintf("(PrimFloat.ltb %s %s)", a, b)
			}
			return fmt.Sprintf("(PrimFloat.leb %s %s)", a, b)
		}
		if _, ok := intInfo(ot); ok {
			if strict {
				return fmt.Sprintf("(Z.ltb %s %s)", a, b)
			}
			return fmt.Sprintf("(Z.leb %s %s)", a, b)
		}
		fail("comparison on %s", ot)
	}
	if isFloat(t) {
		op := map[token.Token]string{token.ADD: "add", token.SUB: "sub", token.MUL: "mul", token.QUO: "div"}[x.Op]
		if op == "" {
			fail("float op %s", x.Op)
		}
		return fmt.Sprintf("(PrimFloat.%s %s %s)", op, a, b)
	}
	if k, ok := intInfo(t); ok {
		switch x.Op {
		case token.ADD:
			return k.wrap(fmt.Sprintf("(Z.add %s %s)", a, b))
		case token.SUB:
			return k.wrap(fmt.Sprintf("(Z.sub %s %s)", a, b))
		case token.MUL:
			return k.wrap(fmt.Sprintf("(Z.mul %s %s)", a, b))
		case token.QUO:
			return k.wrap(fmt.Sprintf("(Z.quot %s %s)", a, b))
		case token.REM:
			return fmt.Sprintf("(Z.rem %s %s)", a, b)
		case token.AND:
			return fmt.Sprintf("(Z.land %s %s)", a, b)
		case token.OR:
			return fmt.Sprintf("(Z.lor %s %s)", a, b)
		case token.XOR:
			return fmt.Sprintf("(Z.lxor %s %s)", a, b)
		case token.AND_NOT:
			return fmt.Sprintf("(Z.land %s (Z.lnot %s))", a, b)
		case token.SHL:
			return k.wrap(fmt.Sprintf("(go_shl %s %s)", a, b))
		case token.SHR:
			return fmt.Sprintf("(go_shr %s %s)", a, b)
		}
	}
	fail("binary %s on %s", x.Op, t)
	return ""
}

func (c *fctx) call(x *ast.CallExpr) string {
	// conversion?
	if tv, ok := c.p.info.Types[x.Fun]; ok && tv.IsType() {
		if len(x.Args) != 1 {
			fail("conversion arity")
		}
		to := tv.Type
		from := c.typeOf(x.Args[0])
		a := c.exprAs(x.Args[0], to)
		if atv := c.p.info.Types[x.Args[0]]; atv.Value != nil {
			return a // constant converted above
		}
		switch {
		case isFloat(to) && isFloat(from):
			return a
		case isFloat(to):
			if k, ok := intInfo(from); ok {
				_ = k
				return fmt.Sprintf("(float_of_Z %s)", a)
			}
		case isFloat(from):
			if k, ok := intInfo(to); ok {
				return k.wrap(fmt.Sprintf("(Z_of_float_trunc %s)", a))
			}
		default:
			kt, ok1 := intInfo(to)
			_, ok2 := intInfo(from)
			if ok1 && ok2 {
				return kt.wrap(a)
			}
			if types.Identical(to.Underlying(), from.Underlying()) {
				return a
			}
		}
		fail("conversion %s -> %s", from, to)
	}
	// builtin
	if id, ok := x.Fun.(*ast.Ident); ok {
		if _, isB := c.p.info.Uses[id].(*types.Builtin); isB {
			switch id.Name {
			case "len":
				return fmt.Sprintf("(Z.of_nat (length %s))", c.expr(x.Args[0]))
			}
			fail("builtin %s", id.Name)
		}
	}
	var fn *types.Func
	var recv string
	switch f := x.Fun.(type) {
	case *ast.Ident:
		fn, _ = c.p.info.Uses[f].(*types.Func)
	case *ast.SelectorExpr:
		if sel, ok := c.p.info.Selections[f]; ok {
			if sel.Kind() != types.MethodVal {
				fail("call of field value")
			}
			fn = sel.Obj().(*types.Func)
			// receiver expression, walking embedded fields
			cur := c.expr(f.X)
			t := c.typeOf(f.X)
			idx := sel.Index()
			for _, i := range idx[:len(idx)-1] {
				if _, ok := t.(*types.Pointer); ok {
					fail("embedded through pointer")
				}
				named := t.(*types.Named)
				st := named.Underlying().(*types.Struct)
				n := c.g.typeName(named)
				c.g.needRecord(named, st)
				c.it.deps[n] = true
				cur = fmt.Sprintf("(%s_%s %s)", n, st.Field(i).Name(), cur)
				t = st.Field(i).Type()
			}
			if _, ok := t.(*types.Pointer); ok {
				fail("method call on pointer value")
			}
			if _, ok := fn.Type().(*types.Signature).Recv().Type().(*types.Pointer); ok {
				fail("pointer-receiver method %s", fn.Name())
			}
			recv = cur
		} else {
			fn, _ = c.p.info.Uses[f.Sel].(*types.Func)
		}
	}
	if fn == nil {
		fail("call of non-function at %s", c.g.w.fset.Position(x.Pos()))
	}
	// s2.roundingEpsilon(t any) is a type switch on its argument (not in the translated
	// subset). With a float64 argument it is epsilonForDigits(53) = 2^-53; the value is tied
	// to the Go code by correspondence (hook VerifRoundingEpsilon, observer C16).
	if fn.Pkg() != nil && strings.HasSuffix(fn.Pkg().Path(), "/s2") && fn.Name() == "roundingEpsilon" &&
		len(x.Args) == 1 && isFloat(c.typeOf(x.Args[0])) {
		if b, ok := c.typeOf(x.Args[0]).Underlying().(*types.Basic); ok && b.Kind() == types.Float64 {
			return floatLit(math.Ldexp(1, -53))
		}
	}
	sig := fn.Type().(*types.Signature)
	args := []string{}
	if recv != "" {
		args = append(args, recv)
	}
	if sig.Variadic() {
		// f(a, b, xs...) is not modelled; f(a, b, x1, x2) packs the trailing arguments
		// into the slice parameter, which is a Coq list.
		if x.Ellipsis.IsValid() {
			fail("variadic call with ...")
		}
		nfix := sig.Params().Len() - 1
		if len(x.Args) < nfix {
			fail("variadic call with a tuple argument")
		}
		for i := 0; i < nfix; i++ {
			args = append(args, c.exprAs(x.Args[i], sig.Params().At(i).Type()))
		}
		elemT := sig.Params().At(nfix).Type().(*types.Slice).Elem()
		rest := []string{}
		for _, a := range x.Args[nfix:] {
			rest = append(rest, c.exprAs(a, elemT))
		}
		args = append(args, "["+strings.Join(rest, "; ")+"]")
	} else {
		for i, a := range x.Args {
			args = append(args, c.exprAs(a, sig.Params().At(i).Type()))
		}
	}
	if fn.Pkg() != nil && fn.Pkg().Path() == "math" {
		name, ok := mathFuncs[fn.Name()]
		if !ok {
			if fn.Name() == "Inf" {
				// math.Inf(sign) with constant sign
				if tv := c.p.info.Types[x.Args[0]]; tv.Value != nil {
					if constant.Sign(tv.Value) >= 0 {
						return "infinity"
					}
					return "neg_infinity"
				}
				return fmt.Sprintf("(go_inf %s)", args[0])
			}
			if fn.Name() == "IsInf" {
				return fmt.Sprintf("(go_isinf %s)", strings.Join(args, " "))
			}
			if fn.Name() == "NaN" {
				return "nan"
			}
			// anything else in package math is translated from the toolchain's source below
		} else {
			return fmt.Sprintf("(%s %s)", name, strings.Join(args, " "))
		}
	}
	if fn.Pkg() != nil && fn.Pkg().Path() == "math/bits" {
		return fmt.Sprintf("(go_bits_%s %s)", fn.Name(), strings.Join(args, " "))
	}
	if _, ok := c.g.w.funcDecl[fn]; !ok {
		fail("call to %s outside the translated packages", fn.FullName())
	}
	name := c.g.needFunc(fn, false)
	c.it.deps[name] = true
	if len(args) == 0 {
		return name
	}
	return fmt.Sprintf("(%s %s)", name, strings.Join(args, " "))
}

// ----- statements (continuation-passing) -----

type cont func() string

func containsReturn(n ast.Node) bool {
	found := false
	ast.Inspect(n, func(m ast.Node) bool {
		switch m.(type) {
		case *ast.ReturnStmt:
			found = true
		case *ast.FuncLit:
			return false
		}
		return !found
	})
	return found
}

// assignedOuter returns the (deduplicated, ordered) outer objects assigned in the nodes,
// i.e. variables not declared inside them.
func (c *fctx) assignedOuter(nodes ...ast.Node) []types.Object {
	declared := map[types.Object]bool{}
	var out []types.Object
	seen := map[types.Object]bool{}
	add := func(e ast.Expr) {
		for {
			switch x := e.(type) {
			case *ast.Ident:
				if o := c.p.info.Uses[x]; o != nil && !declared[o] && !seen[o] {
					if _, ok := o.(*types.Var); ok {
						seen[o] = true
						out = append(out, o)
					}
				}
				return
			case *ast.SelectorExpr:
				e = x.X
			case *ast.IndexExpr:
				e = x.X
			case *ast.ParenExpr:
				e = x.X
			default:
				return
			}
		}
	}
	for _, n := range nodes {
		if n == nil {
			continue
		}
		ast.Inspect(n, func(m ast.Node) bool {
			switch s := m.(type) {
			case *ast.AssignStmt:
				for _, l := range s.Lhs {
					if id, ok := l.(*ast.Ident); ok && s.Tok == token.DEFINE {
						if o := c.p.info.Defs[id]; o != nil {
							declared[o] = true
							continue
						}
					}
					add(l)
				}
			case *ast.IncDecStmt:
				add(s.X)
			case *ast.ValueSpec:
				for _, id := range s.Names {
					if o := c.p.info.Defs[id]; o != nil {
						declared[o] = true
					}
				}
			case *ast.FuncLit:
				return false
			}
			return true
		})
	}
	return out
}

func (c *fctx) tuple(objs []types.Object) string {
	if len(objs) == 1 {
		return c.local(objs[0])
	}
	parts := []string{}
	for _, o := range objs {
		parts = append(parts, c.local(o))
	}
	return "(" + strings.Join(parts, ", ") + ")"
}

func (c *fctx) letTuple(objs []types.Object, rhs, body string) string {
	if len(objs) == 1 {
		return fmt.Sprintf("let %s := %s in\n%s", c.local(objs[0]), rhs, body)
	}
	return fmt.Sprintf("let '%s := %s in\n%s", c.tuple(objs), rhs, body)
}

func (c *fctx) stmts(list []ast.Stmt, k cont) string {
	if len(list) == 0 {
		return k()
	}
	rest := func() string { return c.stmts(list[1:], k) }
	return c.stmt(list[0], rest)
}

// assignTo produces "let <lhs> := rhs in body" handling fields of local structs.
func (c *fctx) assignTo(lhs ast.Expr, rhs string, body cont) string {
	switch l := lhs.(type) {
	case *ast.ParenExpr:
		return c.assignTo(l.X, rhs, body)
	case *ast.Ident:
		if l.Name == "_" {
			return body()
		}
		o := c.p.info.Defs[l]
		if o == nil {
			o = c.p.info.Uses[l]
		}
		v, ok := o.(*types.Var)
		if !ok {
			fail("assignment to %s", l.Name)
		}
		if v.Pkg() != nil && v.Parent() == v.Pkg().Scope() {
			fail("assignment to package-level variable %s", l.Name)
		}
		return fmt.Sprintf("let %s := %s in\n%s", c.local(v), rhs, body())
	case *ast.SelectorExpr:
		sel, ok := c.p.info.Selections[l]
		if !ok || sel.Kind() != types.FieldVal {
			fail("assignment to selector")
		}
		// build nested update: walk the index path
		baseT := c.typeOf(l.X)
		cur := c.expr(l.X)
		newVal := c.fieldUpdate(baseT, cur, sel.Index(), rhs)
		return c.assignTo(l.X, newVal, body)
	case *ast.IndexExpr:
		xt := c.typeOf(l.X)
		switch xt.Underlying().(type) {
		case *types.Array:
			nv := fmt.Sprintf("(updZ %s %s %s)", c.expr(l.X), c.expr(l.Index), rhs)
			return c.assignTo(l.X, nv, body)
		}
		fail("assignment to element of %s (aliasing not modelled)", xt)
	}
	fail("assignment target %T", lhs)
	return ""
}

func (c *fctx) fieldUpdate(t types.Type, cur string, idx []int, rhs string) string {
	if len(idx) == 0 {
		return rhs
	}
	if _, ok := t.(*types.Pointer); ok {
		fail("field assignment through pointer")
	}
	named, ok := t.(*types.Named)
	if !ok {
		fail("field assignment on unnamed type")
	}
	st := named.Underlying().(*types.Struct)
	n := c.g.typeName(named)
	c.g.needRecord(named, st)
	c.it.deps[n] = true
	f := st.Field(idx[0])
	inner := c.fieldUpdate(f.Type(), fmt.Sprintf("(%s_%s %s)", n, f.Name(), cur), idx[1:], rhs)
	return fmt.Sprintf("(set_%s_%s %s %s)", n, f.Name(), cur, inner)
}

var assignOps = map[token.Token]token.Token{
	token.ADD_ASSIGN: token.ADD, token.SUB_ASSIGN: token.SUB, token.MUL_ASSIGN: token.MUL, token.QUO_ASSIGN: token.QUO,
	token.REM_ASSIGN: token.REM, token.AND_ASSIGN: token.AND, token.OR_ASSIGN: token.OR, token.XOR_ASSIGN: token.XOR,
	token.SHL_ASSIGN: token.SHL, token.SHR_ASSIGN: token.SHR, token.AND_NOT_ASSIGN: token.AND_NOT,
}

func (c *fctx) stmt(s ast.Stmt, k cont) string {
	switch s := s.(type) {
	case *ast.ReturnStmt:
		if len(s.Results) == 0 {
			if len(c.named) == 0 {
				fail("bare return in function without results")
			}
			return c.tuple(c.named)
		}
		res := c.sig.Results()
		if len(s.Results) == 1 && res.Len() > 1 {
			return c.expr(s.Results[0]) // f() returning a tuple
		}
		parts := []string{}
		for i, r := range s.Results {
			parts = append(parts, c.exprAs(r, res.At(i).Type()))
		}
		if len(parts) == 1 {
			return parts[0]
		}
		return "(" + strings.Join(parts, ", ") + ")"
	case *ast.BlockStmt:
		return c.stmts(s.List, k)
	case *ast.ExprStmt:
		fail("expression statement (side effects are not modelled)")
	case *ast.DeclStmt:
		gd := s.Decl.(*ast.GenDecl)
		if gd.Tok == token.CONST {
			return k()
		}
		if gd.Tok != token.VAR {
			fail("declaration %s", gd.Tok)
		}
		// sequentially bind
		type bind struct {
			o   types.Object
			rhs string
		}
		var binds []bind
		for _, sp := range gd.Specs {
			vs := sp.(*ast.ValueSpec)
			if len(vs.Values) != 0 && len(vs.Values) != len(vs.Names) {
				fail("multi-value var declaration")
			}
			for i, id := range vs.Names {
				o := c.p.info.Defs[id]
				if o == nil {
					continue
				}
				var rhs string
				if len(vs.Values) > 0 {
					rhs = c.exprAs(vs.Values[i], o.Type())
				} else {
					rhs = c.g.zero(o.Type(), c.it.deps)
				}
				binds = append(binds, bind{o, rhs})
			}
		}
		out := ""
		for _, b := range binds {
			out += fmt.Sprintf("let %s := %s in\n", c.local(b.o), b.rhs)
		}
		return out + k()
	case *ast.AssignStmt:
		if op, ok := assignOps[s.Tok]; ok {
			be := &ast.BinaryExpr{X: s.Lhs[0], Op: op, Y: s.Rhs[0], OpPos: s.TokPos}
			// give the synthetic node a type
			c.p.info.Types[be] = types.TypeAndValue{Type: c.typeOf(s.Lhs[0])}
			return c.assignTo(s.Lhs[0], c.binary(be), k)
		}
		if len(s.Rhs) == 1 && len(s.Lhs) > 1 {
			// tuple assignment from a call
			rhs := c.expr(s.Rhs[0])
			tmp := []string{}
			for i := range s.Lhs {
				tmp = append(tmp, fmt.Sprintf("tmp_%d_%d", int(s.Pos()), i))
			}
			body := func() string {
				var rec func(i int) string
				rec = func(i int) string {
					if i == len(s.Lhs) {
						return k()
					}
					return c.assignTo(s.Lhs[i], tmp[i], func() string { return rec(i + 1) })
				}
				return rec(0)
			}
			return fmt.Sprintf("let '(%s) := %s in\n%s", strings.Join(tmp, ", "), rhs, body())
		}
		if len(s.Lhs) != len(s.Rhs) {
			fail("assignment arity")
		}
		if len(s.Lhs) == 1 {
			var lt types.Type
			if id, ok := s.Lhs[0].(*ast.Ident); ok && id.Name == "_" {
				return k()
			}
			if id, ok := s.Lhs[0].(*ast.Ident); ok && c.p.info.Defs[id] != nil {
				lt = c.p.info.Defs[id].Type()
			} else {
				lt = c.typeOf(s.Lhs[0])
			}
			return c.assignTo(s.Lhs[0], c.exprAs(s.Rhs[0], lt), k)
		}
		// parallel assignment: evaluate all rhs first
		tmp := []string{}
		out := ""
		for i, r := range s.Rhs {
			t := fmt.Sprintf("tmp_%d_%d", int(s.Pos()), i)
			tmp = append(tmp, t)
			var lt types.Type
			if id, ok := s.Lhs[i].(*ast.Ident); ok && c.p.info.Defs[id] != nil {
				lt = c.p.info.Defs[id].Type()
			} else if id, ok := s.Lhs[i].(*ast.Ident); ok && id.Name == "_" {
				lt = c.typeOf(r)
			} else {
				lt = c.typeOf(s.Lhs[i])
			}
			out += fmt.Sprintf("let %s := %s in\n", t, c.exprAs(r, lt))
		}
		var rec func(i int) string
		rec = func(i int) string {
			if i == len(s.Lhs) {
				return k()
			}
			return c.assignTo(s.Lhs[i], tmp[i], func() string { return rec(i + 1) })
		}
		return out + rec(0)
	case *ast.IncDecStmt:
		op := token.ADD
		if s.Tok == token.DEC {
			op = token.SUB
		}
		t := c.typeOf(s.X)
		if isFloat(t) {
			fop := map[token.Token]string{token.ADD: "PrimFloat.add", token.SUB: "PrimFloat.sub"}[op]
			return c.assignTo(s.X, fmt.Sprintf("(%s %s 1%%float)", fop, c.expr(s.X)), k)
		}
		kd, ok := intInfo(t)
		if !ok {
			fail("++ on %s", t)
		}
		zop := map[token.Token]string{token.ADD: "Z.add", token.SUB: "Z.sub"}[op]
		return c.assignTo(s.X, kd.wrap(fmt.Sprintf("(%s %s 1%%Z)", zop, c.expr(s.X))), k)
	case *ast.IfStmt:
		pre := func(body cont) string {
			if s.Init != nil {
				return c.stmt(s.Init, body)
			}
			return body()
		}
		if ctv, ok := c.p.info.Types[s.Cond]; ok && ctv.Value != nil && s.Init == nil {
			// constant condition (e.g. `if haveArchSin`): only the live branch exists
			if constant.BoolVal(ctv.Value) {
				return c.stmts(s.Body.List, k)
			}
			if s.Else != nil {
				return c.stmt(s.Else, k)
			}
			return k()
		}
		var elseNode ast.Node
		if s.Else != nil {
			elseNode = s.Else
		}
		if !containsReturn(s.Body) && (elseNode == nil || !containsReturn(elseNode)) {
			objs := c.assignedOuter(s.Body, elseNode)
			if len(objs) == 0 {
				return pre(k) // no observable effect
			}
			return pre(func() string {
				cond := c.expr(s.Cond)
				tup := func() string { return c.tuple(objs) }
				thenT := c.stmts(s.Body.List, tup)
				elseT := tup()
				if s.Else != nil {
					elseT = c.stmt(s.Else, tup)
				}
				return c.letTuple(objs, fmt.Sprintf("(if %s then (%s) else (%s))", cond, thenT, elseT), k())
			})
		}
		return pre(func() string {
			cond := c.expr(s.Cond)
			thenT := c.stmts(s.Body.List, k)
			var elseT string
			if s.Else != nil {
				elseT = c.stmt(s.Else, k)
			} else {
				elseT = k()
			}
			return fmt.Sprintf("(if %s then (%s) else (%s))", cond, thenT, elseT)
		})
	case *ast.SwitchStmt:
		return c.switchStmt(s, k)
	case *ast.ForStmt:
		return c.forStmt(s, k)
	case *ast.RangeStmt:
		return c.rangeStmt(s, k)
	case *ast.EmptyStmt:
		return k()
	}
	fail("statement %T at %s", s, c.g.w.fset.Position(s.Pos()))
	return ""
}

func (c *fctx) switchStmt(s *ast.SwitchStmt, k cont) string {
	// rewrite into an if-chain
	var clauses []*ast.CaseClause
	var def *ast.CaseClause
	for _, st := range s.Body.List {
		cc := st.(*ast.CaseClause)
		for _, b := range cc.Body {
			if br, ok := b.(*ast.BranchStmt); ok {
				fail("branch statement %s in switch", br.Tok)
			}
		}
		if cc.List == nil {
			def = cc
		} else {
			clauses = append(clauses, cc)
		}
	}
	build := func(tag string, tagT types.Type) string {
		anyRet := false
		for _, cc := range clauses {
			for _, b := range cc.Body {
				if containsReturn(b) {
					anyRet = true
				}
			}
		}
		if def != nil {
			for _, b := range def.Body {
				if containsReturn(b) {
					anyRet = true
				}
			}
		}
		condOf := func(cc *ast.CaseClause) string {
			parts := []string{}
			for _, e := range cc.List {
				if tag == "" {
					parts = append(parts, c.expr(e))
				} else {
					parts = append(parts, c.g.eqTerm(tagT, tag, c.exprAs(e, tagT), c.it.deps))
				}
			}
			return "(" + strings.Join(parts, " || ") + ")"
		}
		if anyRet {
			var rec func(i int) string
			rec = func(i int) string {
				if i == len(clauses) {
					if def != nil {
						return c.stmts(def.Body, k)
					}
					return k()
				}
				return fmt.Sprintf("(if %s then (%s) else (%s))", condOf(clauses[i]), c.stmts(clauses[i].Body, k), rec(i+1))
			}
			return rec(0)
		}
		nodes := []ast.Node{}
		for _, cc := range clauses {
			for _, b := range cc.Body {
				nodes = append(nodes, b)
			}
		}
		if def != nil {
			for _, b := range def.Body {
				nodes = append(nodes, b)
			}
		}
		objs := c.assignedOuter(nodes...)
		if len(objs) == 0 {
			return k()
		}
		tup := func() string { return c.tuple(objs) }
		var rec func(i int) string
		rec = func(i int) string {
			if i == len(clauses) {
				if def != nil {
					return c.stmts(def.Body, tup)
				}
				return tup()
			}
			return fmt.Sprintf("(if %s then (%s) else (%s))", condOf(clauses[i]), c.stmts(clauses[i].Body, tup), rec(i+1))
		}
		return c.letTuple(objs, rec(0), k())
	}
	body := func() string {
		if s.Tag == nil {
			return build("", nil)
		}
		tagT := c.typeOf(s.Tag)
		tmp := fmt.Sprintf("tag_%d", int(s.Pos()))
		return fmt.Sprintf("let %s := %s in\n%s", tmp, c.expr(s.Tag), build(tmp, tagT))
	}
	if s.Init != nil {
		return c.stmt(s.Init, body)
	}
	return body()
}

// forStmt supports `for i := a; i < b; i++ { body }` (also <=, and i-- with > / >=)
// whose body neither returns nor assigns i; it becomes a fold over the index list.
func (c *fctx) forStmt(s *ast.ForStmt, k cont) string {
	if s.Init == nil || s.Cond == nil || s.Post == nil {
		fail("general for loop")
	}
	init, ok := s.Init.(*ast.AssignStmt)
	if !ok || init.Tok != token.DEFINE || len(init.Lhs) != 1 {
		fail("for-init form")
	}
	iv := c.p.info.Defs[init.Lhs[0].(*ast.Ident)]
	cond, ok := s.Cond.(*ast.BinaryExpr)
	if !ok {
		fail("for-cond form")
	}
	cid, ok := cond.X.(*ast.Ident)
	if !ok || c.p.info.Uses[cid] != iv {
		fail("for-cond must compare the loop variable")
	}
	post, ok := s.Post.(*ast.IncDecStmt)
	if !ok {
		fail("for-post form")
	}
	if pid, ok := post.X.(*ast.Ident); !ok || c.p.info.Uses[pid] != iv {
		fail("for-post must step the loop variable")
	}
	if containsReturn(s.Body) {
		fail("return inside for loop")
	}
	ast.Inspect(s.Body, func(n ast.Node) bool {
		if b, ok := n.(*ast.BranchStmt); ok {
			fail("%s inside for loop", b.Tok)
		}
		return true
	})
	objs := c.assignedOuter(s.Body)
	for _, o := range objs {
		if o == iv {
			fail("loop variable assigned in body")
		}
	}
	lo := c.expr(init.Rhs[0])
	hi := c.expr(cond.Y)
	var idxs string
	switch {
	case post.Tok == token.INC && cond.Op == token.LSS:
		idxs = fmt.Sprintf("(zrange_up %s %s)", lo, hi)
	case post.Tok == token.INC && cond.Op == token.LEQ:
		idxs = fmt.Sprintf("(zrange_up %s (Z.add %s 1))", lo, hi)
	case post.Tok == token.DEC && cond.Op == token.GEQ:
		idxs = fmt.Sprintf("(zrange_down %s %s)", lo, hi)
	case post.Tok == token.DEC && cond.Op == token.GTR:
		idxs = fmt.Sprintf("(zrange_down %s (Z.add %s 1))", lo, hi)
	default:
		fail("for loop direction")
	}
	// the bound must not depend on variables assigned in the body
	if len(objs) == 0 {
		return k()
	}
	tup := c.tuple(objs)
	pat := tup
	if len(objs) > 1 {
		pat = "'" + tup
	}
	body := c.stmts(s.Body.List, func() string { return c.tuple(objs) })
	fold := fmt.Sprintf("(fold_left (fun %s %s =>\n%s) %s %s)", patArg(pat, len(objs)), c.local(iv), body, idxs, tup)
	return c.letTuple(objs, fold, k())
}

func patArg(p string, n int) string {
	if n > 1 {
		return p
	}
	return p
}

// rangeStmt supports `for i, x := range xs { body }` over slices/arrays, body without return/break.
func (c *fctx) rangeStmt(s *ast.RangeStmt, k cont) string {
	if containsReturn(s.Body) {
		fail("return inside range loop")
	}
	ast.Inspect(s.Body, func(n ast.Node) bool {
		if b, ok := n.(*ast.BranchStmt); ok {
			fail("%s inside range loop", b.Tok)
		}
		return true
	})
	xt := c.typeOf(s.X)
	switch xt.Underlying().(type) {
	case *types.Slice, *types.Array:
	default:
		fail("range over %s", xt)
	}
	if s.Tok != token.DEFINE && (s.Key != nil || s.Value != nil) {
		fail("range with assignment")
	}
	objs := c.assignedOuter(s.Body)
	if len(objs) == 0 {
		return k()
	}
	kn, vn := "_", "_"
	if id, ok := s.Key.(*ast.Ident); ok && id.Name != "_" {
		kn = c.local(c.p.info.Defs[id])
	}
	if s.Value != nil {
		if id, ok := s.Value.(*ast.Ident); ok && id.Name != "_" {
			vn = c.local(c.p.info.Defs[id])
		}
	}
	tup := c.tuple(objs)
	pat := tup
	if len(objs) > 1 {
		pat = "'" + tup
	}
	body := c.stmts(s.Body.List, func() string { return c.tuple(objs) })
	fold := fmt.Sprintf("(fold_left (fun %s '(%s, %s) =>\n%s) (enumZ %s) %s)", pat, kn, vn, body, c.expr(s.X), tup)
	return c.letTuple(objs, fold, k())
}

// ---------------------------------------------------------------------------

func (g *gen) global(v *types.Var, from *item) string {
	short := filepath.Base(v.Pkg().Path())
	name := short + "_" + v.Name()
	from.deps[name] = true
	if _, ok := g.items[name]; ok {
		return name
	}
	it := &item{kind: kGlobal, name: name, deps: map[string]bool{}, goKey: short + "." + v.Name()}
	g.items[name] = it
	if mod, ok := externs[it.goKey]; ok {
		// a table filled in by init(): supplied by a hand-written model module under the
		// same Coq name (tied to Go by correspondence), so that the functions reading it translate.
		it.extern = mod
		it.hash = "extern:" + mod
		return name
	}
	func() {
		defer func() {
			if r := recover(); r != nil {
				if u, ok := r.(unsupported); ok {
					it.err = u.msg
					return
				}
				panic(r)
			}
		}()
		if g.w.assignedGlobals[v] {
			fail("package-level variable %s is assigned somewhere", v.Name())
		}
		init, ok := g.w.varInit[v]
		if !ok {
			fail("no initialiser for %s", v.Name())
		}
		p := g.w.varPkg[v]
		c := &fctx{g: g, p: p, it: it, names: map[types.Object]string{}, used: map[string]int{}}
		it.text = fmt.Sprintf("Definition %s : %s := %s.\n", name, g.coqType(v.Type(), it.deps), c.exprAs(init, v.Type()))
		it.hash = hashNode(g.w.fset, init)
	}()
	return name
}

func hashNode(fset *token.FileSet, n ast.Node) string {
	var b bytes.Buffer
	// position-independent: print the node as source text
	printer.Fprint(&b, fset, n)
	h := sha256.Sum256(b.Bytes())
	return fmt.Sprintf("%x", h[:8])
}

func (g *gen) needFunc(fn *types.Func, explicit bool) string {
	name := g.funcName(fn)
	if it, ok := g.items[name]; ok {
		if explicit {
			it.explicit = true
		}
		return name
	}
	it := &item{kind: kFunc, name: name, deps: map[string]bool{}, goKey: funcKey(fn), explicit: explicit}
	g.items[name] = it
	if mod, ok := g.externs[it.goKey]; ok {
		// hand-modelled in Model/: callers are translated against that definition
		it.extern = mod
		it.explicit = false
		g.notes = append(g.notes, "EXTERN "+it.goKey+" -> "+mod+"."+name)
		return name
	}
	decl := g.w.funcDecl[fn]
	p := g.w.funcPkg[fn]
	func() {
		defer func() {
			if r := recover(); r != nil {
				if u, ok := r.(unsupported); ok {
					it.err = u.msg
					return
				}
				panic(r)
			}
		}()
		if decl == nil || decl.Body == nil {
			fail("no body")
		}
		sig := fn.Type().(*types.Signature)
		c := &fctx{g: g, p: p, it: it, names: map[types.Object]string{}, used: map[string]int{}, sig: sig}
		params := []string{}
		if r := sig.Recv(); r != nil {
			if _, ok := r.Type().(*types.Pointer); ok {
				fail("pointer receiver")
			}
			params = append(params, fmt.Sprintf("(%s : %s)", c.local(r), g.coqType(r.Type(), it.deps)))
		}
		for i := 0; i < sig.Params().Len(); i++ {
			pv := sig.Params().At(i)
			params = append(params, fmt.Sprintf("(%s : %s)", c.local(pv), g.coqType(pv.Type(), it.deps)))
		}
		if sig.Results().Len() == 0 {
			fail("no results")
		}
		retT := g.coqType(sig.Results(), it.deps)
		pre := ""
		for i := 0; i < sig.Results().Len(); i++ {
			rv := sig.Results().At(i)
			if rv.Name() != "" && rv.Name() != "_" {
				c.named = append(c.named, rv)
				pre += fmt.Sprintf("let %s := %s in\n", c.local(rv), g.zero(rv.Type(), it.deps))
			}
		}
		if len(c.named) != 0 && len(c.named) != sig.Results().Len() {
			fail("partially named results")
		}
		body := c.stmts(decl.Body.List, func() string {
			if len(c.named) > 0 {
				return c.tuple(c.named)
			}
			fail("control reaches end of function without return")
			return ""
		})
		it.text = fmt.Sprintf("Definition %s %s : %s :=\n%s%s.\n", name, strings.Join(params, " "), retT, pre, body)
		it.hash = hashNode(g.w.fset, decl)
	}()
	delete(it.deps, name)
	return name
}

func pkgOfKey(k string) string {
	k = strings.TrimPrefix(k, "type ")
	if i := strings.IndexAny(k, "._"); i >= 0 {
		return k[:i]
	}
	return k
}

// ---------------------------------------------------------------------------

// constItem resolves a `const` directive to a Definition holding the constant's value.
func (g *gen) constItem(key string, allFuncs []*types.Func) *item {
	var c *types.Const
	name := strings.NewReplacer(".", "_", ":", "_").Replace(key)
	if i := strings.Index(key, ":"); i >= 0 {
		for _, fn := range allFuncs {
			if funcKey(fn) != key[:i] {
				continue
			}
			p := g.w.funcPkg[fn]
			ast.Inspect(g.w.funcDecl[fn], func(n ast.Node) bool {
				if id, ok := n.(*ast.Ident); ok && id.Name == key[i+1:] {
					if o, ok := p.info.Defs[id].(*types.Const); ok {
						c = o
					}
				}
				return true
			})
		}
	} else if j := strings.Index(key, "."); j >= 0 {
		if p := g.w.short[key[:j]]; p != nil {
			c, _ = p.pkg.Scope().Lookup(key[j+1:]).(*types.Const)
		}
	}
	if c == nil {
		return nil
	}
	it := &item{kind: kGlobal, name: name, deps: map[string]bool{}, goKey: "const " + key, explicit: true}
	func() {
		defer func() {
			if r := recover(); r != nil {
				if u, ok := r.(unsupported); ok {
					it.err = u.msg
					return
				}
				panic(r)
			}
		}()
		ty := "Z"
		if isFloat(c.Type()) {
			ty = "float"
		} else if isBool(c.Type()) {
			ty = "bool"
		}
		it.text = fmt.Sprintf("Definition %s : %s := %s.\n", name, ty, constTerm(c.Val(), c.Type()))
		it.hash = fmt.Sprintf("const:%s", c.Val().ExactString())
	}()
	g.items[name] = it
	return it
}

type cfgEntry struct {
	unit string
	pat  string
}

var cfgExterns = map[string]string{}

func readCfg(path string) (units []string, entries []cfgEntry) {
	var data []byte
	if st, err := os.Stat(path); err == nil && st.IsDir() {
		files, _ := filepath.Glob(filepath.Join(path, "*.cfg"))
		sort.Strings(files)
		for _, f := range files {
			d, err := os.ReadFile(f)
			if err != nil {
				fatal(err)
			}
			data = append(data, d...)
			data = append(data, '\n')
		}
	} else {
		var err error
		data, err = os.ReadFile(path)
		if err != nil {
			fatal(err)
		}
	}
	cur := ""
	for _, ln := range strings.Split(string(data), "\n") {
		if i := strings.Index(ln, "#"); i >= 0 {
			ln = ln[:i]
		}
		ln = strings.TrimSpace(ln)
		if ln == "" {
			continue
		}
		if strings.HasPrefix(ln, "unit ") {
			cur = strings.TrimSpace(ln[5:])
			units = append(units, cur)
			continue
		}
		if strings.HasPrefix(ln, "extern ") {
			// extern <pkg.Var | pkg.Func | pkg.Type.Method> <Coq module>: the item is hand-modelled there under its usual Coq name
			f := strings.Fields(ln)
			if len(f) != 3 {
				fatal("bad extern line: " + ln)
			}
			externs[f[1]] = f[2]
			cfgExterns[f[1]] = f[2]
			continue
		}
		entries = append(entries, cfgEntry{cur, ln})
	}
	return
}

// externs: goKey of a package-level variable -> Coq module (under Geo) that defines it.
var externs = map[string]string{}

func main() {
	flag.Parse()
	w := loadWorld()
	g := &gen{w: w, items: map[string]*item{}, unitOf: map[string]string{}}
	units, entries := readCfg(*cfgF)
	g.externs = cfgExterns

	// resolve entries to functions, in configuration order
	type want struct {
		fn       *types.Func
		unit     string
		explicit bool
	}
	var wants []want
	allFuncs := []*types.Func{}
	for fn := range w.funcDecl {
		allFuncs = append(allFuncs, fn)
	}
	sort.Slice(allFuncs, func(i, j int) bool { return w.funcDecl[allFuncs[i]].Pos() < w.funcDecl[allFuncs[j]].Pos() })
	type wantVar struct {
		v    *types.Var
		unit string
	}
	var wantVars []wantVar
	constUnits := map[string]string{}
	for _, e := range entries {
		matched := false
		if strings.HasPrefix(e.pat, "const ") {
			// `const pkg.Name` (package-level) or `const pkg.Func:name` / `const pkg.Type.Method:name`
			// (function-local): emitted as a Definition so that theorems consume the source's value.
			key := strings.TrimSpace(strings.TrimPrefix(e.pat, "const "))
			if it := g.constItem(key, allFuncs); it != nil {
				constUnits[it.goKey] = e.unit
			} else {
				g.notes = append(g.notes, "MISSING "+e.pat)
			}
			continue
		}
		if strings.HasPrefix(e.pat, "var ") {
			// var pkg.Name : translate a never-assigned package-level variable (table) into this unit
			key := strings.TrimSpace(e.pat[4:])
			if dot := strings.Index(key, "."); dot > 0 {
				if p := w.short[key[:dot]]; p != nil {
					if v, ok := p.pkg.Scope().Lookup(key[dot+1:]).(*types.Var); ok {
						wantVars = append(wantVars, wantVar{v, e.unit})
						matched = true
					}
				}
			}
			if !matched {
				g.notes = append(g.notes, "MISSING "+key)
			}
			continue
		}
		for _, fn := range allFuncs {
			k := funcKey(fn)
			if strings.HasSuffix(e.pat, "*") {
				if strings.HasPrefix(k, strings.TrimSuffix(e.pat, "*")) {
					wants = append(wants, want{fn, e.unit, false})
					matched = true
				}
			} else if k == e.pat {
				wants = append(wants, want{fn, e.unit, true})
				matched = true
			}
		}
		if !matched {
			g.notes = append(g.notes, "MISSING "+e.pat)
		}
	}
	unitOfKey := map[string]string{}
	for _, wv := range wantVars {
		holder := &item{deps: map[string]bool{}}
		n := g.global(wv.v, holder)
		g.items[n].explicit = true
		if _, ok := unitOfKey[g.items[n].goKey]; !ok {
			unitOfKey[g.items[n].goKey] = wv.unit
		}
	}
	for k, u := range constUnits {
		unitOfKey[k] = u
	}
	for _, wn := range wants {
		k := funcKey(wn.fn)
		if _, ok := unitOfKey[k]; !ok {
			unitOfKey[k] = wn.unit
		}
		g.needFunc(wn.fn, wn.explicit)
	}

	// an item is good iff it and all its deps translate
	good := map[string]bool{}
	var visit func(n string, stack map[string]bool) bool
	state := map[string]int{}
	visit = func(n string, stack map[string]bool) bool {
		if state[n] == 2 {
			return good[n]
		}
		if state[n] == 1 {
			g.items[n].err = "recursive call cycle"
			return false
		}
		state[n] = 1
		it := g.items[n]
		ok := it != nil && it.err == ""
		if it != nil {
			deps := []string{}
			for d := range it.deps {
				deps = append(deps, d)
			}
			sort.Strings(deps)
			for _, d := range deps {
				if !visit(d, stack) {
					ok = false
					if it.err == "" {
						it.err = "depends on untranslatable " + d + ": " + g.items[d].err
					}
				}
			}
		}
		state[n] = 2
		good[n] = ok
		if ok {
			g.order = append(g.order, n)
		}
		return ok
	}
	names := []string{}
	for n := range g.items {
		names = append(names, n)
	}
	sort.Strings(names)
	// keep configuration order for functions, deps first
	for _, wn := range wants {
		visit(g.funcName(wn.fn), nil)
	}
	for _, n := range names {
		visit(n, nil)
	}

	// assign units: a configured function goes to its unit; a dependency goes to the
	// earliest unit (in configuration order) of any item that needs it.
	unitIdx := map[string]int{}
	for i, u := range units {
		unitIdx[u] = i
	}
	for _, n := range g.order {
		it := g.items[n]
		if u, ok := unitOfKey[it.goKey]; ok {
			it.unit = u
		}
	}
	// an unconfigured dependency (record types, helpers) prefers, among the units that need it,
	// one that holds configured functions of its own Go package; then the earliest in configuration order.
	unitHasPkg := map[string]map[string]bool{}
	for _, n := range g.order {
		it := g.items[n]
		if u, ok := unitOfKey[it.goKey]; ok {
			if unitHasPkg[u] == nil {
				unitHasPkg[u] = map[string]bool{}
			}
			unitHasPkg[u][pkgOfKey(it.goKey)] = true
		}
	}
	better := func(cand, cur, pkg string) bool {
		hc, ho := unitHasPkg[cand][pkg], unitHasPkg[cur][pkg]
		if hc != ho {
			return hc
		}
		return unitIdx[cand] < unitIdx[cur]
	}
	changed := true
	for changed {
		changed = false
		for _, n := range g.order {
			it := g.items[n]
			if it.unit == "" {
				continue
			}
			for d := range it.deps {
				di := g.items[d]
				if _, configured := unitOfKey[di.goKey]; configured {
					continue
				}
				if di.extern != "" {
					continue
				}
				if di.unit == "" || better(it.unit, di.unit, pkgOfKey(di.goKey)) {
					di.unit = it.unit
					changed = true
				}
			}
		}
	}
	// order the units topologically by their actual dependencies (configuration order breaks ties);
	// a dependency cycle between units is an error naming the items that cause it.
	errors := []string{}
	unitDeps := map[string]map[string]string{} // unit -> unit it needs -> example "a needs b"
	for _, n := range g.order {
		it := g.items[n]
		if it.unit == "" {
			continue
		}
		for d := range it.deps {
			du := g.items[d].unit
			if du != "" && du != it.unit {
				if unitDeps[it.unit] == nil {
					unitDeps[it.unit] = map[string]string{}
				}
				unitDeps[it.unit][du] = n + " needs " + d
			}
		}
	}
	{
		var sorted []string
		st := map[string]int{}
		var visitU func(u string, path []string)
		visitU = func(u string, path []string) {
			if st[u] == 2 {
				return
			}
			if st[u] == 1 {
				msg := "unit dependency cycle:"
				for i := len(path) - 1; i >= 0; i-- {
					msg += " " + path[i]
					if path[i] == u && i != len(path)-1 {
						break
					}
				}
				errors = append(errors, msg)
				return
			}
			st[u] = 1
			ds := []string{}
			for d := range unitDeps[u] {
				ds = append(ds, d)
			}
			sort.Slice(ds, func(i, j int) bool { return unitIdx[ds[i]] < unitIdx[ds[j]] })
			for _, d := range ds {
				visitU(d, append(path, u+" ("+unitDeps[u][d]+")"))
			}
			st[u] = 2
			sorted = append(sorted, u)
		}
		for _, u := range units {
			visitU(u, nil)
		}
		units = sorted
		for i, u := range units {
			unitIdx[u] = i
		}
	}

	type repItem struct {
		Go, Coq, Unit, Hash, Err string
		Explicit                 bool
	}
	rep := struct {
		Translated []repItem
		Failed     []repItem
		Errors     []string
		Notes      []string
	}{Notes: g.notes}
	for _, n := range names {
		it := g.items[n]
		if it.extern != "" {
			continue // listed in Notes as EXTERN
		}
		ri := repItem{it.goKey, it.name, it.unit, it.hash, it.err, it.explicit}
		if good[n] {
			rep.Translated = append(rep.Translated, ri)
		} else {
			rep.Failed = append(rep.Failed, ri)
			if it.explicit {
				errors = append(errors, fmt.Sprintf("explicitly configured %s does not translate: %s", it.goKey, it.err))
			}
		}
	}
	for _, nt := range g.notes {
		if strings.HasPrefix(nt, "MISSING ") && !strings.HasSuffix(nt, "*") {
			errors = append(errors, "configured function not found in source: "+strings.TrimPrefix(nt, "MISSING "))
		}
	}
	rep.Errors = errors

	if *outDir != "" {
		for i, u := range units {
			var b strings.Builder
			fmt.Fprintf(&b, "(* GENERATED by harness/cmd/extract from %s — do not edit. *)\n", *repo)
			b.WriteString("From Coq Require Import ZArith List Bool Floats.\nFrom Geo Require Import Base.GoPrim.\nImport ListNotations.\n")
			needUnits := map[string]bool{}
			needMods := map[string]bool{}
			for _, n := range g.order {
				it := g.items[n]
				if it.unit == u && it.extern == "" {
					for d := range it.deps {
						if m := g.items[d].extern; m != "" {
							needMods[m] = true
						} else if du := g.items[d].unit; du != u {
							needUnits[du] = true
						}
					}
				}
			}
			for _, pu := range units[:i] {
				if needUnits[pu] {
					fmt.Fprintf(&b, "From Geo Require Export Gen.%s.\n", pu)
				}
			}
			mods := []string{}
			for m := range needMods {
				mods = append(mods, m)
			}
			sort.Strings(mods)
			for _, m := range mods {
				fmt.Fprintf(&b, "From Geo Require Export %s.\n", m)
			}
			b.WriteString("Local Open Scope bool_scope.\n\n")
			for _, n := range g.order {
				it := g.items[n]
				if it.unit == u && it.extern == "" {
					fmt.Fprintf(&b, "(* %s *)\n%s\n", it.goKey, it.text)
				}
			}
			path := filepath.Join(*outDir, u+".v")
			old, _ := os.ReadFile(path)
			if string(old) != b.String() {
				if err := os.WriteFile(path, []byte(b.String()), 0o644); err != nil {
					fatal(err)
				}
			}
		}
	}
	if *report != "" {
		data, _ := json.MarshalIndent(rep, "", " ")
		os.WriteFile(*report, data, 0o644)
	}
	for _, e := range errors {
		fmt.Fprintln(os.Stderr, "extract: "+e)
	}
	fmt.Printf("extract: %d items translated, %d failed, %d errors\n", len(rep.Translated), len(rep.Failed), len(errors))
	if len(errors) > 0 {
		os.Exit(1)
	}
}
