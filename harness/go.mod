module verifharness

go 1.21.0

require github.com/golang/geo v0.0.0

replace github.com/golang/geo => /repo
