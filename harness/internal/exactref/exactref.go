// Package exactref holds reference oracles that are independent of the s2 predicates and of
// r3.PreciseVector: exact arithmetic with math/big.Rat on the exact values of the float64
// coordinates, and the DEFINITION of the library's symbolic perturbation (Simulation of
// Simplicity) evaluated by a Leibniz expansion instead of the 13-entry table.
// Shared by the observers of C02 (predicates) and C03 (edge crossings).
package exactref

import (
	"math/big"
	"sort"

	"github.com/golang/geo/s2"
)

// RVec is a vector of exact rationals: x, y, z.
type RVec [3]*big.Rat

// RatOf is exact for every finite f.
func RatOf(f float64) *big.Rat { return new(big.Rat).SetFloat64(f) }

// RV converts a point to its exact coordinates.
func RV(p s2.Point) RVec { return RVec{RatOf(p.X), RatOf(p.Y), RatOf(p.Z)} }

func Mul(a, b *big.Rat) *big.Rat { return new(big.Rat).Mul(a, b) }
func Sub(a, b *big.Rat) *big.Rat { return new(big.Rat).Sub(a, b) }
func Add(a, b *big.Rat) *big.Rat { return new(big.Rat).Add(a, b) }

func Dot(a, b RVec) *big.Rat {
	return Add(Add(Mul(a[0], b[0]), Mul(a[1], b[1])), Mul(a[2], b[2]))
}

// Det of the rows a, b, c by cofactor expansion along the first row.
func Det(a, b, c RVec) *big.Rat {
	m0 := Sub(Mul(b[1], c[2]), Mul(b[2], c[1]))
	m1 := Sub(Mul(b[2], c[0]), Mul(b[0], c[2]))
	m2 := Sub(Mul(b[0], c[1]), Mul(b[1], c[0]))
	return Add(Add(Mul(a[0], m0), Mul(a[1], m1)), Mul(a[2], m2))
}

// DetSign is the sign of the exact determinant of the rows a, b, c.
func DetSign(a, b, c s2.Point) int { return Det(RV(a), RV(b), RV(c)).Sign() }

// LexCmp is the lexicographic order on the exact coordinate values (so -0 == +0).
func LexCmp(a, b s2.Point) int {
	for _, d := range [][2]float64{{a.X, b.X}, {a.Y, b.Y}, {a.Z, b.Z}} {
		if d[0] < d[1] {
			return -1
		}
		if d[0] > d[1] {
			return 1
		}
	}
	return 0
}

// SamePoint is Go == on the coordinates.
func SamePoint(a, b s2.Point) bool { return a.X == b.X && a.Y == b.Y && a.Z == b.Z }

// RanksOf gives every point of a set of pairwise distinct points its position in the
// lexicographic order of the set.
func RanksOf(pts []s2.Point) []int {
	idx := make([]int, len(pts))
	for i := range idx {
		idx[i] = i
	}
	sort.Slice(idx, func(i, j int) bool { return LexCmp(pts[idx[i]], pts[idx[j]]) < 0 })
	r := make([]int, len(pts))
	for pos, i := range idx {
		r[i] = pos
	}
	return r
}

// PerturbedSign evaluates the DEFINITION of the perturbation scheme, not the table:
// the point of rank k (k = 0 for the lexicographically smallest point of the whole set)
// is moved by (eps^(2^(3k+2)), eps^(2^(3k+1)), eps^(2^(3k))) in (x, y, z). The determinant
// of the three perturbed rows is expanded with the Leibniz formula into a polynomial in
// eps (exponents are sums of distinct powers of two: represented as bit masks, compared as
// integers); the sign for eps -> 0+ is the sign of the non-zero coefficient of lowest
// exponent. ranks[i] is the rank of row i (rows: a, b, c in the caller's order).
// Also returns the exponent mask of the deciding monomial (0: the plain determinant).
func PerturbedSign(rows [3]RVec, ranks [3]int) (int, uint64) {
	perms := [][4]int{{0, 1, 2, 1}, {1, 2, 0, 1}, {2, 0, 1, 1}, {0, 2, 1, -1}, {2, 1, 0, -1}, {1, 0, 2, -1}}
	coef := map[uint64]*big.Rat{}
	for _, p := range perms {
		for sub := 0; sub < 8; sub++ { // rows whose perturbation (not coordinate) is taken
			var mask uint64
			term := big.NewRat(int64(p[3]), 1)
			for i := 0; i < 3; i++ {
				col := p[i]
				if sub&(1<<i) != 0 {
					// column 0 = x -> bit 3k+2, 1 = y -> 3k+1, 2 = z -> 3k
					mask |= 1 << uint(3*ranks[i]+(2-col))
				} else {
					term = Mul(term, rows[i][col])
				}
			}
			if c, ok := coef[mask]; ok {
				c.Add(c, term)
			} else {
				coef[mask] = term
			}
		}
	}
	keys := make([]uint64, 0, len(coef))
	for k := range coef {
		keys = append(keys, k)
	}
	sort.Slice(keys, func(i, j int) bool { return keys[i] < keys[j] })
	for _, k := range keys {
		if s := coef[k].Sign(); s != 0 {
			return s, k
		}
	}
	return 0, 0 // unreachable: the monomial of the three diagonal perturbations has coefficient +-1
}

// Sign is the sign of the (perturbed) determinant of a, b, c as rows, with the perturbation
// taken relative to the three points only (local ranks). Points must be pairwise distinct.
func Sign(a, b, c s2.Point) (int, uint64) {
	r := RanksOf([]s2.Point{a, b, c})
	return PerturbedSign([3]RVec{RV(a), RV(b), RV(c)}, [3]int{r[0], r[1], r[2]})
}

// Orientation is the documented meaning of RobustSign: 0 iff two of the points are == ;
// otherwise the sign of the exact determinant, and for an exact tie the sign of the
// symbolically perturbed determinant.
func Orientation(a, b, c s2.Point) int {
	if SamePoint(a, b) || SamePoint(b, c) || SamePoint(c, a) {
		return 0
	}
	if d := DetSign(a, b, c); d != 0 {
		return d
	}
	s, _ := Sign(a, b, c)
	return s
}
