package codecgen

import (
	"bytes"
	"io"

	"github.com/golang/geo/s1"
	"github.com/golang/geo/s2"
	"verifharness/internal/vkit"
)

// Readers that are NOT io.ByteReaders and deliver the stream in chunks: the decoders then work
// through their own 4096-byte bufio.Reader and must not depend on how the bytes arrive.

type onlyReader struct{ r io.Reader }

func (o onlyReader) Read(p []byte) (int, error) { return o.r.Read(p) }

type oneByteReader struct{ r io.Reader }

func (o oneByteReader) Read(p []byte) (int, error) {
	if len(p) == 0 {
		return 0, nil
	}
	return o.r.Read(p[:1])
}

type shortReader struct {
	r io.Reader
	s uint64
}

func (o *shortReader) Read(p []byte) (int, error) {
	if len(p) == 0 {
		return 0, nil
	}
	o.s = o.s*6364136223846793005 + 1442695040888963407
	n := int(o.s>>33)%len(p) + 1
	if (o.s>>20)&3 == 0 && n > 7 {
		n = 1 + int(o.s>>40)%7 // often fewer bytes than a float64 needs
	}
	return o.r.Read(p[:n])
}

// ReaderKinds are the names of the chunked readers.
var ReaderKinds = []string{"readOnly", "oneByte", "randomShort"}

// ChunkedReader wraps data in the reader of the given kind.
func ChunkedReader(kind string, data []byte, seed uint64) io.Reader {
	br := bytes.NewReader(data)
	switch kind {
	case "readOnly":
		return onlyReader{br}
	case "oneByte":
		return oneByteReader{br}
	}
	return &shortReader{br, seed | 1}
}

// LargeEncodings returns valid encodings longer than one and two bufio buffers (4096, 8192 bytes):
// polylines, loops, lossless and compressed polygons, cell unions.
func LargeEncodings(rng *vkit.Rng) []struct {
	Kind  Kind
	Data  []byte
	Label string
} {
	type E = struct {
		Kind  Kind
		Data  []byte
		Label string
	}
	var out []E
	enc := func(f func(w *bytes.Buffer) error) []byte { b, _ := Enc(f); return b }
	for _, n := range []int{200, 600, 1100} {
		pl := make(s2.Polyline, n)
		for i := range pl {
			pl[i] = UnitPoint(rng)
		}
		out = append(out, E{KPolyline, enc(func(w *bytes.Buffer) error { return pl.Encode(w) }), "large polyline"})
	}
	centre := UnitPoint(rng)
	for _, n := range []int{190, 700} {
		l := s2.RegularLoop(centre, s1.Angle(0.4), n)
		out = append(out, E{KLoop, enc(func(w *bytes.Buffer) error { return l.Encode(w) }), "large loop"})
		p := s2.PolygonFromLoops([]*s2.Loop{l, s2.RegularLoop(centre, s1.Angle(0.2), n/2)})
		out = append(out, E{KPolygon, enc(func(w *bytes.Buffer) error { return p.Encode(w) }), "large lossless polygon"})
	}
	for _, n := range []int{1500, 4000} {
		// compressed: snapped vertices, with some unsnapped ones whose doubles straddle buffer boundaries
		reg := s2.RegularLoop(centre, s1.Angle(0.5), n)
		vs := make([]s2.Point, n)
		for i, v := range reg.Vertices() {
			vs[i] = s2.CellFromPoint(v).ID().Parent(24).Point()
			if i%9 == 0 {
				vs[i] = v
			}
		}
		p := s2.PolygonFromLoops([]*s2.Loop{s2.LoopFromPoints(vs)})
		out = append(out, E{KPolygon, enc(func(w *bytes.Buffer) error { return p.Encode(w) }), "large compressed polygon"})
	}
	for _, n := range []int{600, 1500} {
		cu := make(s2.CellUnion, n)
		for i := range cu {
			cu[i] = CellAt(rng, i%6, 5+i%25, 0)
		}
		out = append(out, E{KCellUnion, enc(func(w *bytes.Buffer) error { return cu.Encode(w) }), "large cell union"})
	}
	return out
}

// DecodeTerm decodes data of the given kind from r and returns the outcome class ("ok" / "err") and,
// for a value, a canonical text of every decoded field (floats as bit patterns).
func DecodeTerm(k Kind, r io.Reader) (string, string) {
	var err error
	term := ""
	switch k {
	case KPoint:
		var v s2.Point
		if err = v.Decode(r); err == nil {
			term = PointT(v)
		}
	case KCap:
		var v s2.Cap
		if err = v.Decode(r); err == nil {
			term = CapT(v)
		}
	case KRect:
		var v s2.Rect
		if err = v.Decode(r); err == nil {
			term = RectT(v)
		}
	case KCellID:
		var v s2.CellID
		if err = v.Decode(r); err == nil {
			term = U64T(uint64(v))
		}
	case KCell:
		var v s2.Cell
		if err = v.Decode(r); err == nil {
			term = U64T(uint64(v.ID()))
		}
	case KCellUnion:
		var v s2.CellUnion
		if err = v.Decode(r); err == nil {
			term = CellIDsT(v)
		}
	case KPolyline:
		var v s2.Polyline
		if err = v.Decode(r); err == nil {
			term = PointsT(v)
		}
	case KLoop:
		v := new(s2.Loop)
		if err = v.Decode(r); err == nil {
			term = LoopT(v)
		}
	case KPolygon:
		v := new(s2.Polygon)
		if err = v.Decode(r); err == nil {
			term = PolygonT(v)
		}
	}
	if err != nil {
		return "err", ""
	}
	return "ok", term
}

// ReaderKindDiff decodes data through every chunked reader and reports the first difference from
// the decode through a bytes.Reader ("" if none).
func ReaderKindDiff(k Kind, data []byte, seed uint64) string {
	out0, term0 := DecodeTerm(k, bytes.NewReader(data))
	for _, rk := range ReaderKinds {
		out, term := DecodeTerm(k, ChunkedReader(rk, data, seed))
		if out != out0 {
			return rk + ": outcome " + out + ", bytes.Reader gives " + out0
		}
		if term != term0 {
			return rk + ": decoded fields differ from the bytes.Reader decode"
		}
	}
	return ""
}
