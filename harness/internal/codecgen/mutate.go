package codecgen

import (
	"encoding/binary"
)

// Kind of value a byte string is decoded as.
type Kind int

const (
	KPoint Kind = iota
	KCap
	KRect
	KCellID
	KCell
	KCellUnion
	KPolyline
	KLoop
	KPolygon
	NumKinds
)

var KindNames = []string{"Point", "Cap", "Rect", "CellID", "Cell", "CellUnion", "Polyline", "Loop", "Polygon"}

// Field is a count (or index) field inside an encoding, found by Annotate.
type Field struct {
	Off, Len int    // position of the field
	Width    int    // 4 or 8 for fixed-width fields, 0 for a uvarint
	Limit    uint64 // documented limit of the count (0 if it is not a guarded count)
	Name     string
	FaceRun  bool // the uvarint holds 6*count+face
}

const (
	MaxVertices = 50000000
	MaxLoops    = 10000000
	MaxCells    = 1000000
)

func uvarintAt(b []byte, off int) (v uint64, n int, ok bool) {
	if off >= len(b) {
		return 0, 0, false
	}
	v, n = binary.Uvarint(b[off:])
	return v, n, n > 0
}

// Annotate walks a VALID encoding (independently of the s2 decoders) and returns the
// positions of its count fields. It stops silently at the first inconsistency.
func Annotate(k Kind, b []byte) []Field {
	var fs []Field
	switch k {
	case KCellUnion:
		if len(b) >= 9 {
			fs = append(fs, Field{1, 8, 8, MaxCells, "CellUnion.ncells", false})
		}
	case KPolyline:
		if len(b) >= 5 {
			fs = append(fs, Field{1, 4, 4, MaxVertices, "Polyline.nvertices", false})
		}
	case KLoop:
		fs, _ = annotateLoop(b, 0, fs)
	case KPolygon:
		if len(b) == 0 {
			return nil
		}
		if b[0] == 1 {
			if len(b) < 7 {
				return fs
			}
			fs = append(fs, Field{3, 4, 4, MaxLoops, "Polygon.nloops", false})
			n := int(binary.LittleEndian.Uint32(b[3:]))
			off := 7
			for i := 0; i < n && i < 64; i++ {
				var next int
				fs, next = annotateLoop(b, off, fs)
				if next < 0 {
					return fs
				}
				off = next
			}
		} else if b[0] == 4 {
			fs = annotateCompressed(b, fs)
		}
	}
	return fs
}

func annotateLoop(b []byte, off int, fs []Field) ([]Field, int) {
	if off+5 > len(b) {
		return fs, -1
	}
	fs = append(fs, Field{off + 1, 4, 4, MaxVertices, "Loop.nvertices", false})
	n := int(binary.LittleEndian.Uint32(b[off+1:]))
	next := off + 5 + 24*n + 1
	if next+4 > len(b) || n > 1<<20 {
		return fs, -1
	}
	fs = append(fs, Field{next, 4, 4, 0, "Loop.depth", false})
	return fs, next + 4 + 33
}

func annotateCompressed(b []byte, fs []Field) []Field {
	if len(b) < 3 {
		return fs
	}
	level := int(b[1])
	nl, n, ok := uvarintAt(b, 2)
	if !ok {
		return fs
	}
	fs = append(fs, Field{2, n, 0, MaxLoops, "Polygon.compressed.nloops", false})
	off := 2 + n
	for i := uint64(0); i < nl && i < 64; i++ {
		nv, n, ok := uvarintAt(b, off)
		if !ok {
			return fs
		}
		fs = append(fs, Field{off, n, 0, MaxVertices, "Loop.compressed.nvertices", false})
		off += n
		for parsed := uint64(0); parsed < nv; {
			fc, n, ok := uvarintAt(b, off)
			if !ok || fc/6 == 0 {
				return fs
			}
			fs = append(fs, Field{off, n, 0, 0, "faceRun", true})
			off += n
			parsed += fc / 6
		}
		if nv > 0 {
			off += (level + 7) / 8 * 2
			for j := uint64(1); j < nv; j++ {
				_, n, ok := uvarintAt(b, off)
				if !ok {
					return fs
				}
				off += n
			}
		}
		noc, n, ok := uvarintAt(b, off)
		if !ok {
			return fs
		}
		fs = append(fs, Field{off, n, 0, 0, "numOffCentre", false})
		off += n
		for j := uint64(0); j < noc; j++ {
			_, n, ok := uvarintAt(b, off)
			if !ok {
				return fs
			}
			fs = append(fs, Field{off, n, 0, 0, "offCentreIndex", false})
			off += n + 24
		}
		props, n, ok := uvarintAt(b, off)
		if !ok {
			return fs
		}
		fs = append(fs, Field{off, n, 0, 0, "properties", false})
		off += n
		_, n, ok = uvarintAt(b, off)
		if !ok {
			return fs
		}
		fs = append(fs, Field{off, n, 0, 0, "depth", false})
		off += n
		if props&2 != 0 {
			off += 33
		}
	}
	return fs
}

// CountValues are the values every count field is replaced with.
func CountValues(limit uint64) []uint64 {
	vs := []uint64{0, 1 << 31, 1<<32 - 1, 1<<63 - 1, 1 << 63, 1<<64 - 1}
	if limit > 0 {
		vs = append(vs, limit-1, limit, limit+1)
	}
	return vs
}

// Mutation is one derived input.
type Mutation struct {
	Data  []byte
	Label string
	// Big: the declared count is within the documented limit but large (the decoder may
	// legitimately allocate hundreds of MB for it).
	Big bool
}

const bigThreshold = 2000000

// MutateField replaces one count field by v (fixed width: truncated to the width).
func MutateField(b []byte, f Field, v uint64) []byte {
	out := append([]byte{}, b[:f.Off]...)
	switch f.Width {
	case 4:
		var t [4]byte
		binary.LittleEndian.PutUint32(t[:], uint32(v))
		out = append(out, t[:]...)
	case 8:
		var t [8]byte
		binary.LittleEndian.PutUint64(t[:], v)
		out = append(out, t[:]...)
	default:
		var t [binary.MaxVarintLen64]byte
		n := binary.PutUvarint(t[:], v)
		out = append(out, t[:n]...)
	}
	return append(out, b[f.Off+f.Len:]...)
}

// SpliceBytes replaces a field by raw bytes (non-canonical varints).
func SpliceBytes(b []byte, f Field, raw []byte) []byte {
	out := append([]byte{}, b[:f.Off]...)
	out = append(out, raw...)
	return append(out, b[f.Off+f.Len:]...)
}

// FieldMutations: every count value in every count field, plus malformed varints.
func FieldMutations(k Kind, b []byte) []Mutation {
	var out []Mutation
	for _, f := range Annotate(k, b) {
		for _, v := range CountValues(f.Limit) {
			w := v
			if f.FaceRun {
				w = v * 6 // count = v (mod 2^64/6), face 0
			}
			eff := w
			if f.Width == 4 {
				eff = uint64(uint32(w))
			}
			big := f.Limit > 0 && eff > bigThreshold && eff <= f.Limit
			out = append(out, Mutation{MutateField(b, f, w), f.Name + "=" + u64s(v), big})
		}
		if f.Width == 0 {
			for name, raw := range map[string][]byte{
				"overlong-zero": {0x80, 0x80, 0x00},
				"ten-bytes-2":   {0xff, 0xff, 0xff, 0xff, 0xff, 0xff, 0xff, 0xff, 0xff, 0x02},
				"ten-bytes-1":   {0xff, 0xff, 0xff, 0xff, 0xff, 0xff, 0xff, 0xff, 0xff, 0x01},
				"eleven-bytes":  {0x80, 0x80, 0x80, 0x80, 0x80, 0x80, 0x80, 0x80, 0x80, 0x80, 0x01},
				"unterminated":  {0x80},
			} {
				out = append(out, Mutation{SpliceBytes(b, f, raw), f.Name + ":" + name, false})
			}
		}
	}
	return out
}

func u64s(v uint64) string {
	const digits = "0123456789"
	if v == 0 {
		return "0"
	}
	var buf [20]byte
	i := len(buf)
	for v > 0 {
		i--
		buf[i] = digits[v%10]
		v /= 10
	}
	return string(buf[i:])
}

// CoordOffsets returns the byte offsets of the float64 vertex coordinates of a VALID encoding
// of a polyline, a loop or a polygon (either format; compressed: the off-centre points).
func CoordOffsets(k Kind, b []byte) []int {
	var offs []int
	span := func(start, nvertices int) {
		for i := 0; i < 3*nvertices && start+8*i+8 <= len(b); i++ {
			offs = append(offs, start+8*i)
		}
	}
	switch k {
	case KPolyline, KLoop:
		if len(b) >= 5 {
			span(5, int(binary.LittleEndian.Uint32(b[1:])))
		}
	case KPolygon:
		for _, f := range Annotate(k, b) {
			switch f.Name {
			case "Loop.nvertices":
				if n := int(binary.LittleEndian.Uint32(b[f.Off:])); n < 1<<20 {
					span(f.Off+4, n)
				}
			case "offCentreIndex":
				span(f.Off+f.Len, 1)
			}
		}
	}
	return offs
}

// NonFiniteBits are the coordinate values the vertex decoders must refuse.
var NonFiniteBits = []uint64{0x7FF8000000000001, 0x7FF0000000000000, 0xFFF0000000000000, 0xFFF0000000000001}

// CoordMutations replaces single vertex coordinates by NaN / infinities.
func CoordMutations(k Kind, b []byte, pick func(n int) int) []Mutation {
	var out []Mutation
	offs := CoordOffsets(k, b)
	for j, v := range NonFiniteBits {
		if len(offs) == 0 {
			break
		}
		off := offs[pick(len(offs))]
		m := append([]byte{}, b...)
		binary.LittleEndian.PutUint64(m[off:], v)
		out = append(out, Mutation{m, "coordinate@" + u64s(uint64(off)) + "=nonfinite" + u64s(uint64(j)), false})
	}
	return out
}
