// Package codecgen holds what the C09 (lossless encoding) and C15 (total decoding)
// observers share: generators of encodable values, printers of the Coq model values
// (Model/Codec.v: floats as 64-bit patterns), an independent annotator that finds the
// count fields of an encoding, and the byte-string mutators.
package codecgen

import (
	"bytes"
	"fmt"
	"math"
	"strings"

	"github.com/golang/geo/r1"
	"github.com/golang/geo/r3"
	"github.com/golang/geo/s1"
	"github.com/golang/geo/s2"
	"verifharness/internal/vkit"
)

// ---- Coq terms of model values ----

// fb prints the bit pattern of a float64 as (B64 hi lo): primitive-integer literals parse much
// faster in coqc than 20-digit Z numerals.
func fb(f float64) string { return U64T(math.Float64bits(f)) }

// U64T prints a 64-bit value as a Z term.
func U64T(b uint64) string { return fmt.Sprintf("(B64 %d %d)", b>>32, b&0xFFFFFFFF) }

// All numerals inside these terms are plain; the caller wraps the term in ( ... )%Z.
func PointT(p s2.Point) string { return "(" + fb(p.X) + ", " + fb(p.Y) + ", " + fb(p.Z) + ")" }
func PointsT(ps []s2.Point) string {
	xs := make([]string, len(ps))
	for i, p := range ps {
		xs[i] = PointT(p)
	}
	return "[" + strings.Join(xs, "; ") + "]"
}
func RectT(r s2.Rect) string {
	return "(mkrect " + fb(r.Lat.Lo) + " " + fb(r.Lat.Hi) + " " + fb(r.Lng.Lo) + " " + fb(r.Lng.Hi) + ")"
}
func CapT(c s2.Cap) string {
	ctr, rad := s2.VerifC09CapFields(c)
	return "(mkcap " + PointT(ctr) + " " + fb(rad) + ")"
}
func zt(i int64) string {
	if i < 0 {
		return fmt.Sprintf("(%d)", i)
	}
	return fmt.Sprintf("%d", i)
}
func LoopT(l *s2.Loop) string {
	vs, oi, depth, bound := s2.VerifC09LoopFields(l)
	return "(mkloop " + PointsT(vs) + " " + vkit.B(oi) + " " + zt(int64(depth)) + " " + RectT(bound) + ")"
}

// CLoopT prints a loop decoded from the compressed format: the bound is part of the
// model value only if it travelled in the encoding (>= 64 vertices, flag set).
func CLoopT(l *s2.Loop, boundEncoded bool) string {
	vs, oi, depth, bound := s2.VerifC09LoopFields(l)
	b := "None"
	if boundEncoded {
		b = "(Some " + RectT(bound) + ")"
	}
	return "(mkcloop " + PointsT(vs) + " " + vkit.B(oi) + " " + zt(int64(depth)) + " " + b + ")"
}
func PolygonT(p *s2.Polygon) string {
	loops, hh, bound, _ := s2.VerifC09PolygonFields(p)
	xs := make([]string, len(loops))
	for i, l := range loops {
		xs[i] = LoopT(l)
	}
	return "(mkpolygon [" + strings.Join(xs, "; ") + "] " + vkit.B(hh) + " " + RectT(bound) + ")"
}
func CellIDsT(ids []s2.CellID) string {
	xs := make([]string, len(ids))
	for i, c := range ids {
		xs[i] = U64T(uint64(c))
	}
	return "[" + strings.Join(xs, "; ") + "]"
}
func BytesT(b []byte) string {
	var sb strings.Builder
	fmt.Fprintf(&sb, "(unpack_bytes %d ([", len(b))
	for i := 0; i < len(b); i += 7 {
		var w uint64
		for k := 0; k < 7 && i+k < len(b); k++ {
			w |= uint64(b[i+k]) << uint(8*k)
		}
		if i > 0 {
			sb.WriteString("; ")
		}
		fmt.Fprintf(&sb, "%d", w)
	}
	sb.WriteString("])%uint63)")
	return sb.String()
}

// InZ wraps a term whose numerals are integers.
func InZ(t string) string { return "(" + t + ")%Z" }

// ---- float lattice ----

var weirdBits = []uint64{
	0, 0x8000000000000000, // +0 -0
	0x3FF0000000000000, 0xBFF0000000000000, // +-1
	0x7FF0000000000000, 0xFFF0000000000000, // +-inf
	0x7FF8000000000001, 0x7FF0000000000123, 0xFFF8000000000000, 0x7FFFFFFFFFFFFFFF, // NaNs with payloads
	1, 0x000FFFFFFFFFFFFF, 0x0010000000000000, // subnormals, min normal
	0x7FEFFFFFFFFFFFFF, 0xFFEFFFFFFFFFFFFF, // +-max
	0x400921FB54442D18, 0x3FE0000000000000, 0x0123456789ABCDEF, 0xFEDCBA9876543210,
}

// AnyFloat draws from every class of float64 bit pattern.
func AnyFloat(rng *vkit.Rng) float64 {
	switch rng.Intn(4) {
	case 0:
		return math.Float64frombits(weirdBits[rng.Intn(len(weirdBits))])
	case 1:
		return math.Float64frombits(rng.U64())
	default:
		return rng.Range(-2, 2)
	}
}

func UnitPoint(rng *vkit.Rng) s2.Point {
	for {
		v := r3.Vector{X: rng.Range(-1, 1), Y: rng.Range(-1, 1), Z: rng.Range(-1, 1)}
		if n := v.Norm2(); n > 0.01 && n <= 1 {
			return s2.Point{Vector: v.Normalize()}
		}
	}
}

// AnyPoint: arbitrary bit patterns in the coordinates.
func AnyPoint(rng *vkit.Rng) s2.Point {
	if rng.Intn(3) == 0 {
		return UnitPoint(rng)
	}
	return s2.Point{Vector: r3.Vector{X: AnyFloat(rng), Y: AnyFloat(rng), Z: AnyFloat(rng)}}
}

// FiniteFloat: any bit pattern that is not NaN or infinite (-0, subnormals, huge values included).
func FiniteFloat(rng *vkit.Rng) float64 {
	for {
		f := AnyFloat(rng)
		if !math.IsNaN(f) && !math.IsInf(f, 0) {
			return f
		}
	}
}

// FinitePoint: a vertex the loop/polyline decoders accept (they reject NaN and infinite coordinates).
func FinitePoint(rng *vkit.Rng) s2.Point {
	if rng.Intn(3) == 0 {
		return UnitPoint(rng)
	}
	return s2.Point{Vector: r3.Vector{X: FiniteFloat(rng), Y: FiniteFloat(rng), Z: FiniteFloat(rng)}}
}

func AnyRect(rng *vkit.Rng) s2.Rect {
	switch rng.Intn(4) {
	case 0:
		return s2.EmptyRect()
	case 1:
		return s2.FullRect()
	case 2:
		return s2.Rect{Lat: r1.Interval{Lo: AnyFloat(rng), Hi: AnyFloat(rng)}, Lng: s1.Interval{Lo: AnyFloat(rng), Hi: AnyFloat(rng)}}
	}
	a, b := rng.Range(-1.5, 1.5), rng.Range(-1.5, 1.5)
	if a > b {
		a, b = b, a
	}
	return s2.Rect{Lat: r1.Interval{Lo: a, Hi: b}, Lng: s1.Interval{Lo: rng.Range(-3.14, 3.14), Hi: rng.Range(-3.14, 3.14)}}
}

// ValidRect: a rectangle Rect.Decode accepts (it rejects invalid ones since 41c9631).
func ValidRect(rng *vkit.Rng) s2.Rect {
	switch rng.Intn(5) {
	case 0:
		return s2.EmptyRect()
	case 1:
		return s2.FullRect()
	case 2:
		// inverted longitude interval, latitude at the poles, +-pi endpoints
		return []s2.Rect{
			{Lat: r1.Interval{Lo: -math.Pi / 2, Hi: math.Pi / 2}, Lng: s1.Interval{Lo: 3, Hi: -3}},
			{Lat: r1.Interval{Lo: math.Pi / 2, Hi: math.Pi / 2}, Lng: s1.Interval{Lo: math.Pi, Hi: math.Pi}},
			{Lat: r1.Interval{Lo: -1, Hi: 1}, Lng: s1.Interval{Lo: math.Pi, Hi: -3}},
			{Lat: r1.Interval{Lo: 0, Hi: 0}, Lng: s1.Interval{Lo: 1, Hi: math.Pi}},
			{Lat: r1.Interval{Lo: math.Copysign(0, -1), Hi: 5e-324}, Lng: s1.Interval{Lo: -math.Pi, Hi: math.Pi}},
		}[rng.Intn(5)]
	}
	a, b := rng.Range(-1.5, 1.5), rng.Range(-1.5, 1.5)
	if a > b {
		a, b = b, a
	}
	return s2.Rect{Lat: r1.Interval{Lo: a, Hi: b}, Lng: s1.Interval{Lo: rng.Range(-3.14, 3.14), Hi: rng.Range(-3.14, 3.14)}}
}

func AnyCap(rng *vkit.Rng) s2.Cap {
	switch rng.Intn(4) {
	case 0:
		return s2.EmptyCap()
	case 1:
		return s2.FullCap()
	case 2:
		return s2.VerifC09CapRaw(AnyPoint(rng), AnyFloat(rng))
	}
	return s2.CapFromCenterAngle(UnitPoint(rng), s1.Angle(rng.Range(0, 3.2)))
}

func AnyCellID(rng *vkit.Rng) s2.CellID {
	switch rng.Intn(4) {
	case 0:
		return s2.CellID(rng.U64())
	case 1:
		return s2.CellID([]uint64{0, 1, 0xFFFFFFFFFFFFFFFF, 0x8000000000000000, 0xC000000000000000, 0x1000000000000000, 0xBFFFFFFFFFFFFFFF}[rng.Intn(7)])
	}
	return CellAt(rng, rng.Intn(6), rng.Intn(31), rng.Intn(4))
}

// CellAt descends from a face cell to the given level. corner: 0 = random children,
// 1 = always child 0, 2 = always child 3 (the two ends of the Hilbert curve: si/ti extremes
// such as si = 1 and si = 2^31-1 at level 30), 3 = always child k for a random fixed k.
func CellAt(rng *vkit.Rng, face, level, corner int) s2.CellID {
	c := s2.CellIDFromFace(face)
	fixed := rng.Intn(4)
	for c.Level() < level {
		k := rng.Intn(4)
		switch corner {
		case 1:
			k = 0
		case 2:
			k = 3
		case 3:
			k = fixed
		}
		c = c.Children()[k]
	}
	return c
}

// FaceCentrePlus are the six face centres written with +0 in the zero coordinates (the way a
// caller writes the poles and axis points); the cell-centre detection compares with ==.
var FaceCentrePlus = []s2.Point{
	{Vector: r3.Vector{X: 1, Y: 0, Z: 0}}, {Vector: r3.Vector{X: 0, Y: 1, Z: 0}}, {Vector: r3.Vector{X: 0, Y: 0, Z: 1}},
	{Vector: r3.Vector{X: -1, Y: 0, Z: 0}}, {Vector: r3.Vector{X: 0, Y: -1, Z: 0}}, {Vector: r3.Vector{X: 0, Y: 0, Z: -1}},
}

// VertexMode says how the vertices of a generated loop relate to cell centres.
type VertexMode int

const (
	OneLevel      VertexMode = iota // all centres of one level
	MixedLevels                     // centres of several levels, one level dominating
	PartlyFree                      // mostly centres of one level, some arbitrary unit points
	MostlyFree                      // mostly arbitrary (lossless format expected)
	FaceHopping                     // centres of one level, consecutive vertices on different faces
	Extremes                        // centres at the ends of the (si,ti) range
	NearCentres                     // centres moved by one ulp in one coordinate (must go off-centre)
	RawCentres                      // unnormalised centres and scaled centres (not unit length)
	LatticeMixed                    // centres of one level mixed with (si,ti) lattice points whose si and ti are at different levels (cell corners, edge midpoints)
	numVertexModes
)

var ModeNames = []string{"one-level", "mixed-levels", "partly-free", "mostly-free", "face-hopping", "si-ti-extremes", "near-centres", "raw-centres", "lattice-mixed-levels"}

// Vertices generates n vertices in the given mode around level.
func Vertices(rng *vkit.Rng, mode VertexMode, n, level int) []s2.Point {
	out := make([]s2.Point, 0, n)
	face := rng.Intn(6)
	for i := 0; i < n; i++ {
		var p s2.Point
		switch mode {
		case OneLevel:
			if rng.Intn(8) == 0 {
				face = rng.Intn(6)
			}
			p = CellAt(rng, face, level, 0).Point()
		case MixedLevels:
			lv := level
			if rng.Intn(3) == 0 {
				lv = rng.Intn(31)
			}
			p = CellAt(rng, rng.Intn(6), lv, 0).Point()
		case PartlyFree:
			if rng.Intn(5) == 0 {
				p = UnitPoint(rng)
			} else {
				p = CellAt(rng, face, level, 0).Point()
			}
		case MostlyFree:
			if rng.Intn(5) == 0 {
				p = CellAt(rng, face, level, 0).Point()
			} else {
				p = UnitPoint(rng)
			}
		case FaceHopping:
			p = CellAt(rng, (face+i)%6, level, rng.Intn(4)).Point()
		case Extremes:
			p = CellAt(rng, rng.Intn(6), level, 1+rng.Intn(3)).Point()
		case NearCentres:
			p = CellAt(rng, face, level, 0).Point()
			switch rng.Intn(4) {
			case 0:
				p.X = vkit.Ulps(p.X, 1-2*rng.Intn(2))
			case 1:
				p.Y = vkit.Ulps(p.Y, 1-2*rng.Intn(2))
			case 2:
				p.Z = vkit.Ulps(p.Z, 1-2*rng.Intn(2))
			}
		case LatticeMixed:
			if rng.Intn(3) != 0 {
				p = CellAt(rng, face, level, 0).Point()
			} else {
				p = LatticePoint(rng, face, level, rng.Intn(3))
			}
		case RawCentres:
			c := CellAt(rng, face, level, 0)
			f, si, ti := s2.VerifC09CellFaceSiTi(c)
			p = s2.VerifC09FaceSiTiToXYZ(f, si, ti)
			if rng.Bool() {
				p = s2.Point{Vector: c.Point().Mul(2)}
			}
		}
		out = append(out, p)
	}
	return out
}

// siAtLevel draws an si (or ti) value that is the centre coordinate of a cell of the given level:
// an odd multiple of 2^(30-level).
func siAtLevel(rng *vkit.Rng, level int) uint32 {
	k := uint32(rng.U64()) & (1<<uint(level) - 1)
	return (2*k + 1) << uint(30-level)
}

// LatticePoint is a unit point exactly on the (si,ti) lattice, computed like a cell centre or a
// cell vertex (faceSiTiToXYZ, normalised), that is NOT a cell centre: kind 0 = si at [level], ti at
// another level (a cell-edge midpoint of some cell); kind 1 = ti at [level], si at another level;
// kind 2 = both at coarser positions of different levels (a cell corner when even).
func LatticePoint(rng *vkit.Rng, face, level, kind int) s2.Point {
	other := rng.Intn(31)
	for other == level {
		other = rng.Intn(31)
	}
	si, ti := siAtLevel(rng, level), siAtLevel(rng, other)
	switch kind {
	case 1:
		si, ti = ti, si
	case 2:
		si = uint32(rng.Intn(1<<uint(min(level, 20))+1)) << uint(31-min(level, 20))
		if si == 0 {
			si = 1 << 30
		}
	}
	return s2.Point{Vector: s2.VerifC09FaceSiTiToXYZ(face, si, ti).Normalize()}
}

func min(a, b int) int {
	if a < b {
		return a
	}
	return b
}

// RawLoop builds a loop with arbitrary (possibly inconsistent) origin flag, depth and bound:
// the codecs must carry whatever the fields hold.
func RawLoop(rng *vkit.Rng, vs []s2.Point) *s2.Loop {
	depth := []int{0, 0, 1, 2, 3, 7, 1 << 20, 1<<31 - 1}[rng.Intn(8)]
	return s2.VerifC09LoopRaw(vs, rng.Bool(), depth, ValidRect(rng))
}

// GenLoop returns a loop and a class name.
func GenLoop(rng *vkit.Rng) (*s2.Loop, string) {
	switch rng.Intn(10) {
	case 0:
		return s2.EmptyLoop(), "loop:empty"
	case 1:
		return s2.FullLoop(), "loop:full"
	case 2:
		return s2.VerifC09LoopRaw(nil, rng.Bool(), rng.Intn(3), ValidRect(rng)), "loop:zero-vertices"
	case 3:
		l := s2.RegularLoop(UnitPoint(rng), s1.Angle(rng.Range(0.01, 1.5)), 3+rng.Intn(9))
		if rng.Bool() {
			l.Invert()
			return l, "loop:regular-inverted"
		}
		return l, "loop:regular"
	case 4:
		n := 1 + rng.Intn(6)
		vs := make([]s2.Point, n)
		for i := range vs {
			vs[i] = FinitePoint(rng)
		}
		return RawLoop(rng, vs), "loop:arbitrary-finite-bit-patterns"
	}
	mode := VertexMode(rng.Intn(int(numVertexModes)))
	n := []int{3, 4, 5, 8, 17, 63, 64, 65}[rng.Intn(8)]
	return RawLoop(rng, Vertices(rng, mode, n, rng.Intn(31))), "loop:" + ModeNames[mode]
}

// GenPolygon returns a polygon, its class, and whether every loop has at least one vertex.
func GenPolygon(rng *vkit.Rng) (*s2.Polygon, string) {
	switch rng.Intn(15) {
	case 13, 14:
		// the four vertices of a cell (corners of the (si,ti) lattice: si and ti even at the cell's
		// level, in general at different levels), every face, any level
		c := CellAt(rng, rng.Intn(6), rng.Intn(31), rng.Intn(4))
		if rng.Bool() {
			return s2.PolygonFromCell(s2.CellFromCellID(c)), "polygon:from-cell"
		}
		l := s2.LoopFromCell(s2.CellFromCellID(c))
		return s2.PolygonFromLoops([]*s2.Loop{l}), "polygon:from-cell"
	case 5:
		// a loop without vertices among (or instead of) snapped loops
		loops := []*s2.Loop{s2.VerifC09LoopRaw(nil, true, 1, ValidRect(rng))}
		if rng.Bool() {
			loops = append(loops, RawLoop(rng, Vertices(rng, OneLevel, 4, 10)))
		}
		return s2.VerifC09PolygonRaw(loops, rng.Bool(), ValidRect(rng)), "polygon:zero-vertex-loop"
	case 0:
		return &s2.Polygon{}, "polygon:zero-value"
	case 1:
		return s2.PolygonFromLoops(nil), "polygon:no-loops"
	case 2:
		return s2.FullPolygon(), "polygon:full"
	case 3:
		// a real nested polygon: concentric regular loops (shell, hole, shell ...), optionally snapped
		c := UnitPoint(rng)
		k := 1 + rng.Intn(4)
		loops := []*s2.Loop{}
		snap := rng.Intn(3)
		level := 8 + rng.Intn(20)
		for i := 0; i < k; i++ {
			l := s2.RegularLoop(c, s1.Angle(0.05+0.2*float64(i)), 4+rng.Intn(6))
			if snap > 0 {
				vs := l.Vertices()
				ws := make([]s2.Point, len(vs))
				for j, v := range vs {
					ws[j] = s2.CellFromPoint(v).ID().Parent(level).Point()
					if snap == 2 && rng.Intn(4) == 0 {
						ws[j] = v
					}
				}
				l = s2.LoopFromPoints(ws)
			}
			loops = append(loops, l)
		}
		return s2.PolygonFromLoops(loops), fmt.Sprintf("polygon:nested-regular-snap%d", snap)
	case 4:
		// the six face centres written with +0: all snapped at level 0
		vs := []s2.Point{FaceCentrePlus[2], FaceCentrePlus[0], FaceCentrePlus[1]}
		if rng.Bool() {
			vs = []s2.Point{FaceCentrePlus[5], FaceCentrePlus[1], FaceCentrePlus[0], FaceCentrePlus[4]}
		}
		return s2.PolygonFromLoops([]*s2.Loop{s2.LoopFromPoints(vs)}), "polygon:face-centres-plus-zero"
	}
	nl := rng.Intn(7)
	mode := VertexMode(rng.Intn(int(numVertexModes)))
	level := rng.Intn(31)
	if rng.Intn(4) == 0 {
		level = []int{0, 1, 29, 30}[rng.Intn(4)]
	}
	loops := make([]*s2.Loop, nl)
	for i := range loops {
		n := []int{1, 2, 3, 3, 4, 4, 5, 6, 9, 12, 20, 63, 64, 65}[rng.Intn(14)]
		m := mode
		if rng.Intn(5) == 0 {
			m = VertexMode(rng.Intn(int(numVertexModes)))
		}
		vs := Vertices(rng, m, n, level)
		if rng.Intn(6) == 0 { // reversed vertex order (an inverted loop)
			for a, b := 0, len(vs)-1; a < b; a, b = a+1, b-1 {
				vs[a], vs[b] = vs[b], vs[a]
			}
		}
		loops[i] = RawLoop(rng, vs)
	}
	return s2.VerifC09PolygonRaw(loops, rng.Bool(), ValidRect(rng)), fmt.Sprintf("polygon:%d-loops-%s", nl, ModeNames[mode])
}

// Enc runs an Encode method into a byte slice.
func Enc(f func(w *bytes.Buffer) error) ([]byte, error) {
	var b bytes.Buffer
	err := f(&b)
	return b.Bytes(), err
}
