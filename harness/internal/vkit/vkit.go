// Package vkit holds what every observer shares: one PRNG, Coq term printers,
// the collector of correspondence cases ([T]) and of property violations found
// directly on the implementation ([S]), and the shard/JSON writers.
package vkit

import (
	"encoding/json"
	"fmt"
	"math"
	"os"
	"path/filepath"
	"sort"
	"strconv"
	"strings"
)

// Rng is splitmix64; every random choice of a run derives from one seed.
type Rng struct{ s uint64 }

func NewRng(seed uint64) *Rng {
	// hash the seed so that consecutive seeds give unrelated streams
	z := seed + 0x6A09E667F3BCC909
	z = (z ^ (z >> 30)) * 0xBF58476D1CE4E5B9
	z = (z ^ (z >> 27)) * 0x94D049BB133111EB
	z ^= z >> 31
	r := &Rng{s: z}
	r.U64()
	return r
}
func (r *Rng) U64() uint64 {
	r.s += 0x9E3779B97F4A7C15
	z := r.s
	z = (z ^ (z >> 30)) * 0xBF58476D1CE4E5B9
	z = (z ^ (z >> 27)) * 0x94D049BB133111EB
	return z ^ (z >> 31)
}
func (r *Rng) Intn(n int) int {
	if n <= 0 {
		return 0
	}
	return int(r.U64() % uint64(n))
}
func (r *Rng) Float() float64 { return float64(r.U64()>>11) / (1 << 53) }
func (r *Rng) Range(lo, hi float64) float64 { return lo + (hi-lo)*r.Float() }
func (r *Rng) Bool() bool     { return r.U64()&1 == 1 }
func (r *Rng) Pick(xs []float64) float64 { return xs[r.Intn(len(xs))] }

// Ulps moves x by k units in the last place.
func Ulps(x float64, k int) float64 {
	for ; k > 0; k-- {
		x = math.Nextafter(x, math.Inf(1))
	}
	for ; k < 0; k++ {
		x = math.Nextafter(x, math.Inf(-1))
	}
	return x
}

// ---- Coq terms ----

// F prints a float64 as an exact Coq primitive-float literal.
func F(f float64) string {
	switch {
	case math.IsNaN(f):
		return "nan"
	case math.IsInf(f, 1):
		return "infinity"
	case math.IsInf(f, -1):
		return "neg_infinity"
	}
	return "(" + strconv.FormatFloat(f, 'x', -1, 64) + ")%float"
}

// Z prints an integer literal.
func Z(i int64) string {
	if i < 0 {
		return fmt.Sprintf("(%d)%%Z", i)
	}
	return fmt.Sprintf("%d%%Z", i)
}
func U(i uint64) string { return fmt.Sprintf("%d%%Z", i) }
func B(b bool) string {
	if b {
		return "true"
	}
	return "false"
}
func App(f string, args ...string) string {
	if len(args) == 0 {
		return f
	}
	return "(" + f + " " + strings.Join(args, " ") + ")"
}
func List(xs []string) string { return "[" + strings.Join(xs, "; ") + "]" }
func Pair(a, b string) string { return "(" + a + ", " + b + ")" }

// ---- collector ----

type Violation struct {
	Kind   string      `json:"kind"` // short class used to match known findings
	Desc   string      `json:"desc"`
	Replay interface{} `json:"replay"`
}

type Case struct {
	Label string
	Term  string // a Coq term of type bool that must evaluate to true
}

type Collector struct {
	Prop       string
	Seed       uint64
	Tier       string
	Requires   []string // Coq modules the case files import
	Cases      []Case
	Violations []Violation
	Classes    map[string]int // input distribution
	NonTrivial map[string]bool
	Evals      int
	Samples    []interface{}
	Extra      map[string]interface{}
	ShardSize  int // cases per cases_<k>.v; 0 = default (observers with heavy cases lower it so that shards run in parallel)
	maxViol    int
}

func NewCollector(prop string, seed uint64, tier string, requires ...string) *Collector {
	return &Collector{Prop: prop, Seed: seed, Tier: tier, Requires: requires, Classes: map[string]int{},
		NonTrivial: map[string]bool{}, Extra: map[string]interface{}{}, maxViol: 20}
}

// Check records a correspondence case: term must vm_compute to true.
func (c *Collector) Check(label, term string) { c.Cases = append(c.Cases, Case{label, term}) }

// Class counts one generated input in the printed input distribution.
func (c *Collector) Class(name string) { c.Classes[name]++ }

// Eval counts one evaluation of the implementation; key identifies a distinct non-trivial case.
func (c *Collector) Eval(key string, nontrivial bool) {
	c.Evals++
	if nontrivial {
		c.NonTrivial[key] = true
	}
}
func (c *Collector) Sample(s interface{}) {
	if len(c.Samples) < 8 {
		c.Samples = append(c.Samples, s)
	}
}
func (c *Collector) Violate(kind, desc string, replay interface{}) {
	if len(c.Violations) < c.maxViol {
		c.Violations = append(c.Violations, Violation{kind, desc, replay})
	}
}

const shardSize = 1200

// Write emits cases_<k>.v and obs.json into dir.
func (c *Collector) Write(dir string) error {
	if err := os.MkdirAll(dir, 0o755); err != nil {
		return err
	}
	old, _ := filepath.Glob(filepath.Join(dir, "cases_*.v*"))
	for _, f := range old {
		os.Remove(f)
	}
	old, _ = filepath.Glob(filepath.Join(dir, ".cases_*.aux"))
	for _, f := range old {
		os.Remove(f)
	}
	shards := [][]string{}
	shardSize := shardSize
	if c.ShardSize > 0 {
		shardSize = c.ShardSize
	}
	for i := 0; i < len(c.Cases); i += shardSize {
		j := i + shardSize
		if j > len(c.Cases) {
			j = len(c.Cases)
		}
		var b strings.Builder
		b.WriteString("From Coq Require Import ZArith List Bool Floats.\nImport ListNotations.\n")
		b.WriteString("From Geo Require Import Base.GoPrim Base.Check.\n")
		for _, r := range c.Requires {
			fmt.Fprintf(&b, "From Geo Require Import %s.\n", r)
		}
		b.WriteString("Local Open Scope bool_scope.\nDefinition results : list bool := [\n")
		labels := []string{}
		for k, cs := range c.Cases[i:j] {
			if k > 0 {
				b.WriteString(";\n")
			}
			b.WriteString(cs.Term)
			labels = append(labels, cs.Label)
		}
		b.WriteString("\n].\nDefinition M := Eval vm_compute in mismatches results.\nPrint M.\n")
		name := fmt.Sprintf("cases_%d.v", len(shards))
		if err := os.WriteFile(filepath.Join(dir, name), []byte(b.String()), 0o644); err != nil {
			return err
		}
		shards = append(shards, labels)
	}
	classes := []string{}
	for k := range c.Classes {
		classes = append(classes, k)
	}
	sort.Strings(classes)
	out := map[string]interface{}{
		"property": c.Prop, "seed": c.Seed, "tier": c.Tier,
		"evaluations": c.Evals, "distinct_nontrivial": len(c.NonTrivial),
		"correspondence_cases": len(c.Cases), "input_distribution": c.Classes,
		"samples": c.Samples, "violations": c.Violations, "shards": shards, "extra": c.Extra,
	}
	data, err := json.MarshalIndent(out, "", " ")
	if err != nil {
		return err
	}
	return os.WriteFile(filepath.Join(dir, "obs.json"), data, 0o644)
}

// Main is the entry point of every per-property observer binary (cmd/obs/<id>).
//   obs_<id> -seed N -tier quick|thorough|search -out DIR
// budget is 1 for quick, 8 for thorough, 30 for search; observers scale their case counts by it.
func Main(prop string, requires []string, run func(c *Collector, rng *Rng, budget int)) {
	var seed uint64 = 1
	tier, out := "quick", ""
	args := os.Args[1:]
	for i := 0; i+1 < len(args); i += 2 {
		switch args[i] {
		case "-seed":
			seed, _ = strconv.ParseUint(args[i+1], 10, 64)
		case "-tier":
			tier = args[i+1]
		case "-out":
			out = args[i+1]
		}
	}
	if out == "" {
		fmt.Fprintln(os.Stderr, "usage: -seed N -tier quick|thorough|search -out DIR")
		os.Exit(2)
	}
	budget := map[string]int{"quick": 1, "thorough": 8, "search": 30}[tier]
	if budget == 0 {
		budget = 1
	}
	if s := os.Getenv("VERIF_BUDGET"); s != "" {
		if b, err := strconv.Atoi(s); err == nil && b > 0 {
			budget = b
		}
	}
	c := NewCollector(prop, seed, tier, requires...)
	run(c, NewRng(seed), budget)
	if err := c.Write(out); err != nil {
		fmt.Fprintln(os.Stderr, err)
		os.Exit(2)
	}
	fmt.Printf("observe %s: %d evaluations, %d cases, %d violations\n", prop, c.Evals, len(c.Cases), len(c.Violations))
}
